#!/usr/bin/env python3
"""gen_preparesign.py — translator for C03: regenerates coq/Gen/PrepareSign.v from the bodies of

  every `prepare_sign` in fuel-tx        (which fields signing preparation zeroes, per type)
  ChargeableTransaction::id / Mint::id    (cached id first; clone; prepare_sign; witnesses cleared)
  compute_transaction_id                  (what is fed to the hasher, in which order)
  UniqueIdentifier::cached_id, Cacheable::precompute of the six kinds, CommonMetadata::compute
                                          (the id stored by precomputation is `tx.id(chain_id)`
                                           computed after the old metadata has been dropped)

The bodies are straight-line lists of a handful of statement forms

  self.F = Default::default();                                            ZDefault F
  if let Some(x) = self.F.as_mut_field() { *x = Default::default(); }     ZDefault F   (no-op on input::Empty)
  self.F.prepare_sign();   /  X.F.prepare_sign();                         ZCall F <type of F>
  self.F_mut().iter_mut().for_each(T::prepare_sign);                      ZEach F T
  X.F_mut().clear();                                                      ZClear F
  X.prepare_sign();                                                       ZSelf <type>
  match self { E::V(x) => x.prepare_sign(), E::V { a, b, .. } => { *a = 0; *b = T::default(); } _ => () }

Anything else raises TranslateError (a broken tie, DESIGN.md section 4): the model has to be
re-validated by a human against the new text.

Also writes harness/src/gen/tx_schema.rs: the schemas of coq/Gen/Schemas.v (as produced by
tools/gen_schemas.py on the same tree) as Rust statics, so that the harness binaries of
C03-C05 enumerate field paths from the schema instead of from a hand-written list."""
import os
import re


class TranslateError(Exception):
    pass


T = "fuel-tx/src/transaction/"


def read(repo, rel):
    p = os.path.join(repo, rel)
    if not os.path.exists(p):
        raise TranslateError("source file %s not found" % rel)
    return open(p).read()


def strip_comments(src):
    out, i, n = [], 0, len(src)
    while i < n:
        if src.startswith("//", i):
            j = src.find("\n", i)
            i = n if j < 0 else j
        elif src.startswith("/*", i):
            j = src.find("*/", i)
            i = n if j < 0 else j + 2
        elif src[i] == '"':
            j = i + 1
            while j < n and src[j] != '"':
                j += 2 if src[j] == "\\" else 1
            out.append(src[i:j + 1]); i = j + 1
        else:
            out.append(src[i]); i += 1
    return "".join(out)


def match_brace(src, i):
    """src[i] == '{' -> index just after the matching '}'."""
    assert src[i] == "{"
    d = 0
    for j in range(i, len(src)):
        if src[j] == "{":
            d += 1
        elif src[j] == "}":
            d -= 1
            if d == 0:
                return j + 1
    raise TranslateError("unbalanced braces")


def norm(s):
    return re.sub(r"\s+", " ", s).strip()


def find_fn(src, header_re, what, after=None):
    """Body (without the outer braces, whitespace-normalised) of the first fn whose header matches
    header_re, searched after the first match of `after` (a regex naming the impl block)."""
    start = 0
    if after is not None:
        m = re.search(after, src)
        if not m:
            raise TranslateError("%s: impl block /%s/ not found" % (what, after))
        start = m.end()
        # restrict to that impl block
        b = src.index("{", start)
        end = match_brace(src, b)
        region = src[b:end]
        base = 0
        m2 = re.search(header_re, region)
        if not m2:
            raise TranslateError("%s: fn /%s/ not found in its impl block" % (what, header_re))
        i = region.index("{", m2.end())
        return norm(region[i + 1:match_brace(region, i) - 1])
    m = re.search(header_re, src[start:])
    if not m:
        raise TranslateError("%s: fn /%s/ not found" % (what, header_re))
    i = src.index("{", start + m.end())
    return norm(src[i + 1:match_brace(src, i) - 1])


DEFAULT_RHS = r"(?:Default::default\(\)|0|[A-Z]\w*::default\(\))"


def split_statements(body, what):
    """Split a normalised block body into top-level statements (`...;`, `if ... {..}`, `match .. {..}`)."""
    out, i, n = [], 0, len(body)
    while i < n:
        while i < n and body[i] == " ":
            i += 1
        if i >= n:
            break
        if body.startswith("if ", i) or body.startswith("match ", i):
            b = body.index("{", i)
            e = match_brace(body, b)
            out.append(body[i:e].strip())
            i = e
            # optional trailing `;`
            while i < n and body[i] in " ;":
                i += 1
        else:
            j = body.find(";", i)
            if j < 0:
                out.append(body[i:].strip()); break
            # a `{` before the `;` at top level means a construct I do not know
            if "{" in body[i:j]:
                raise TranslateError("%s: unknown statement form: %s" % (what, body[i:j + 40]))
            out.append(body[i:j].strip()); i = j + 1
    return [s for s in out if s]


class Ctx:
    """how the type of a field / a variant payload is turned into a table key"""

    def __init__(self, field_types, self_names=("self",)):
        self.field_types = field_types
        self.self_names = self_names


def parse_struct_ops(body, what, ctx):
    """ops of a straight-line method body; `ctx.self_names` are the receiver names (self / clone)."""
    ops = []
    recv = "(?:%s)" % "|".join(ctx.self_names)
    for st in split_statements(body, what):
        m = re.fullmatch(r"%s\.(\w+) = %s" % (recv, DEFAULT_RHS), st)
        if m:
            ops.append(("ZDefault", m.group(1))); continue
        m = re.fullmatch(r"if let Some\((\w+)\) = %s\.(\w+)\.as_mut_field\(\) \{ \*(\w+) = %s; \}" % (recv, DEFAULT_RHS), st)
        if m and m.group(1) == m.group(3):
            ops.append(("ZDefault", m.group(2))); continue
        m = re.fullmatch(r"%s\.(\w+)\.prepare_sign\(\)" % recv, st)
        if m:
            f = m.group(1)
            if f not in ctx.field_types:
                raise TranslateError("%s: cannot resolve the type of field %s" % (what, f))
            ops.append(("ZCall", f, ctx.field_types[f])); continue
        m = re.fullmatch(r"%s\.(\w+)_mut\(\)\.iter_mut\(\)\.for_each\((\w+)::prepare_sign\)" % recv, st)
        if m:
            ops.append(("ZEach", m.group(1), m.group(2))); continue
        m = re.fullmatch(r"%s\.(\w+)_mut\(\)\.clear\(\)" % recv, st)
        if m:
            ops.append(("ZClear", m.group(1))); continue
        raise TranslateError("%s: statement not understood: `%s`" % (what, st))
    return ops


def parse_match(body, what, enum_name, payload_key):
    """`match self { arms }` of an enum method.  payload_key(variant) -> table key of a tuple payload."""
    m = re.fullmatch(r"match self \{(.*)\}", body)
    if not m:
        raise TranslateError("%s: expected a single `match self {..}`: %s" % (what, body[:80]))
    s = m.group(1).strip()
    arms, wild, i, n = [], False, 0, len(s)
    while i < n:
        while i < n and s[i] in " ,":
            i += 1
        if i >= n:
            break
        j = s.find("=>", i)
        if j < 0:
            raise TranslateError("%s: arm without `=>`: %s" % (what, s[i:i + 60]))
        pat = s[i:j].strip()
        k = j + 2
        while s[k] == " ":
            k += 1
        if s[k] == "{":
            e = match_brace(s, k)
            rhs = s[k + 1:e - 1].strip()
            i = e
        else:
            # up to the next top-level comma
            d, e = 0, k
            while e < n and not (s[e] == "," and d == 0):
                d += s[e] in "({["
                d -= s[e] in ")}]"
                e += 1
            rhs = s[k:e].strip()
            i = e
        if pat == "_":
            if rhs not in ("()", ""):
                raise TranslateError("%s: wildcard arm does something: %s" % (what, rhs))
            wild = True
            continue
        mp = re.fullmatch(r"%s::(\w+)\((\w+)\)" % enum_name, pat)
        if mp:
            v, x = mp.groups()
            if rhs != "%s.prepare_sign()" % x:
                raise TranslateError("%s: arm %s: expected `%s.prepare_sign()`, found `%s`" % (what, v, x, rhs))
            arms.append((v, [("ZCall", "0", payload_key(v))]))
            continue
        mp = re.fullmatch(r"%s::(\w+) \{(.*)\}" % enum_name, pat)
        if mp:
            v = mp.group(1)
            binders = [b.strip() for b in mp.group(2).split(",") if b.strip()]
            if not binders or binders[-1] != "..":
                pass
            names = [b for b in binders if b != ".."]
            for b in names:
                if not re.fullmatch(r"\w+", b):
                    raise TranslateError("%s: arm %s: binder `%s` not understood" % (what, v, b))
            ops = []
            for st in split_statements(rhs, what):
                ms = re.fullmatch(r"\*(\w+) = %s" % DEFAULT_RHS, st)
                if not ms or ms.group(1) not in names:
                    raise TranslateError("%s: arm %s: statement not understood: `%s`" % (what, v, st))
                ops.append(("ZDefault", ms.group(1)))
            arms.append((v, ops))
            continue
        raise TranslateError("%s: pattern not understood: `%s`" % (what, pat))
    return arms, wild


def struct_field_types(src, struct_re, what):
    """{field: type text} of the struct whose header matches struct_re."""
    m = re.search(struct_re, src)
    if not m:
        raise TranslateError("%s: struct /%s/ not found" % (what, struct_re))
    b = src.index("{", m.end() - 1) if src[m.end() - 1] != "{" else m.end() - 1
    body = src[b + 1:match_brace(src, b) - 1]
    body = re.sub(r"#\[[^\]]*\]", " ", body)            # attributes (none of them nests brackets here)
    res = {}
    for part in split_top_commas(body):
        part = norm(part)
        if not part:
            continue
        mf = re.fullmatch(r"(?:pub(?:\([^)]*\))? )?(\w+) ?: ?(.+)", part)
        if not mf:
            raise TranslateError("%s: field declaration not understood: `%s`" % (what, part))
        res[mf.group(1)] = mf.group(2).replace(" ", "")
    return res


def split_top_commas(s):
    out, d, cur = [], 0, []
    for c in s:
        if c in "(<[{":
            d += 1
        elif c in ")>]}":
            d -= 1
        if c == "," and d == 0:
            out.append("".join(cur)); cur = []
        else:
            cur.append(c)
    out.append("".join(cur))
    return out


def enum_variants(src, enum_re, what):
    """[(variant, payload text or None)] in declaration order."""
    m = re.search(enum_re, src)
    if not m:
        raise TranslateError("%s: enum /%s/ not found" % (what, enum_re))
    b = src.index("{", m.end() - 1)
    body = src[b + 1:match_brace(src, b) - 1]
    body = re.sub(r"#\[[^\]]*(?:\([^)]*\))?[^\]]*\]", " ", body)
    res = []
    for part in split_top_commas(body):
        part = norm(part)
        if not part:
            continue
        mv = re.fullmatch(r"(\w+)(?: ?\((.*)\)| ?\{.*\})?(?: ?= ?\w+)?", part)
        if not mv:
            raise TranslateError("%s: variant not understood: `%s`" % (what, part))
        res.append((mv.group(1), mv.group(2)))
    return res


# --------------------------------------------------------------------------- the table
def build(repo):
    R = lambda rel: strip_comments(read(repo, rel))
    types = T + "types/"
    src_ct = R(types + "chargeable_transaction.rs")
    src_in = R(types + "input.rs")
    src_coin = R(types + "input/coin.rs")
    src_msg = R(types + "input/message.rs")
    src_ic = R(types + "input/contract.rs")
    src_out = R(types + "output.rs")
    src_oc = R(types + "output/contract.rs")
    src_mint = R(types + "mint.rs")
    src_types = R(T + "types.rs")
    src_meta = R(T + "metadata.rs")
    bodies = {"ScriptBody": R(types + "script.rs"), "CreateBody": R(types + "create.rs"),
              "UploadBody": R(types + "upload.rs"), "BlobBody": R(types + "blob.rs"),
              "UpgradeBody": R(types + "upgrade.rs")}
    kinds = {"Script": ("script.rs", "ScriptBody"), "Create": ("create.rs", "CreateBody"),
             "Upload": ("upload.rs", "UploadBody"), "Blob": ("blob.rs", "BlobBody"),
             "Upgrade": ("upgrade.rs", "UpgradeBody")}

    table = []          # (key, ("seq", ops) | ("match", arms, wild))

    # --- leaves: the two Contract structs, Coin<_>, Message<_>
    for key, src, impl_re in [
        ("input::contract::Contract", src_ic, r"impl Contract\b"),
        ("output::contract::Contract", src_oc, r"impl Contract\b"),
        ("Coin", src_coin, r"impl<Specification> Coin<Specification>"),
        ("Message", src_msg, r"impl<Specification> Message<Specification>"),
    ]:
        body = find_fn(src, r"pub fn prepare_sign\(&mut self\)", key, after=impl_re)
        table.append((key, ("seq", parse_struct_ops(body, key, Ctx({})))))

    # --- the five bodies
    for key, src in bodies.items():
        body = find_fn(src, r"fn prepare_sign\(&mut self\)", key, after=r"impl PrepareSign for %s\b" % key)
        table.append((key, ("seq", parse_struct_ops(body, key, Ctx({})))))

    # --- Input: payload types through the `pub type X = Coin<..>` / `Message<..>` aliases
    alias = {}
    for src, generic in ((src_coin, "Coin"), (src_msg, "Message")):
        for m in re.finditer(r"pub type (\w+)\s*=\s*(\w+)\s*<", src):
            if m.group(2) != generic:
                raise TranslateError("alias %s = %s<..>: expected %s" % (m.group(1), m.group(2), generic))
            alias[m.group(1)] = generic
    if not re.search(r"use contract::\*;", src_in) or not re.search(r"pub mod contract;", src_in):
        raise TranslateError("input.rs: `pub mod contract; use contract::*;` not found (resolution of `Contract`)")
    alias_in = dict(alias, Contract="input::contract::Contract")
    in_variants = enum_variants(src_in, r"pub enum Input\s*\{", "enum Input")
    for v, payload in in_variants:
        if payload is None or payload.strip() not in alias_in:
            raise TranslateError("enum Input: payload of %s (`%s`) cannot be resolved" % (v, payload))
    in_payload = {v: alias_in[p.strip()] for v, p in in_variants}
    body = find_fn(src_in, r"pub fn prepare_sign\(&mut self\)", "Input", after=r"impl Input\b")
    arms, wild = parse_match(body, "Input::prepare_sign", "Input", lambda v: in_payload[v])
    table.append(("Input", ("match", arms, wild)))

    # --- Output
    if not re.search(r"use contract::Contract;", src_out) or not re.search(r"pub mod contract;", src_out):
        raise TranslateError("output.rs: `pub mod contract; use contract::Contract;` not found")
    out_variants = enum_variants(src_out, r"pub enum Output\s*\{", "enum Output")
    out_payload = {}
    for v, payload in out_variants:
        if payload is not None:
            if payload.strip() != "Contract":
                raise TranslateError("enum Output: payload of %s (`%s`) cannot be resolved" % (v, payload))
            out_payload[v] = "output::contract::Contract"
    body = find_fn(src_out, r"pub fn prepare_sign\(&mut self\)", "Output", after=r"impl Output\b")
    arms, wild = parse_match(body, "Output::prepare_sign", "Output", lambda v: out_payload[v])
    table.append(("Output", ("match", arms, wild)))

    # --- ChargeableTransaction<Body, _>::prepare_sign
    ct_fields = struct_field_types(src_ct, r"pub struct ChargeableTransaction<Body, MetadataBody>\s*where\s*Body: BodyConstraints,\s*\{",
                                   "struct ChargeableTransaction")
    ct_types = {}
    for f, t in ct_fields.items():
        ct_types[f] = {"Body": "<Body>"}.get(t, t)
    body = find_fn(src_ct, r"fn prepare_sign\(&mut self\)", "ChargeableTransaction",
                   after=r"impl<Body, MetadataBody> PrepareSign for ChargeableTransaction<Body, MetadataBody>")
    table.append(("ChargeableTransaction", ("seq", parse_struct_ops(body, "ChargeableTransaction::prepare_sign", Ctx(ct_types)))))
    # the accessors used above (`inputs_mut()`, `outputs_mut()`, `witnesses_mut()`) return the field of the same name
    for acc in ("inputs", "outputs", "witnesses"):
        if not re.search(r"fn %s_mut\(&mut self\) -> &mut Vec<\w+> \{ &mut self\.%s \}" % (acc, acc), norm(src_ct)):
            raise TranslateError("ChargeableTransaction: accessor %s_mut() is no longer `&mut self.%s`" % (acc, acc))

    # --- id(): ChargeableTransaction and Mint
    def parse_id(body, what, field_types, self_key):
        sts = split_statements(body, what)
        if len(sts) < 3 or sts[0] != "if let Some(id) = self.cached_id() { return id; }":
            raise TranslateError("%s: expected the cached-id early return first, found `%s`" % (what, sts[:1]))
        if sts[1] != "let mut clone = self.clone()":
            raise TranslateError("%s: expected `let mut clone = self.clone()`, found `%s`" % (what, sts[1]))
        if sts[-1] != "crate::transaction::compute_transaction_id(chain_id, &mut clone)":
            raise TranslateError("%s: expected compute_transaction_id(chain_id, &mut clone) last, found `%s`" % (what, sts[-1]))
        ops = []
        for st in sts[2:-1]:
            if st == "clone.prepare_sign()":
                ops.append(("ZSelf", self_key)); continue
            ops += parse_struct_ops(st + ";", what, Ctx(field_types, self_names=("clone",)))
        return ops
    ids = []
    body = find_fn(src_ct, r"fn id\(&self, chain_id: &ChainId\) -> Bytes32", "ChargeableTransaction::id",
                   after=r"impl<Body, MetadataBody> UniqueIdentifier for ChargeableTransaction<Body, MetadataBody>")
    ids.append(("ChargeableTransaction", parse_id(body, "ChargeableTransaction::id", ct_types, "ChargeableTransaction")))
    mint_fields = struct_field_types(src_mint, r"pub struct Mint\s*\{", "struct Mint")
    body = find_fn(src_mint, r"fn id\(&self, chain_id: &ChainId\) -> Bytes32", "Mint::id",
                   after=r"impl crate::UniqueIdentifier for Mint\b")
    ids.append(("Mint", parse_id(body, "Mint::id", mint_fields, "Mint")))

    # --- cached_id
    body = find_fn(src_ct, r"fn cached_id\(&self\) -> Option<Bytes32>", "ChargeableTransaction::cached_id",
                   after=r"impl<Body, MetadataBody> UniqueIdentifier for ChargeableTransaction<Body, MetadataBody>")
    if body != "self.metadata.as_ref().map(|m| m.common.id)":
        raise TranslateError("ChargeableTransaction::cached_id changed: `%s`" % body)
    body = find_fn(src_mint, r"fn cached_id\(&self\) -> Option<Bytes32>", "Mint::cached_id",
                   after=r"impl crate::UniqueIdentifier for Mint\b")
    if body != "self.metadata.as_ref().map(|m| m.id)":
        raise TranslateError("Mint::cached_id changed: `%s`" % body)

    # --- compute_transaction_id: ordered hasher inputs
    body = find_fn(src_types, r"pub fn compute_transaction_id<T: fuel_types::canonical::Serialize>\(", "compute_transaction_id")
    sts = split_statements(body, "compute_transaction_id")
    if sts[0] != "let mut hasher = fuel_crypto::Hasher::default()" or sts[-1] != "hasher.finalize()":
        raise TranslateError("compute_transaction_id: unexpected frame: %s" % sts)
    hin = []
    for st in sts[1:-1]:
        m = re.fullmatch(r"hasher\.input\((.*)\)", st)
        if not m:
            raise TranslateError("compute_transaction_id: statement not understood: `%s`" % st)
        hin.append(m.group(1))

    # --- precompute: metadata dropped first, then the id computed by tx.id(chain_id)
    pre = []
    for kind, (file, _) in kinds.items():
        src = R(types + file)
        body = find_fn(src, r"fn precompute\(&mut self, chain_id: &ChainId\) -> Result<\(\), ValidityError>",
                       kind + "::precompute", after=r"impl crate::Cacheable for %s\b" % kind)
        m = re.fullmatch(r"self\.metadata = None; self\.metadata = Some\(ChargeableMetadata \{ common: CommonMetadata::compute\(self, chain_id\)\?, "
                         r"body: .*\}\); Ok\(\(\)\)", body)
        if not m:
            raise TranslateError("%s::precompute changed: `%s`" % (kind, body))
        pre.append(kind)
    body = find_fn(src_mint, r"fn precompute\(&mut self, chain_id: &ChainId\) -> Result<\(\), ValidityError>",
                   "Mint::precompute", after=r"impl crate::Cacheable for Mint\b")
    if body != "self.metadata = None; self.metadata = Some(MintMetadata::compute(self, chain_id)); Ok(())":
        raise TranslateError("Mint::precompute changed: `%s`" % body)
    pre.append("Mint")
    body = find_fn(src_mint, r"fn compute<Tx>\(tx: &Tx, chain_id: &ChainId\) -> Self", "MintMetadata::compute",
                   after=r"impl MintMetadata\b")
    if body != "let id = tx.id(chain_id); Self { id }":
        raise TranslateError("MintMetadata::compute changed: `%s`" % body)
    body = find_fn(src_meta, r"pub fn compute<Tx>\(tx: &Tx, chain_id: &ChainId\) -> Result<Self, ValidityError>",
                   "CommonMetadata::compute", after=r"impl CommonMetadata\b")
    if not body.startswith("use itertools::Itertools; let id = tx.id(chain_id);") or not re.search(r"Ok\(Self \{ id, ", body):
        raise TranslateError("CommonMetadata::compute: the id is no longer `tx.id(chain_id)`: `%s`" % body[:120])
    if len(re.findall(r"\bid\b", body)) != 3:
        raise TranslateError("CommonMetadata::compute: `id` is used in an unexpected way")

    return dict(table=table, ids=ids, hasher_inputs=hin, precompute=pre,
                input_variants=[v for v, _ in in_variants], output_variants=[v for v, _ in out_variants],
                kinds=[(k, b) for k, (_, b) in kinds.items()])


def coq_str(s):
    return '"%s"' % s.replace('"', '""')


def coq_op(op):
    if op[0] in ("ZDefault", "ZClear"):
        return "%s %s" % (op[0], coq_str(op[1]))
    if op[0] == "ZSelf":
        return "ZSelf %s" % coq_str(op[1])
    return "%s %s %s" % (op[0], coq_str(op[1]), coq_str(op[2]))


def coq_ops(ops):
    return "[" + "; ".join(coq_op(o) for o in ops) + "]"


def emit_coq(d):
    L = []
    L.append("(* GENERATED by tools/gen_preparesign.py from the Rust sources in /repo - DO NOT EDIT.")
    L.append("   What signing preparation zeroes, per type, and how the id functions compose it; see TxId/IdSyntax.v. *)")
    L.append("From FV Require Import TxId.IdSyntax.")
    L.append("Local Open Scope string_scope.")
    L.append("")
    L.append("(* every `prepare_sign` of fuel-tx *)")
    L.append("Definition prepare_sign_table : ztable := [")
    rows = []
    for key, f in d["table"]:
        if f[0] == "seq":
            rows.append("  (%s, ZSeq %s)" % (coq_str(key), coq_ops(f[1])))
        else:
            arms = ";\n      ".join("(%s, %s)" % (coq_str(v), coq_ops(ops)) for v, ops in f[1])
            rows.append("  (%s, ZMatch [\n      %s] %s)" % (coq_str(key), arms, "true" if f[2] else "false"))
    L.append(";\n".join(rows) + "].")
    L.append("")
    L.append("(* UniqueIdentifier::id: `if let Some(id) = self.cached_id() { return id }`, then these operations")
    L.append("   on a clone, then compute_transaction_id(chain_id, &mut clone) *)")
    L.append("Definition id_table : list (string * list zop) := [")
    L.append(";\n".join("  (%s, %s)" % (coq_str(k), coq_ops(ops)) for k, ops in d["ids"]) + "].")
    L.append("")
    L.append("(* compute_transaction_id: arguments of hasher.input(..), in order *)")
    L.append("Definition compute_transaction_id_inputs : list string := [%s]." % "; ".join(coq_str(x) for x in d["hasher_inputs"]))
    L.append("")
    L.append("(* kinds whose Cacheable::precompute is `self.metadata = None; self.metadata = Some(.. tx.id(chain_id) ..)`")
    L.append("   and whose cached_id() reads that stored id *)")
    L.append("Definition precompute_kinds : list string := [%s]." % "; ".join(coq_str(x) for x in d["precompute"]))
    L.append("")
    L.append("(* ChargeableTransaction<Body, _> instances: kind, Body *)")
    L.append("Definition chargeable_kinds : list (string * string) := [%s]." % "; ".join("(%s, %s)" % (coq_str(k), coq_str(b)) for k, b in d["kinds"]))
    L.append("")
    L.append("(* declaration order of `enum Input` / `enum Output` (variant index of the neutral value form) *)")
    L.append("Definition input_variant_names : list string := [%s]." % "; ".join(coq_str(x) for x in d["input_variants"]))
    L.append("Definition output_variant_names : list string := [%s]." % "; ".join(coq_str(x) for x in d["output_variants"]))
    L.append("")
    return "\n".join(L)


# --------------------------------------------------------------------------- schemas as Rust statics
def parse_schemas_v(text):
    """Parse the regular output format of gen_schemas.py (Definition S_X : ty := <term>.)"""
    defs = []
    for m in re.finditer(r"Definition (S_\w+) : ty :=\s*(.*?)\.\n\n", text, re.S):
        defs.append((m.group(1), m.group(2)))
    if not defs:
        raise TranslateError("no schema definitions found in the output of gen_schemas.py")
    return defs


TOK = re.compile(r'\s*(?:("(?:[^"]|"")*")|([A-Za-z_]\w*)|(\d+)|([()\[\];,]))')


def lex(s):
    out, i = [], 0
    s = s.strip()
    while i < len(s):
        m = TOK.match(s, i)
        if not m:
            raise TranslateError("schema term: cannot lex at `%s`" % s[i:i + 30])
        if m.group(1) is not None:
            out.append(("str", m.group(1)[1:-1]))
        elif m.group(2) is not None:
            out.append(("id", m.group(2)))
        elif m.group(3) is not None:
            out.append(("num", int(m.group(3))))
        else:
            out.append(("p", m.group(4)))
        i = m.end()
    return out


class P:
    def __init__(self, toks):
        self.t, self.i = toks, 0

    def peek(self):
        return self.t[self.i] if self.i < len(self.t) else ("eof", None)

    def next(self):
        x = self.peek(); self.i += 1; return x

    def expect(self, kind, val=None):
        x = self.next()
        if x[0] != kind or (val is not None and x[1] != val):
            raise TranslateError("schema term: expected %s %s, found %s" % (kind, val, x))
        return x[1]

    def list_of(self, item):
        self.expect("p", "[")
        out = []
        if self.peek() == ("p", "]"):
            self.next(); return out
        while True:
            out.append(item())
            x = self.next()
            if x == ("p", "]"):
                return out
            if x != ("p", ";"):
                raise TranslateError("schema term: expected ; or ], found %s" % (x,))

    def atom(self):
        x = self.peek()
        if x == ("p", "("):
            self.next(); r = self.term(); self.expect("p", ")"); return r
        if x[0] == "id":
            self.next()
            if x[1] in ("TByteVec", "TPolicies"):
                return (x[1],)
            if x[1].startswith("S_"):
                return ("ref", x[1])
            raise TranslateError("schema term: unexpected atom %s" % x[1])
        raise TranslateError("schema term: unexpected token %s" % (x,))

    def field(self):
        k = self.expect("id")
        if k not in ("F", "Fskip"):
            raise TranslateError("schema term: expected F/Fskip, found %s" % k)
        name = self.expect("str")
        t = self.atom()
        return (name, k == "Fskip", t)

    def term(self):
        x = self.peek()
        if x[0] == "id" and x[1] in ("TUInt", "TBytesN"):
            self.next(); return (x[1], self.expect("num"))
        if x[0] == "id" and x[1] in ("TVec", "TEmpty"):
            self.next(); return (x[1], self.atom())
        if x[0] == "id" and x[1] == "TOpaque":
            self.next(); return ("TOpaque", self.expect("str"))
        if x[0] == "id" and x[1] == "struct_":
            self.next()
            y = self.next()
            if y == ("id", "None"):
                prefix = None
            elif y == ("p", "("):
                self.expect("id", "Some"); prefix = self.expect("num"); self.expect("p", ")")
            else:
                raise TranslateError("schema term: struct_ prefix not understood: %s" % (y,))
            return ("TStruct", prefix, self.list_of(self.field))
        if x[0] == "id" and x[1] == "enum_":
            self.next()

            def variant():
                self.expect("p", "(")
                n = self.expect("str"); self.expect("p", ",")
                d = self.expect("num"); self.expect("p", ",")
                fs = self.list_of(self.field)
                self.expect("p", ")")
                return (n, d, fs)
            return ("TEnum", self.list_of(variant))
        if x[0] == "id" and x[1] == "peek_":
            self.next()

            def alt():
                self.expect("p", "(")
                n = self.expect("str"); self.expect("p", ",")
                d = self.expect("num"); self.expect("p", ",")
                t = self.atom()
                self.expect("p", ")")
                return (n, d, t)
            return ("TPeek", self.list_of(alt))
        if x[0] == "id" and x[1] == "TInput":
            self.next()
            return ("TInput", [self.atom() for _ in range(9)])
        return self.atom()


_COUNTER = [0]


def fresh(hint):
    _COUNTER[0] += 1
    return "%s_AUX%d" % (hint, _COUNTER[0])


def rust_ty(t, aux, hint):
    """Rust expression of type `Ty` for term t; nested non-reference terms become auxiliary statics."""
    k = t[0]
    if k == "ref":
        return "Ty::Ref(&%s)" % t[1].upper()
    if k == "TUInt":
        return "Ty::UInt(%d)" % t[1]
    if k == "TBytesN":
        return "Ty::BytesN(%d)" % t[1]
    if k == "TByteVec":
        return "Ty::ByteVec"
    if k == "TPolicies":
        return "Ty::Policies"
    if k == "TOpaque":
        return "Ty::Opaque"
    if k in ("TVec", "TEmpty"):
        inner = rust_ty(t[1], aux, hint + "_E")
        name = fresh(hint)
        aux.append("static %s: Ty = %s;" % (name, inner))
        return "Ty::%s(&%s)" % ("Vec" if k == "TVec" else "Empty", name)
    if k == "TStruct":
        return "Ty::Struct(%s, &[%s])" % ("None" if t[1] is None else "Some(%d)" % t[1], rust_fields(t[2], aux, hint))
    if k == "TEnum":
        vs = ", ".join('("%s", %d, &[%s])' % (n, d, rust_fields(fs, aux, hint + "_" + n.upper())) for n, d, fs in t[1])
        return "Ty::Enum(&[%s])" % vs
    if k == "TPeek":
        return "Ty::Peek(&[%s])" % ", ".join('("%s", %d, %s)' % (n, d, rust_ref(a, aux, hint)) for n, d, a in t[1])
    if k == "TInput":
        return "Ty::Input([%s])" % ", ".join(rust_ref(a, aux, hint) for a in t[1])
    raise TranslateError("schema term: cannot emit %s" % (t,))


def rust_ref(t, aux, hint):
    if t[0] == "ref":
        return "&%s" % t[1].upper()
    name = fresh(hint)
    e = rust_ty(t, aux, hint)
    aux.append("static %s: Ty = %s;" % (name, e))
    return "&" + name


def rust_fields(fs, aux, hint):
    out = []
    for n, sk, t in fs:
        out.append('Fld { name: "%s", skip: %s, ty: %s }' % (n, "true" if sk else "false", rust_ref(t, aux, hint + "_" + re.sub(r"\W", "_", n).upper())))
    return ", ".join(out)


def emit_rust_schema(schemas_text, d):
    L = ["// GENERATED by tools/gen_preparesign.py from the output of tools/gen_schemas.py - DO NOT EDIT.",
         "// The schemas of coq/Gen/Schemas.v as Rust statics: the harness binaries of C03-C05 enumerate",
         "// field paths from these (not from a hand-written list).",
         "#![allow(dead_code)]",
         "pub struct Fld { pub name: &'static str, pub skip: bool, pub ty: &'static Ty }",
         "pub enum Ty {",
         "    UInt(usize), BytesN(usize), ByteVec, Vec(&'static Ty), Empty(&'static Ty), Opaque, Policies,",
         "    Struct(Option<u64>, &'static [Fld]),",
         "    Enum(&'static [(&'static str, u64, &'static [Fld])]),",
         "    /// CoinFull, CoinSigned, CoinPredicate, Contract, FullMessage, MessageCoinSigned, MessageCoinPredicate, MessageDataSigned, MessageDataPredicate",
         "    Input([&'static Ty; 9]),",
         "    Peek(&'static [(&'static str, u64, &'static Ty)]),",
         "    Ref(&'static Ty),",
         "}",
         ""]
    _COUNTER[0] = 0
    for name, term in parse_schemas_v(schemas_text):
        p = P(lex(term))
        t = p.term()
        if p.peek()[0] != "eof":
            raise TranslateError("schema %s: trailing tokens %s" % (name, p.peek(),))
        aux = []
        e = rust_ty(t, aux, name.upper())
        L += aux
        L.append("pub static %s: Ty = %s;" % (name.upper(), e))
    L.append("")
    L.append("/// declaration order of `enum Input` (index of the neutral value form)")
    L.append("pub const INPUT_VARIANTS: [&str; %d] = [%s];" % (len(d["input_variants"]), ", ".join('"%s"' % v for v in d["input_variants"])))
    L.append("")
    return "\n".join(L)


def generate(repo):
    import gen_schemas
    d = build(repo)
    schemas = gen_schemas.generate(repo)["Gen/Schemas.v"]
    return {"Gen/PrepareSign.v": emit_coq(d),
            "../harness/src/gen/tx_schema.rs": emit_rust_schema(schemas, d)}


if __name__ == "__main__":
    import sys
    sys.path.insert(0, os.path.dirname(os.path.abspath(__file__)))
    out = generate(sys.argv[1] if len(sys.argv) > 1 else "/repo")
    for k, v in out.items():
        print("=====", k)
        print(v)
