from props_common import *

PROP = dict(
    title="Sparse Merkle root depends only on the final key-value map",
    family="smt", harness="smt", run_vo="Run/Smt.vo",
    theorems=["C12_fun", "C12_extensional", "C12_order_independent", "C12_fun_lookup"],
    open_statements=[],
    translators=[],
    quick_shards=8,
    trusted_base=[SHA_NOTE,
                  "hand-written L1 model Merkle/SparseModel.v of sparse/{merkle_tree,merkle_tree/node,merkle_tree/branch,in_memory,hash,primitive,proof}.rs and "
                  "common/{msb,path,path_iterator,node,storage_map}.rs (tied to the code by the correspondence run: byte-identical roots after every operation, "
                  "from_set/root_from_set/nodes_from_set roots and the exact node list of nodes_from_set)",
                  "Merkle/SparseSpec.v: definition of the compact sparse Merkle root of a finite map (what the theorems mean)"],
    assumptions=["no hash assumption: the statements are equalities of hash expressions"],
    rule=("histories of <= 60 insert/overwrite/delete operations over adversarial key pools (keys sharing prefixes of 0,1,7,8,9,127,254,255 bits, "
          "all-zero / all-one keys, last-bit siblings, nested deep chains), empty values, overwrite with the same value, delete of absent keys; root after "
          "EVERY operation from sparse::MerkleTree over StorageMap and from in_memory::MerkleTree, final storage size; from_set / root_from_set / nodes_from_set "
          "(+ node list) on the final map with shuffled order and overridden duplicates; each compared byte for byte with the Gallina L1 model, with the "
          "executed L2 tree and L3 spec root, and (oracle) with an independent recursive compact-SMT root written in the harness; "
          "distinct = distinct (length, final root); non-trivial = at least 2 distinct keys and 3 operations"),
    level_text=("Machine-checked proof (Coq) that the functional compact sparse Merkle tree (insert with leaf splitting, delete with orphan-leaf collapse) has, after any "
                "history, the compact sparse Merkle root of the map the history leaves behind (induction on the depth), that this root depends only on the lookup "
                "function of the map, hence not on the order of operations; the Rust implementation is modelled function by function (L1) and tied to the code by a "
                "differential run on every check; the L1-to-L2 refinement theorems that are proved are listed under theorems, the remaining ones under open_statements"),
    level_note=("Trusted: Coq kernel; the hand-written L1 model tied by correspondence testing (testing, not proof); executable SHA-256 instance; harness. "
                "Where an L1 refinement statement is listed as open, the link from the Rust-shaped algorithm (path_set/update_with_path_set/delete_with_path_set/from_set) "
                "to the functional tree rests on the correspondence run and the in-Coq executed comparison L1 = L2 = L3 on the same histories, not on a proof."),
    technique="Coq proof by induction on tree depth (canonical-tree representation lemma) + differential model/impl run with independent reference root",
    design_ref="6/C12",
)
