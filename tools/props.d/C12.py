from props_common import *

PROP = dict(
    title="Sparse Merkle root depends only on the final key-value map",
    family="smt", harness="smt", run_vo="Run/Smt.vo",
    theorems=["C12_fun", "C12_extensional", "C12_order_independent", "C12_fun_lookup", "C12_refine", "C12_from_set",
              "C12_msb_get_bit", "C12_msb_common_prefix", "C12_msb_roundtrip"],
    open_statements=[],
    translators=[],
    quick_shards=8,
    trusted_base=[SHA_NOTE,
                  "hand-written L1 model Merkle/SparseModel.v of sparse/{merkle_tree,merkle_tree/node,merkle_tree/branch,in_memory,hash,primitive,proof}.rs and "
                  "common/{msb,path,path_iterator,node,storage_map}.rs (tied to the code by the correspondence run: byte-identical roots after every operation, "
                  "from_set/root_from_set/nodes_from_set roots and the exact node list of nodes_from_set)",
                  "Merkle/SparseSpec.v: definition of the compact sparse Merkle root of a finite map (what the theorems mean)"],
    assumptions=["C12_fun, C12_extensional, C12_order_independent, C12_fun_lookup: no hash assumption (equalities of hash expressions)",
                 "C12_refine and C12_from_set (L1 model of the Rust algorithm; C12_from_set additionally: kcmp is the lexicographic order on key bits): the premises bundled in smt_iface — decidable digest equality, kbit/kcpl read the bits/common prefix of keys, "
                 "of_bits/bits inverse on 256-bit keys, and collision-freeness hash_ok of the leaf/node hashes (the code chooses a child side and removes stale nodes by comparing digests); satisfiable: Merkle/SparseInst.v lb_iface"],
    rule=("histories of <= 60 insert/overwrite/delete operations over adversarial key pools (keys sharing prefixes of 0,1,7,8,9,127,254,255 bits, "
          "all-zero / all-one keys, last-bit siblings, nested deep chains), empty values, overwrite with the same value, delete of absent keys; root after "
          "EVERY operation from sparse::MerkleTree over StorageMap and from in_memory::MerkleTree, final storage size; from_set / root_from_set / nodes_from_set "
          "(+ node list) on the final map with shuffled order and overridden duplicates; each compared byte for byte with the Gallina L1 model, with the "
          "executed L2 tree and L3 spec root, and (oracle) with an independent recursive compact-SMT root written in the harness; "
          "distinct = distinct (length, final root); non-trivial = at least 2 distinct keys and 3 operations"),
    level_text=("Machine-checked proof (Coq) that (L2) the functional compact sparse Merkle tree has, after any history of inserts/overwrites/deletes, the compact sparse "
                "Merkle root of the map the history leaves behind, that this root depends only on the lookup function of the map (order independence), and that (L1) the "
                "function-by-function model of the Rust code — hash-addressed node store, PathIter/path_set, update_with_path_set with leaf merge and placeholder chain, "
                "delete_with_path_set with orphan-leaf collapse — refines the functional tree for every history (C12_refine, under collision-freeness as explicit premise); "
                "and that from_set / root_from_set / nodes_from_set (sort with last-duplicate-wins, three-node-window merge, merge_branches) return the spec root of the "
                "set's map with all nodes stored (C12_from_set); the model is tied to the code by a differential run on every check"),
    level_note=("Trusted: Coq kernel; the hand-written L1 model tied to the Rust code by correspondence testing (testing, not proof); executable SHA-256 instance; harness; "
                "the interface premises of C12_refine / C12_from_set (smt_iface incl. collision-freeness; key order = lexicographic on bits)."),
    technique="Coq proof by induction on tree depth (canonical-tree representation lemma) + differential model/impl run with independent reference root",
    design_ref="6/C12",
)
