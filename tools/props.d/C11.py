from props_common import *

PROP = dict(
    title="Binary Merkle trees behave like fresh trees across reset and reload",
    family="bmt", harness="bmt", run_vo="Run/Bmt.vo",
    theorems=["C11_refine_full", "C11_refine_full_from_any_state", "C11_peaks_all", "C11_sides_all",
              "C11_refine_partial", "C11_refine_from_any_state", "C11_refuses", "C11_peaks_checked",
              "C11_refine_with_proofs_partial", "C11_refine_with_proofs_from_any_state", "C11_sides_checked"],
    open_statements=[],
    translators=[],
    trusted_base=[SHA_NOTE,
                  "model of merkle_tree.rs (push/reset/load/prove/root) in Merkle/BinaryModel.v (hand-written, tied by correspondence)",
                  "vm_compute inside the proofs of C11_peaks_checked / C11_sides_checked only (finite sweeps, bounds stated in those theorems; the full theorems do not depend on them)"],
    assumptions=["fewer than 2^63 leaves", "reloads only at a recorded count (k <= current leaf count)"],
    rule=("histories of push/reset/load(k<=count)/prove/root of up to 40 ops on one storage-backed tree over a shared StorageMap; corpus witnesses of the reset defect run first; "
          "each observation vs the Gallina L1 model; oracle: each observation vs a fresh-tree specification (independent RFC MTH/PATH in the harness); "
          "distinct = op-kind string of the history; non-trivial = at least 3 ops"),
    level_text=("Machine-checked refinement proof (Coq) of the full statement: for every history of pushes (fewer than 2^63 leaves), resets, reloads at any recorded count, root/count "
                "queries and proof requests at any index the storage-backed tree model reports exactly what a fresh tree holding the leaves since the last reset reports (invariant: "
                "peak stack = aligned blocks, node table holds every complete block's RFC hash under its in-order position; peak and side positions of position_path characterised in "
                "general), by induction over the history"),
    level_note=("Full statement proved (C11_refine_full); earlier partial theorems kept. The defect found by this check "
                "(reset did not clear leaves_count) was repaired by fix commit a6d0397 in /repo; the model mirrors the repaired code. Trusted: Coq kernel, L1 model tied by "
                "differential testing, harness oracle."),
    technique="Coq refinement proof by induction over operation histories + differential model/impl run",
    design_ref="6/C11",
)
