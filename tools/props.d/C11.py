from props_common import *

PROP = dict(
    title="Binary Merkle trees behave like fresh trees across reset and reload",
    family="bmt", harness="bmt", run_vo="Run/Bmt.vo",
    theorems=["C11_refine_partial", "C11_refine_from_any_state", "C11_refuses", "C11_peaks_checked",
              "C11_refine_with_proofs_partial", "C11_refine_with_proofs_from_any_state", "C11_sides_checked"],
    open_statements=[
        "C11_full_statement: additionally in-range proof requests at counts above 128 (side positions of position_path are checked by exhaustive computation up to 128 leaves only; proved for larger counts under the premise sides_ok) and reloads at counts above 4096 (peak positions are checked by exhaustive computation up to 4096 only)",
    ],
    translators=[],
    trusted_base=[SHA_NOTE,
                  "model of merkle_tree.rs (push/reset/load/prove/root) in Merkle/BinaryModel.v (hand-written, tied by correspondence)",
                  "vm_compute inside the proof of C11_peaks_checked (finite sweep over counts 0..4096, bound stated in the theorem)",
                  "vm_compute inside the proof of C11_sides_checked (finite sweep over all (index, count) with count <= 128, bound stated in the theorem)"],
    assumptions=["fewer than 2^63 leaves", "reloads only at a recorded count (k <= current leaf count)"],
    rule=("histories of push/reset/load(k<=count)/prove/root of up to 40 ops on one storage-backed tree over a shared StorageMap; corpus witnesses of the reset defect run first; "
          "each observation vs the Gallina L1 model; oracle: each observation vs a fresh-tree specification (independent RFC MTH/PATH in the harness); "
          "distinct = op-kind string of the history; non-trivial = at least 3 ops"),
    level_text=("Machine-checked refinement proof (Coq): for every history of pushes, resets, reloads at a recorded count, root/count queries, out-of-range proof "
                "requests and in-range proof requests (whose side positions were checked: all counts up to 128) the storage-backed tree model reports exactly what a fresh tree holding the leaves since the last reset reports (invariant: peak stack = "
                "aligned blocks, node table holds every complete block's RFC hash under its in-order position), by induction over the history"),
    level_note=("Partial: in-range proofs at counts > 128 (unless sides_ok holds) and reload counts > 4096 are outside the proved scope (open_statements). The defect found by this check "
                "(reset did not clear leaves_count) was repaired by fix commit a6d0397 in /repo; the model mirrors the repaired code. Trusted: Coq kernel, L1 model tied by "
                "differential testing, harness oracle."),
    technique="Coq refinement proof by induction over operation histories + differential model/impl run",
    design_ref="6/C11",
)
