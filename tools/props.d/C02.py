from props_common import *
import importlib.util, os
_spec = importlib.util.spec_from_file_location("props_d_C01_for_C02", os.path.join(os.path.dirname(os.path.abspath(__file__)), "C01.py"))
_c01 = importlib.util.module_from_spec(_spec); _spec.loader.exec_module(_c01)

PROP = dict(
    title="Decoding arbitrary bytes never panics and reaches a fixed point",
    family="codec", harness="codec", run_vo="Run/Codec.vo",
    theorems=["C02_fixpoint", "C02_total", "C02_decode_types", "C02_nonvacuous"],
    open_statements=[
        "never panics (runtime half of the statement): a Rust panic/abort is not expressible in the model; PARTIAL - exercised only by the guarded mutation stream "
        "(catch_unwind in-process; decodes with huge length prefixes run in a child process so an allocation abort is observed as a non-zero exit). This is testing, not proof.",
    ],
    translators=["schemas"],
    trusted_base=_c01.CODEC_TRUSTED + [
        "error kinds: canonical::Error mapped to a small enum (Unknown(&str) split by message into InvalidPoliciesBits / MaturityTooLarge / ExpirationTooLarge)",
    ],
    assumptions=[
        "C02_fixpoint: the input is a byte string (every element < 256); no other hypothesis - in particular no wf hypothesis: the decoder only ever produces wf values",
        "VEC_DECODE_LIMIT < 2^64 (checked by computation on the value read from canonical.rs)",
    ],
    rule=("valid encodings of all 6 transaction kinds, 7 input kinds, 5 output kinds, 13 receipt kinds, policies, witness; mutation stream: one 8-byte word replaced by "
          "cur+-1 / bit flip / dirty padding / {0..7,63,64,2^32,100MiB-1,100MiB,100MiB+1,2^63,2^64-1}; first word x the same set; policy bits 0..31 and policy values above u32::MAX; "
          "every truncation point of small encodings (every 8th +-1 of large ones); byte flips; trailing garbage; random word strings; huge counts in front of every vector (child process). "
          "Each case: Rust Ok(value, consumed)/Err(kind)/panic vs the model; the model additionally re-checks typed/wf/erase-id/consumed=|enc|/dec(enc v)=v on its own result. "
          "Oracle on the real code: no panic; decode ok => to_bytes().len() == consumed == size() and from_bytes(to_bytes(v)) == v with nothing left. "
          "distinct = (type, bytes); non-trivial = result is not BufferIsTooShort and input non-empty. Oracle-only (too big for vm_compute): long vectors whose element storage exceeds 1 MiB, 4 MiB and 16 MiB for every element type under a Vec (Vec<u64> 200k/600k/2.2M; Create with 20k/70k/270k storage slots; Script with 50k/180k/720k witnesses, 8k/24k/95k inputs, 16k/56k/215k outputs, 3000 inputs + 3000 outputs; Upload with 40k/140k/540k proof-set entries): to_bytes -> from_bytes -> ==, consumed == size, re-encode equal; class long-vector-round-trip, replay = (kind, count, seed)."),
    level_text=("Functional half: machine-checked proof (Coq), by induction over the schema universe in the two phases of the Rust decoder, that whenever the model decoder returns a "
                "value for ANY byte string, the consumed prefix is exactly as long as the value's encoding, the value is well-formed (so the C01 round trip applies to it), carries "
                "no erased field, re-encodes, and decodes back to itself with nothing left - for Transaction, Input, Output, Receipt and every other C01 type. "
                "Never-panics half: PARTIAL, runtime property, exercised by a guarded mutation stream against the real decoders on every check (testing, not proof)."),
    level_note=("Proved: C02_fixpoint and C02_total (all byte strings, all protocol types), Closed under the global context. Not proved / not expressible: absence of Rust panics and aborts (partial: "
                "guarded differential run only). Observation recorded in evidence notes: a length prefix up to VEC_DECODE_LIMIT = 100 Mi ELEMENTS reserves 100 Mi * size_of::<T>() bytes "
                "(Input: 184 B => ~19 GB virtual) before the first element is decoded; on this host the reservation succeeds lazily and decoding fails with BufferIsTooShort."),
    technique="Coq proof (decoder soundness: consumed length, wf of the result, fixed point) + translator + guarded differential mutation run",
    design_ref="6/C02",
    quick_shards=8,
)
