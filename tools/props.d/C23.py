from props_common import *

PROP = dict(
    title="VM memory behaves like a zero-initialized array with two regions",
    family="mem", harness="mem", run_vo="Run/Mem.vo",
    theorems=["C23_refine_step", "C23_refine_history", "C23_invariant", "C23_no_host_panic",
              "C23_fresh_zero", "C23_copy_overlap_refused", "C23_copy_overlap_kind", "C23_rollback",
              "C23_rollback_heap_precondition", "C23_rollback_total_otherwise", "C23_rollback_regression_witness"],
    open_statements=[
        "write/write_bytes with ownership checks, memclear, push/pop_selected_registers, load/store are not modelled "
        "here (ownership is C24); memcopy is modelled including its ownership test",
    ],
    translators=[],
    trusted_base=[
        "hand-written L1 model Mem/MemModel.v of fuel-vm/src/interpreter/memory.rs (MemoryInstance::{new,reset,grow_stack,"
        "grow_heap_by,verify,read,write_noownerchecks,memcopy,eq,collect_rollback_data,rollback}); tied by the correspondence run only",
        "Mem/SVec.v: sparse representation of Vec<u8> (length + association list); its equations are proved in Mem/SVecFacts.v",
        "get_changes is modelled with one single-byte run per differing position (the grouping into runs is not observable)",
        "MEM_SIZE = 67108864 is written in Mem/MemSpec.v and checked against consts.rs only through the correspondence run "
        "(boundary cases MEM_SIZE-1, MEM_SIZE, MEM_SIZE+1 in every run)",
        "usize is 64 bits (usize::try_from(u64) never fails)",
        "memcopy is reached through the MCP instruction of a real Interpreter (OwnershipRegisters cannot be built outside the crate); "
        "prev_hp is VM_MAX_RAM (no call frame)",
    ],
    assumptions=[
        "no side condition on histories: the only precondition of rollback is the documented assertion snapshot.hp >= current.hp; it is part of the "
        "specification (SRollback returns HostPanic otherwise) and stated by C23_rollback_heap_precondition / C23_rollback_total_otherwise. "
        "HISTORICAL: before fix 75e7afe (collect_rollback_data compared self.stack[..sp] and panicked when the snapshot's stack extent exceeded the "
        "current one) the theorems carried a side condition and the unconditional statement was refuted; the witness history is now a corpus case "
        "and theorem C23_rollback_regression_witness, and the oracle class rollback-panics-when-snapshot-stack-extent-exceeds-current stays as a regression detector",
        "the operations of a history are: grow_stack, grow_heap_by, verify, read, write_noownerchecks, memcopy, reset, clone (snapshot), "
        "collect_rollback_data+rollback against the saved clone",
    ],
    rule=("histories of <= 60 operations (40 at full 64 MiB scale) on one MemoryInstance inside one Interpreter, starting from new(); sizes/addresses from "
          "{0,1,7,8,9,32,255,256,257,2^k,2^k+-1,MEM-1,MEM,MEM+1} and boundary addresses (stack end, hp, end of memory), resets between transactions, "
          "snapshot/rollback; 9 hand-written corner histories (reset+in-place growth, reset+reallocation, whole memory, heap overtaking the stack, "
          "overlapping copies, rollback incl. the heap assertion and the two 75e7afe regression histories); every operation's result (unit / error kind / bytes read, sparse) is compared with the Gallina "
          "L1 model and with a flat sparse reference array written in the harness; distinct = distinct history text; non-trivial = >= 5 operations "
          "with at least one non-zero read and one refused operation"),
    level_text=("Machine-checked proof (Coq) that the two-buffer MemoryInstance model (stack Vec, over-allocated heap Vec, hp) refines a flat zero-initialised "
                "64 MiB array with the accessibility rule of the property, for every operation and, by induction over the operation list, every history "
                "from new(): same unit/error/bytes results, same bounds, same accessible bytes; invariant stack.len <= hp <= MEM, MEM-hp <= heap.len <= MEM "
                "preserved unconditionally; no Rust panic outside rollback; fresh heap bytes read zero from any (dirty) buffer in both branches of "
                "grow_heap_by; overlapping copies refused; rollback restores the snapshot's accessible contents for every current stack extent "
                "(the only precondition is the documented heap assertion, which the specification shares)"),
    level_note=("Trusted: Coq kernel; the hand-written L1 model (tied to memory.rs by correspondence testing on every run: testing, not proof); the sparse-vector "
                "library; the harness. Ownership-checked writes and the instruction wrappers are outside this property's model. The model mirrors "
                "collect_rollback_data as repaired by 75e7afe."),
    technique="Coq forward-simulation proof (abstraction function + representation invariant, induction over histories) + differential model/impl run + flat-array oracle",
    design_ref="6/C23",
    quick_shards=8,
)
