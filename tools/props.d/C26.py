from props_common import *

PROP = dict(
    title="Gas is charged monotonically and never exceeds the limit",
    family="gas", harness="gas", run_vo="Run/Gas.vo",
    theorems=["C26_model_is_spec", "C26_invariant", "C26_charge_ok", "C26_charge_out_of_gas", "C26_resolve", "C26_forward_bound",
              "C26_credit_back", "C26_script_result", "C26_base_cost_ge_1", "C26_tables_wellformed",
              "C26_charge_sequence", "C26_out_of_gas_point", "C26_sequences_are_spec"],
    open_statements=[
        "the theorems are about abstract operation histories (Charge/Call/Return) and charge sequences; that the interpreter performs exactly the "
        "generated sequence on $cgas/$ggas is established per step by trace replay (testing), not by a Gallina model of the handlers",
        "exact totals use quantities observed by the harness right before the step (code/blob size of the operand, existence of the credited balance "
        "entry, and for the 13 storage instructions the list of slot reads/writes/clears with hot/cold state and value lengths, computed by the harness from "
        "VM memory, the storage and the VM's slot cache); Coq checks the list's shape per opcode and recomputes every amount, but the lengths themselves are "
        "trusted observations; slot ranges above 4096 are not expanded (not generated)",
        "ECAL charges nothing and is not generated; ECOP/EPAR/NIOP are single charges in the table but are not generated",
    ],
    translators=["flowtable", "gastable"],
    trusted_base=[
        "tools/gen_gastable.py (regex translator: first gas charge and unit source of every handler, helpers charging inside, default schedule; "
        "pins the text of gas_charge, DependentCost::resolve*, the forwarding/crediting lines of flow.rs and the gas_used line of main.rs)",
        "tools/gen_flowtable.py (handler classes CALL/RET used by the trace checker)",
        "hand-written L1 model Vm/GasModel.v of gas_charge, resolve, prepare_call forwarding, return_from_context crediting, gas_used (tied by trace replay)",
        "Vm/GasSpec.v (the specification of the three operations and of the invariant)",
        "harness/src/vmtrace.rs (single stepping; call frames read from VM memory)",
    ],
    assumptions=["global gas < 2^64 (a register)", "units_per_gas <> 0 for LightOperation costs (DependentCost::resolve panics the host otherwise; "
                 "the generated default schedule is checked to satisfy it)"],
    rule=("generated programs (nested calls with forwarded gas $cgas / half / 2^64-1 / small constants, self-recursion to depth 0..3, returns, reverts, panics) "
          "under the default, unit and randomised schedules; directed scripts/contracts for LDC (modes 0,1,2), CCP, CSIZ, CROO, BSIZ, BLDD, CALL, TR, MINT/BURN and all 13 "
          "storage instructions with requested lengths much larger / +9 / equal / +1 / -1 / 0 / unaligned relative to the stored length, offsets beyond the end, empty and "
          "undeployed contracts/blobs, first-time vs existing balance entries, hot vs cold slots, each re-run with gas limits cost-1 / cost / cost+1 of the target instruction; "
          "every generated program once with ample gas and 2-3 times with a limit drawn from {gas used, used-1, <40, "
          "uniform below used} so that gas runs out mid-instruction; garbage scripts; per step the Coq checker replays Charge/Call/Return of the model from the "
          "initial state (limit, limit, []), recomputes the exact total charge of the step from the generated charge sequence (panicked steps: a prefix; OutOfGas: some charge must exceed what is left) and compares ($cgas, $ggas, depth, saved context gas) and the invariant; distinct = (schedule, length, hash of ggas/opcode sequence); "
          "non-trivial = at least 5 steps"),
    level_text=("Machine-checked proof (Coq) over all operation histories (induction on the event list) that context gas + gas kept by suspended callers "
                "<= global gas is invariant, global gas never increases, a charge is exact or leaves (0, ggas-cgas) with OutOfGas, forwarding is "
                "min(cgas, requested) and is credited back exactly on return, the unchecked subtraction and the ContextGasUnderflow/Overflow/GlobalGasUnderflow "
                "bugs are unreachable, gas_used = limit - ggas; dependent cost resolution equals the capped formula; every opcode's first charge (regenerated "
                "from opcodes_impl.rs on each run) is >= 1 under the default schedule; tied to the code by replaying every traced step"),
    level_note=("Trusted: Coq kernel; the translators; the hand-written model tied by trace replay (testing); the harness's pre-step observations. The full charge "
                "sequence of every handler (which cost field, on which quantity, under which condition) is regenerated from the Rust sources on every run and proved equal to "
                "the specified table (C26_sequences_are_spec), and the exact total of every traced step is recomputed from it."),
    technique="Coq proof by induction over operation histories with a gas invariant + generated gas table + step-wise trace replay",
    design_ref="6/C26",
    quick_shards=8,
)
