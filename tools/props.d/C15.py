from props_common import *

PROP = dict(
    title="Contract and predicate identifiers follow the specification",
    family="ids", harness="ids", run_vo="Run/Ids.vo",
    theorems=["C15_code_root", "C15_chunking", "C15_chunks_loop", "C15_empty_code", "C15_state_root_partial",
              "C15_contract_id", "C15_predicate_owner", "C15_predicate_owner_check", "C15_metadata",
              "C15_vm_deploy", "C15_vm_output", "C15_vm_croo", "C15_vm_deploy_then_croo"],
    open_statements=[
        "C15_state_root_full_statement: initial_state_root with fuel-merkle's root_from_set as modelled in Merkle/SparseModel.v equals the "
        "compact sparse Merkle root of {sha256(key) -> value}. It is C15_state_root_partial (proved: key hashing, raw values, duplicates) composed "
        "with property C12 (root_from_set = smt_root of the collected map), which belongs to the sparse-tree family and is not proved here; "
        "until then that link is covered by the correspondence run only (model L1, spec L3 and Rust compared on every state-root case).",
    ],
    translators=["idsconsts"],
    quick_shards=8,
    trusted_base=[SHA_NOTE,
                  "tools/gen_idsconsts.py: reads LEAF_SIZE / PADDING_BYTE / MULTIPLE, ContractId::SEED and the order of the hasher inputs of Contract::id and "
                  "Input::predicate_owner from the Rust source into Gen/IdsConsts.v, and refuses to run if the chunking loop of root_from_code or "
                  "initial_state_root no longer has the shape the model mirrors",
                  "hand-written L1 model coq/Ids/IdsModel.v of root_from_code / initial_state_root / Contract::id / predicate_owner / CreateMetadata::compute / "
                  "the ContractCreated rule / deploy_inner (storage key) / CROO (value written), tied by correspondence testing on every run",
                  "Merkle/BinaryModel.v root calculator (property C09) and Merkle/SparseModel.v root_from_set (property C12) are reused; the latter enters the theorems "
                  "as an oracle with the contract root_from_set_contract",
                  "Rust slices have at most isize::MAX < 2^63 bytes (premise lenN code < 2^63 of the code-root theorems)"],
    assumptions=[
        "no hash assumption: all statements are equalities of hash expressions",
        "root_from_set_contract h rfs (C15_state_root_partial, C15_metadata, C15_vm_*): the sparse-tree root_from_set returns the compact sparse Merkle root of "
        "the map collected from its pairs = property C12. Satisfiable: Example root_from_set_contract_sat",
        "lenN code < 2^63: every Rust slice satisfies it",
    ],
    rule=("code lengths 0..24, 16376..16392, 32760..32776, 3*16384 +/- {0,1,7,8} with zero / 0xFF / counter / pseudo-random content: Contract::root_from_code, "
          "Contract::root, Input::predicate_owner, is_predicate_owner_valid (right owner, code root as owner, one flipped bit, random); slot lists with duplicate and "
          "unsorted keys: initial_state_root; Contract::id on raw arguments; built Create transactions (cached CreateMetadata; ContractCreated outputs right / wrong id / "
          "wrong state root / twice / missing / code root as id); VM: Transactor::deploy on a fresh MemoryStorage (storage key of the bytecode and slots), second "
          "deployment, a script executing CROO on the deployed contract; predicate ownership through EVERY public entry point (Input::is_predicate_owner_valid, "
          "Input::check_signature, Script::check_signatures, predicates::check_predicates, predicates::check_predicates_async and Checked::check_predicates(_async) with a "
          "shuffling tokio ParallelExecutor, IntoChecked::into_checked / into_checked_reusable_memory, Transaction::into_checked; estimate_predicates / "
          "estimate_predicates_async / EstimatePredicates are run and recorded: estimation does not validate ownership by design) on transactions with 1..3 Coin / "
          "MessageCoin / MessageData predicate inputs owned by: the right address, a foreign address, one flipped bit, the bare code root, the owner of ANOTHER predicate of the "
          "same transaction: every path must reject exactly when some owner != sha256(seed || code root), naming the first such input (any such input for a shuffled "
          "parallel delivery); the sequential, parallel and one-call verdicts are also correspondence cases (COwners) decided by the model's is_predicate_owner_valid. "
          "Every value is compared byte for byte with the Gallina model AND with an independent recomputation in the harness (own chunking + recursive RFC 6962 MTH + "
          "recursive compact sparse Merkle root + fuel_crypto::Hasher). distinct = distinct (kind, result bytes); non-trivial = non-empty code / >= 2 distinct slot keys"),
    level_text=("Machine-checked proof (Coq) that the model of Contract::root_from_code (slice::chunks loop, padding through the 16 KiB scratch buffer, "
                "root calculator of C09) returns the RFC 6962 tree hash of the specification's leaves for every code (only the last chunk can be partial, it is "
                "zero-extended by < 8 bytes to a multiple of 8, the scratch-buffer slice never panics, empty code gives the empty hash); that Contract::id and "
                "Input::predicate_owner hash exactly seed||salt||root||state root and seed||root in the order read from the source; that initial_state_root is the "
                "compact sparse Merkle root of {sha256(key) -> value} relative to the contract of root_from_set (C12); and that CreateMetadata, the ContractCreated "
                "rule, deploy_inner and CROO use these same values. Model tied to the Rust code by a translator for constants/hash-input order and a byte-for-byte "
                "differential run on every check"),
    level_note=("Trusted: Coq kernel; hand-written L1 model tied by correspondence testing (testing, not proof); translator; executable SHA-256 instance; harness. "
                "The state-root equation is proved relative to property C12 (sparse root_from_set), which is another family's obligation. The VM-side statements are "
                "about the abstract storage model (id -> code, slots); fee/output finalisation of deploy is property C18/C35."),
    technique="Coq proof (induction over the chunking loop, reuse of calculator_root_is_MTH) + translator for constants + differential model/impl run",
    design_ref="6/C15",
)
