from props_common import *

PROP = dict(
    title="Sparse Merkle proofs prove membership and non-membership exactly",
    family="smt", harness="smt", run_vo="Run/Smt.vo",
    theorems=["C14_incl_verify_iff", "C14_excl_verify_iff", "C14_incl_sound", "C14_excl_sound",
              "C14_spec_incl_complete", "C14_spec_excl_complete", "C14_generate_proof"],
    open_statements=[],
    translators=[],
    quick_shards=8,
    trusted_base=[SHA_NOTE,
                  "hand-written L1 model of sparse/proof.rs (InclusionProof::verify, ExclusionProof::verify) and MerkleTree::generate_proof in Merkle/SparseModel.v, "
                  "tied to the code by the correspondence run (verdicts on genuine and mutated proofs, generated proofs byte for byte)",
                  "key interface premise: kbit reads the bits of a key (get_bit_at_index_from_msb)"],
    assumptions=["soundness theorems (C14_incl_sound, C14_excl_sound): collision-freeness of the leaf/node hash functions and zero not being a hash output "
                 "(hash_ok, explicit premise; satisfiable: Merkle/SparseInst.v)",
                 "C14_generate_proof (model of generate_proof on persisted trees): the premises bundled in smt_iface incl. hash_ok",
                 "the verify_iff and specification-level completeness theorems need no hash assumption"],
    rule=("trees built by histories over adversarial key pools (and by from_set followed by deletes); generate_proof for present keys, absent pool keys, last-bit siblings, "
          "prefix sharers, all-zero/all-one keys; mutation stream on the real proofs (drop/append/prepend/swap/replace/zero a side node, 256/257 side nodes, different key on / "
          "below the path, wrong or empty value, exclusion leaf claiming the queried key, leaf <-> placeholder, wrong leaf key/value, inclusion replayed as exclusion); verdict of the "
          "real verifier compared with the Gallina model and (oracle) with an independent top-down recomputation; accepted proofs checked against membership in the reference map; "
          "generated proofs compared with reference siblings; distinct = distinct (mutation class, key, length, verdict); non-trivial = non-empty proof set"),
    level_text=("Machine-checked proof (Coq) that the modelled verifiers accept exactly when the compact-tree recomputation from (key, leaf, side nodes) reaches the root, for "
                "arbitrary proof sets and claimed leaves; that under collision-freeness (explicit premise) an accepted inclusion/exclusion proof implies membership with that "
                "value / non-membership in ANY map with that root; that the siblings along a key in the compact tree of a map verify (completeness); and that the model of "
                "generate_proof, on every tree reached by a history, returns an inclusion proof exactly when the key is present, with exactly those siblings, and that this "
                "proof verifies; the model is tied to the Rust code by a differential run including a structured mutation stream on every check"),
    level_note=("Trusted: Coq kernel; hand-written L1 model tied to the Rust code by correspondence testing (testing, not proof); collision-freeness premise; harness. "
                "Trees built by from_set are covered through C12_from_set (from_set leaves the set's map persisted, Properties/C12.v), so C14_generate_proof applies to them as well."),
    technique="Coq proof (loop/recursion equivalence, induction on the path with hash injectivity) + differential model/impl run with proof mutations",
    design_ref="6/C14",
)
