from props_common import *

PROP = dict(
    title="Programs can only write memory they own",
    family="own", harness="own", run_vo="Run/Own.vo",
    theorems=["C24_owned", "C24_owned_memcopy", "C24_ownership_nonempty", "C24_ownership_empty",
              "C24_empty_write_changes_nothing", "C24_heap_unallocated",
              "C24_write_beyond_memory", "C24_write_unallocated_or_spanning", "C24_write_not_owned", "C24_foreign_byte_refused",
              "C24_access_gap_refused", "C24_access_spanning_refused", "C24_access_exact",
              "C24_ldc_stack_only", "C24_ldc_owner_refuses_heap",
              "C24_step", "C24_machine_invariant", "C24_machine_runs",
              "C24_class_table_matches_handlers", "C24_unchecked_sites_accounted"],
    open_statements=[
        "NOT proved: that every opcode handler of the Rust interpreter routes its memory writes through MemoryInstance::write / memcopy with "
        "OwnershipRegisters::new(vm) (user writes) or writes only the VM region its class records. The interpreter is not modelled opcode by opcode; "
        "this is established per EXECUTED step by trace validation (Run/Own.v replays the ownership model on every traced instruction and the "
        "harness oracle checks the memory diff), and statically only as far as the two generated tables go (handler -> interpreter method route, "
        "list of ownership-bypassing call sites), which make a proof obligation fail when a handler is re-routed or a new unchecked write site appears.",
        "The abstract machine (Vm/FrameModel.v cop) abstracts instructions to their effect on $ssp/$sp/$fp/$hp, the frame stack and memory; "
        "gas, balances, receipts, storage are not part of it. C24_step, C24_machine_invariant and C24_machine_runs quantify over all operation sequences of THAT machine.",
        "ECAL (embedder-supplied handler) is only constrained by the oracle/trace check 'changes inside owned memory'; it is not generated.",
    ],
    translators=["vmconsts"],
    quick_shards=8,
    trusted_base=[
        "hand-written L1 model coq/Vm/OwnModel.v of OwnershipRegisters / MemoryInstance::{verify,write,memcopy,grow_stack,grow_heap_by} and the "
        "opcode class table op_class (tied by per-step trace validation on every run: testing, not proof)",
        "tools/gen_vmconsts.py (regex translator: constants, CallFrame offsets, opcode bytes, handler routes, unchecked write sites)",
        "harness/src/vmtrace.rs single-step tracer (debugger single-stepping of the real Interpreter, memory diff of accessible memory) and "
        "harness/src/vmown/mod.rs (shadow memory rebuilt from the initial stack + diffs; prev_hp read from the frame at $fp; stack high-water "
        "mark tracked as max $sp, truncated at $hp)",
        "memory as a flat zero-initialised array with bounds (stack.len(), hp): that MemoryInstance behaves like this is property C23",
    ],
    assumptions=[
        "C24_step, C24_machine_invariant, C24_machine_runs, C24_ldc_stack_only: Inv s (ssp <= sp <= stack.len() <= hp = memory.hp <= VM_MAX_RAM and the frame chain: each frame sits at its "
        "caller's $sp, ssp >= fp + frame + code, hp <= saved hp). Holds initially (Example ex_state_inv) and is preserved by every step (C24_machine_invariant)",
        "C24_access_spanning_refused: stack.len() <= hp (memory invariant of C23)",
    ],
    rule=("four streams of transactions run on the real interpreter under vmtrace's single-step tracer: (A) vmtrace grammar programs (all memory/"
          "wide/crypto/storage/call items, fault injection), (B) generated call trees with callee ALOC, CFS/CFE shrink-regrow, PSH/POP, LDC in all three "
          "modes, TR/TRO/SMO balance and output writes, (C) one hostile access per transaction: 15 targets (caller frame, caller stack, tx bytes, code, "
          "above $sp, below $hp, end of memory, caller's heap, huge addresses, freed stack, empty range at $sp, ranges straddling $sp/$ssp/$hp, "
          "unallocated own heap) x 17 writing opcodes + reads, in the script or at any call depth, (D) stack grown until it touches the heap and a write "
          "across the boundary. Per executed instruction the Coq checker replays the ownership model (exact outcome incl. panic reason for SB/SQW/SHW/SW/"
          "MCL/MCLI/MCP/MCPI/LB/LQW/LHW/LW/MEQ; destination range + ownership verdict for every other writing opcode; permitted region for VM-own writes) "
          "and lists every step it cannot explain; oracle: same region check and specification reasons in Rust directly on the memory diff; "
          "distinct = distinct (opcode, outcome) sequence; non-trivial = at least one step with a user write or a memory-fault panic"),
    level_text=("Machine-checked proof (Coq) over an abstract machine mirroring OwnershipRegisters / MemoryInstance: a store through the ownership check "
                "changes only bytes of [ssp,sp) or [hp,prev_hp) for all memories, registers, addresses (incl. empty ranges and hp = prev_hp); ranges beyond "
                "memory, touching never-allocated memory or spanning both regions are refused with MemoryOverflow / UninitalizedMemoryAccess, accessible but "
                "foreign ranges with MemoryOwnership; LDC writes [ssp, ssp+len) and its frame's code-size word only; every operation of the frame machine "
                "changes only owned bytes or the declared region of the VM's own write, for all operation sequences. Tied to the interpreter by trace "
                "validation: each executed instruction of generated programs is replayed against the model"),
    level_note=("Level: proof over the abstract machine + trace validation. NOT proved: that each Rust opcode handler routes its writes through the ownership "
                "check (checked per executed step, and by two generated tie tables). Trusted: Coq kernel, hand-written model, translator, vmtrace tracer, harness."),
    technique="Coq proof over an abstract ownership/frame machine + per-step trace validation of generated (incl. hostile) programs on the real interpreter",
    design_ref="6/C24",
)
