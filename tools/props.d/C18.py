from props_common import *

PROP = dict(
    title="Fee and refund arithmetic is monotone and bounded by the fee limit",
    family="fee", harness="fee", run_vo="Run/Fee.vo",
    theorems=["C18_ceil_is_ceiling", "C18_gas_mono", "C18_fee_mono", "C18_fee_formula", "C18_checked_from_tx",
              "C18_refund_formula", "C18_refund_mono",
              "C18_refund_bounded", "C18_total", "C18_factor_zero_panics", "C18_units_per_gas_zero_panics",
              "C18_into_ready", "C18_transaction_fee_ordered"],
    open_statements=[],
    translators=[],
    quick_shards=8,
    trusted_base=[
        "hand-written L1 model coq/Fee/FeeModel.v of fee.rs (min_gas, Chargeable::{min_gas,max_gas,min_fee,max_fee,refund_fee,gas_used_by_inputs}, gas_to_fee, "
        "TransactionFee::checked_from_tx), of the per-kind overrides (script/create/upgrade/upload/blob), of DependentCost::resolve and of Checked::into_ready; "
        "tied to the Rust code by the correspondence run (testing, not proof)",
        "the transaction is modelled as the record of quantities the fee code reads (metered byte size, classified inputs with witness index / predicate length / "
        "predicate_gas_used, witness lengths, witnesses' size_dynamic, policy values, kind-specific body fields); the harness extracts these from real transactions",
        "Rust semantics of u64/u128 saturating_*/checked_*/div_ceil/try_into as written in Base/U64.v and FeeModel.v; a host panic is the model value Panic",
        "Coq Uint63 primitive integers are used only to parse the numerals of the generated case files quickly (Run/Fee.v i/q/qq), not in any theorem",
    ],
    assumptions=[
        "gas price factor >= 1 (the statement's quantifier); with factor = 0 every fee computation panics (C18_factor_zero_panics, confirmed on the real code)",
        "units_per_gas >= 1 for the LightOperation costs the fee code resolves (documented in gas.rs: 'This must be nonzero'); otherwise resolve panics "
        "(C18_units_per_gas_zero_panics, confirmed on the real code)",
        "C18_refund_formula holds for all u64 inputs (no side condition on min_gas + used_gas): refund_fee adds them in u128 and returns None when the u128 product "
        "overflows, where the exact fee exceeds every u64 fee limit. (Finding F7, the former saturating u64 add, is fixed; its witness is a corpus case that must pass.)",
        "gas price, price factor, used gas, tip and fee limit are u64 values (hypotheses price < 2^64 etc. of the formula theorems)",
    ],
    rule=("streams: (1) DependentCost::resolve on boundary-biased (cost, units); (2) raw fee arithmetic: input-less script txs under a configuration that makes min_gas an arbitrary "
          "boundary-biased u64 (gas_to_fee is private), prices/tips/limits from {0,1,2^32+-1,2^63,2^64-1,...}, factors {1,2,3,92,1e9,2^32+-1,2^63,2^64-1,...}, used gas incl. the four "
          "values around 2^64-1-min_gas (the former saturation boundary; corpus case F7 first); (3) free-form transactions of the five chargeable kinds (public constructors; 0-7 inputs of all seven variants, repeated/out-of-range witness "
          "indices, 0-3 witnesses, all policies) under random gas costs (V1 and V7 wrappers); (4) valid transactions from TransactionBuilder through into_checked_basic and into_ready "
          "at three block heights; (5) factor 0 / units_per_gas 0 (panic expected in code and model). Each case: gas_used_by_inputs, gas_used_by_metadata, min/max gas, min/max fee, "
          "refund_fee for 5-10 used-gas values, checked_from_tx, into_ready vs the Gallina model; oracle: the property text evaluated with 256-bit integers in the harness "
          "(min<=max, ceil formula, refund formula/monotone/bounded, TransactionFee None iff exact max fee >= 2^64, into_ready Ok => max fee <= limit, no panic). "
          "distinct = distinct tuple of all observed results; non-trivial = in-scope configuration, price > 0 and min_gas > 0"),
    level_text=("Machine-checked proof (Coq) over an executable model that mirrors the Rust fee code operation by operation: min_gas <= max_gas and min_fee <= max_fee for all inputs; "
                "both fees equal ceil(gas*price/factor)+tip exactly (u128 multiplication cannot overflow, u128 saturating add cannot saturate); checked_from_tx is None exactly when the "
                "exact max fee exceeds u64; refund_fee equals fee_limit-(ceil((min_gas+used)*price/factor)+tip) (None when negative) for all u64 inputs, is non-increasing in used gas "
                "and never exceeds the fee limit; no panic when factor >= 1 and units_per_gas >= 1 (and panic otherwise); into_ready Ok implies max_fee <= fee limit. "
                "The model is tied to the Rust code by a differential run on every check"),
    level_note=("All 13 theorems closed under the global context. Trusted: Coq kernel; the hand-written model and the abstraction of a transaction to the quantities read by the fee code, "
                "both tied by correspondence testing only; the harness' extraction of those quantities. Finding F7 (class refund-saturated-gas-sum, saturating u64 sum in refund_fee) was fixed in /repo; its witness stays in the stream as a corpus case."),
    technique="Coq proof (lia/nia over N and Z with explicit saturating/checked arithmetic) + differential model/impl run + 256-bit reference oracle",
    design_ref="6/C18",
)
