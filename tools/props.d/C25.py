from props_common import *

PROP = dict(
    title="Control flow lands exactly where the specification says",
    family="flow", harness="flow", run_vo="Run/Flow.vo",
    theorems=["C25_jump_model_is_spec", "C25_handlers_are_isa", "C25_lands", "C25_panic_exact", "C25_untaken",
              "C25_jal_link", "C25_jal_reserved", "C25_fetch", "C25_fetch_reason", "C25_nonjump_pc4", "C25_pc_max_refuted"],
    open_statements=[
        "C25_nonjump_pc4 is a statement about the generated handler classification (Gen/FlowTable.flow_class) and the abstract pc "
        "discipline step_pc, not about a Gallina model of all ~115 non-jump handlers: that every `inc_pc`-class handler really ends "
        "in inc_pc is established by trace validation on every run (testing), not by proof",
        "CALL lands on old $sp + CallFrame size and RET/RETD return to the saved $pc + 4: checked on traces (step_pc), no L3 theorem",
    ],
    translators=["flowtable"],
    trusted_base=[
        "tools/gen_flowtable.py (regex translator of the 12 jump handlers' JumpArgs builder chains, of every handler's pc class, of "
        "VM_MAX_RAM / CallFrame size / panic bytes; it also pins the exact text of JumpArgs::jump, inc_pc and the fetch_instruction checks)",
        "hand-written L1 model Vm/FlowModel.v of JumpArgs::jump, write_user_register, fetch_instruction, MemoryInstance::verify (tied by the correspondence run)",
        "Vm/FlowSpec.v: the ISA table isa_jump and the exact-integer target semantics written from the FuelVM instruction-set specification",
        "harness/src/vmtrace.rs (single-stepping through the crate's debugger; step classification)",
        "operands $ggas/$cgas of a jump are read after the gas charge (the harness feeds their post-charge values)",
    ],
    assumptions=["register values < 2^64 and pc + 4 < 2^64 (every fetched instruction has pc + 4 <= VM_MAX_RAM, C25_fetch); "
                 "C25_pc_max_refuted shows the bound is needed (model-level only: pc = 2^64-1 is not reachable through fetch)"],
    rule=("(i) every jump opcode x boundary-biased register files ($pc/$is realistic and extreme, operands aimed at targets 0, 4, MAX-8..MAX+4, -4) x "
          "boundary immediates executed as one instruction on the real interpreter; (ii) every step of generated programs (loops, jal subroutines, "
          "nested calls, returns, reverts, panics, out-of-gas), landing scripts (jump into heap / stack above $ssp / script data / unaligned / end of memory) "
          "and garbage scripts: the Coq checker recomputes the pc after each step from (word, operand registers, $pc, $is, $ssp, $sp, $hp, stack length) "
          "and the fetch verdict; distinct = distinct (opcode, panic, target) resp. distinct (trace length, pc/opcode hash); non-trivial = trace contains a jump"),
    level_text=("Machine-checked proof (Coq) that the saturating-u64 model of JumpArgs::jump and of the 12 jump handlers equals the exact-integer ISA "
                "specification for every handler shape, instruction word and register file (lia over N/Z, no enumeration), with exact panic "
                "conditions, untaken = pc+4, JAL link rules, and the fetch condition is <= pc < ssp; the handler table is regenerated from "
                "opcodes_impl.rs on every run and proved equal to the ISA table; model tied to the code by single-instruction and whole-trace "
                "differential runs"),
    level_note=("Trusted: Coq kernel; the translator; hand-written L1 model tied by correspondence testing (testing, not proof). The statement "
                "'every non-jump instruction that succeeds advances pc by 4' is proved only for the abstract pc discipline over the generated "
                "classification; its tie to the ~115 handlers is trace validation. CALL/RET landing is trace-validated only."),
    technique="Coq proof (linear arithmetic over N/Z with min/checked_sub) + generated handler table + single-step and trace differential run",
    design_ref="6/C25",
    quick_shards=8,
)
