from props_common import *

PROP = dict(
    title="Storage reads honour the read contract for every offset and length",
    family="sread", harness="sread", run_vo="Run/Sread.vo",
    theorems=["C36_exact", "C36_zerofill", "C36_missing", "C36_size_alloc", "C36_contract_exact_ok", "C36_contract_exact_err", "C36_contract_zerofill_ok", "C36_contract_zerofill_err"],
    open_statements=[],
    translators=[],
    trusted_base=[],
    assumptions=[],
    rule="",
    level_text="", level_note="", technique="", design_ref="6/C36",
    quick_shards=8,
)
