from props_common import *

PROP = dict(
    title="Storage reads honour the read contract for every offset and length",
    family="sread", harness="sread", run_vo="Run/Sread.vo",
    theorems=["C36_exact", "C36_zerofill", "C36_missing", "C36_size_alloc",
              "C36_contract_exact_ok", "C36_contract_exact_err", "C36_contract_zerofill_ok", "C36_contract_zerofill_err",
              "C36_copy_zero_fill", "C36_copy_zero_fill_succeeds", "C36_loaded_bytes", "C36_ccp", "C36_bldd", "C36_csiz_bsiz",
              "C36_ldc_contract", "C36_ldc_blob", "C36_ldc_loaded_region", "C36_ldc_memory", "C36_padding_zero_when_value_ends",
              "C36_ldc_strict_padding_refuted"],
    open_statements=[
        "ldc_contract_padding_is_zero (Mem/ReadModel.v): 'LDC modes 0/1 leave zeros between $rC and the word-padded length' is REFUTED "
        "(C36_ldc_strict_padding_refuted): the padding holds the value's following bytes when $rC % 8 != 0 and the value continues; the "
        "implementation behaves the same: KNOWN FINDING recorded in known_findings.json under the oracle classes "
        "ldc-mode0-unaligned-length-padding-holds-following-value-bytes-not-zeros and ldc-mode1-unaligned-length-padding-holds-following-value-bytes-not-zeros, "
        "whose witnesses are replayed on every run (the check prints KNOWN-FINDING and exits 0). "
        "Proved instead: region = value[off .. off+padded] ++ zeros (C36_ldc_loaded_region) and zero padding when the value ends (C36_padding_zero_when_value_ends)",
        "update_code_size (the $fp->codesize bookkeeping of LDC) is modelled and tied by correspondence; the LDC theorems expose it as the last step "
        "without characterising its bytes",
        "gas charging, the contract-in-inputs check and the predicate-context refusal are outside the model (the harness runs with maximal gas and the AttemptContinue verifier)",
    ],
    translators=[],
    trusted_base=[
        "hand-written L1 model Mem/ReadModel.v of the three StorageRead impls in fuel-vm/src/storage/memory.rs (identical bodies), of "
        "copy_from_storage_zero_fill (interpreter/memory.rs) and of code_copy / blob_load_data / load_contract_code / load_blob_code / load_memory_code / "
        "code_size / blob_size (interpreter/blockchain.rs, blob.rs); tied by the correspondence run only",
        "the C23 memory model (Mem/MemModel.v) and its refinement theorems, on which the instruction theorems are stated",
        "usize is 64 bits; a stored value is shorter than 2^64 - 1 bytes (premise of C36_exact)",
        "CallFrame::code_size_offset() = 576 and padded_len_word are transcribed by hand (exercised by every successful LDC case)",
        "the bare Interpreter used by the harness has Context::NotInitialized, which counts as internal: the external (script) variant of LDC, "
        "which skips the code-size update, is in the model (v_internal = false) but is not exercised by the correspondence run",
    ],
    assumptions=[
        "C36_exact: the stored value is shorter than 2^64 - 1 bytes",
        "instruction theorems: the memory satisfies the representation invariant of C23 (true of every reachable MemoryInstance: C23_invariant); "
        "they describe successful executions; failures leave the model state unchanged by construction",
    ],
    rule=("storage level: value lengths {0,1,2,3,8,32,33} (17 lengths in thorough), every offset and buffer length within +-2 of the value length plus 0, "
          "offset+buffer = length-1/length/length+1, offsets 2^32-1, 2^32, usize::MAX-1, usize::MAX, missing keys; for the three MemoryStorage byte tables "
          "(contract code, contract state, blobs) through the real StorageRead/StorageSize impls; buffers pre-filled with a recognisable pattern. "
          "Instruction level: CCP, BLDD, LDC modes 0/1/2 (+ invalid mode), CSIZ, BSIZ executed by Interpreter::instruction on a real interpreter with "
          "boundary offsets/lengths around the value length and word boundaries, 2^32, u64::MAX, destinations at ownership/accessibility boundaries, "
          "missing ids, $ssp != $sp, stack meeting the heap, contract_max_size boundary, several $fp; observed: panic reason or registers + full accessible memory. "
          "Each case is compared with the Gallina L1 model and with direct slice arithmetic written in the harness. distinct = distinct input; "
          "non-trivial = stored value present and non-empty buffer / successful instruction"),
    level_text=("Machine-checked proof (Coq) that the model of MemoryStorage's read_exact/read_zerofill/size/alloc equals the read contract for every value, offset "
                "and buffer (offset == length allowed, offset > length refused, missing key reported, buffer untouched on failure), and that "
                "copy_from_storage_zero_fill, CCP, BLDD and LDC (modes 0/1 from storage, mode 2 from memory) leave exactly value[off..off+n] followed by zeros in their destination and nothing "
                "else changed (stated on the C23 memory refinement), with the register effects of LDC; the model is tied to the Rust code by a differential "
                "run through the real StorageRead impls and a real Interpreter on every check"),
    level_note=("Trusted: Coq kernel; hand-written L1 models tied by correspondence testing (testing, not proof); harness. The frame code-size "
                "update is covered by correspondence only. The strict reading 'zero padding after $rC bytes' is refuted for LDC modes 0/1 (known finding, reported on every run)."),
    technique="Coq proof (list lemmas firstn/skipn/repeat + C23 refinement) + differential model/impl run + slice-arithmetic oracle",
    design_ref="6/C36",
    quick_shards=8,
)
