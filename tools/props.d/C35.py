from props_common import *

PROP = dict(
    title="Bytecode upload, blob, deployment and upgrade state evolve as specified",
    family="upgrade", harness="upgrade", run_vo="Run/Upgrade.vo",
    theorems=["C35_refines_spec", "C35_once_contract", "C35_once_blob", "C35_upload_order_complete",
              "C35_upload_after_complete", "C35_version_next_consensus", "C35_version_next_state_transition",
              "C35_no_bug", "C35_failed_unchanged", "C35_before_fix_failed_unchanged_refuted"],
    open_statements=[],
    translators=[],
    quick_shards=12,
    trusted_base=[
        "hand-written L1 model coq/Upgrade/UpgradeModel.v of deploy_inner / upgrade_inner / upload_inner / "
        "upload_bytecode_subsection / blob_inner and of MemoryStorage's BTreeMap tables (tied by correspondence testing on every run)",
        "abstraction of a Checked transaction to (id, code, slots) / (id, data) / (root, index, total, part) / parameters identity / root: "
        "the hash and Merkle-proof checks that bind these (contract id, blob id, subsection proof, checksum) are covered by other properties",
        "finalize_outputs (fee/refund arithmetic after the storage writes) enters as a verdict; the theorems take it to succeed, "
        "which Checked<Tx> guarantees (Bug::UncomputableRefund otherwise)",
        "current consensus-parameter / state-transition versions are environment inputs (events ESetCpVersion / ESetStVersion), as in MemoryStorage",
    ],
    assumptions=[
        "hist_ok h: every Upload has index < total <= 65535 (guaranteed by the Merkle proof check of Checked<Upload>) and, within the history, "
        "a blob id determines its data (BlobId = SHA-256(data) is checked by Checked<Blob>; this is collision-freeness on the blobs of h). "
        "Satisfiable: Example example_history_ok; needed: Example blob_bind_needed",
    ],
    rule=("histories of <= 30 events (deploy / blob / upload / consensus upgrade / state-transition upgrade / block production moving the "
          "current versions) over small pools so that repeats, duplicates, out-of-order and interleaved uploads of several roots and upgrades "
          "against stale versions are frequent; each transaction goes through one of Interpreter::{deploy,upgrade,upload,blob}(Ready), "
          "Interpreter::transact(Ready), Transactor::{deploy,..}(Checked), Transactor::transact(Checked) on ONE MemoryStorage; after every event "
          "verdict kind + sorted dump of all tables; the Gallina model must reproduce every verdict and dump; oracle: reference state machine "
          "written from the property text + 'failed => storage unchanged' (dump and Debug image of the whole MemoryStorage); "
          "distinct = distinct history text; non-trivial = at least one accepted and one rejected event and >= 3 event kinds"),
    level_text=("Machine-checked proof (Coq) that the model of deploy_inner/upgrade_inner/upload_inner/blob_inner over MemoryStorage refines a "
                "specification state machine written from the property text, over ALL histories (induction over the event list): same verdicts, "
                "all tables (contracts, slots, blobs, upload progress, both version tables) equal; consequences proved for the model: ids created at most once with "
                "exactly the submitted data, uploads accepted only as 0,1,2,.. and complete exactly at index total-1 with bytecode = concatenation, "
                "upgrades install under current+1 or fail; 'failed transactions leave the tables unchanged' is proved in full (C35_failed_unchanged). "
                "The model is of the current code, i.e. with the fix: commit for finding F8 (upgrade_inner writes the replaced version entry back "
                "before returning an Overriding error); C35_before_fix_failed_unchanged_refuted is a historical lemma about the model of the code "
                "before that commit, and the two F8 witnesses run first in every correspondence run as regression cases"),
    level_note=("Finding F8 (failed upgrade overwrote the version entry) was repaired in /repo by a fix: commit; oracle class "
                "failed-upgrade-overwrites-version reports a regression. Trusted: Coq kernel; hand-written L1 model tied to the Rust code by a differential run of every history through the real "
                "Interpreter/Transactor entry points (testing, not proof); abstraction of checked transactions; harness. "
                "MemoryStorage only (the storage of fuel-core is outside this repository)."),
    technique="Coq refinement proof (simulation lifted to histories by induction) + differential model/impl run of random histories",
    design_ref="6/C35, 7/F8",
)
