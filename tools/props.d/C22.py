from props_common import *

PROP = dict(
    title="Wide-integer instructions follow the specification",
    family="alu", harness="alu", run_vo="Run/Alu.vo", quick_shards=12,
    theorems=["C22_op", "C22_reads_be", "C22_writes_dest", "C22_write_then_read", "C22_invalid_imm",
              "C22_imm_decoders", "C22_read_panics",
              "C22_memory_bridge", "C22_read_table", "C22_read_total", "C22_write_table", "C22_write_only_owned",
              "C22_second_read_panics", "C22_mul_direct_lhs", "C22_third_read_panics", "C22_dest_failure_after_flags",
              "C22_exec_is_helper"],
    open_statements=[],
    translators=["alutable", "vmconsts"],
    trusted_base=[
        "panic table, memory half: derived from the refusal theorems of C24 (Vm/OwnProofs.v: verify_overflow, verify_uninitialized, verify_ok_iff, "
        "mem_write_overflow/_uninitialized/_not_owned/_owned) through bridging lemmas (C22_memory_bridge) showing that the ALU model's flat verify / write / "
        "ownership functions are C24's Vm/OwnModel.v functions; Vm/OwnModel.v itself (flat array of C23 with stack.len() and hp) is tied to the Rust MemoryInstance "
        "by C23's refinement proof and C23/C24's own correspondence runs, and Gen/VmConsts.v (MEM_SIZE, PanicReason bytes) by tools/gen_vmconsts.py",
        "Alu/AluSpec.v (wide_*_spec, *_imm_spec, be_value): the instruction semantics written from the fuel-specs ISA text (no spec file in the repository)",
        "Alu/AluModel.v: hand-written L1 model of alu/wideint.rs (u128 and U256 instances of wideint_ops!), of the from_imm decoders of fuel-asm/src/args/wideint.rs "
        "and of a flat view of MemoryInstance::{verify, read_bytes, write_bytes} + OwnershipRegisters; tied by correspondence. The little-endian round trips through "
        "primitive_types (to_prim/from_prim/truncate_from_prim) are modelled as the identity on values",
        "tools/gen_alutable.py (handler shapes incl. which decoder and which helper each wide opcode uses, enum discriminants of CompareMode/MathOp)",
        "ethnum / primitive-types arithmetic (checked_shl, overflowing_*, full_mul, checked_div/rem) is modelled by its mathematical meaning, exercised by the correspondence",
    ],
    assumptions=[
        "register values < 2^64, memory bytes < 256",
        "C22_op is stated for a decodable immediate and readable operands (the other cases: C22_invalid_imm, C22_read_panics, C21_reserved, C21_out_of_gas)",
    ],
    rule=("single instructions on a real Interpreter with a 2 KiB stack and a 1 KiB heap: for each of the 14 opcodes 128/256-bit boundary-biased operands "
          "(0, 1, 2, 2^k, 2^k-1, 2^64±, half-width boundary, all-ones, random; equal operands; zero divisor/modulus; shift amounts around the width and 2^32; "
          "LZC with every count) x flag 0..3 x direct/indirect modes; every one of the 64 immediates of the 8 opcodes that have one; operand and destination addresses "
          "mostly valid (owned stack / heap) plus boundary and invalid ones (crossing $sp/$ssp, the unallocated gap, end of memory, huge); destination aliasing an operand. "
          "Each case: all registers, panic reason, operand and destination bytes compared with the Gallina model; oracle: independent big-integer reference "
          "(schoolbook mul, binary long division) for value/$of/$err/panic, whole accessible memory compared before/after (only the destination may change). "
          "distinct = (opcode, imm, outcome, destination bytes); non-trivial = memory or destination register changed, or panic"),
    level_text=("Machine-checked proof (Coq) that the L1 model of the 14 wide-integer instructions reads its operands as big-endian integers, computes exactly the "
                "value, $of, $err or panic reason of a specification over Z (add/sub/not/or/xor/and/shl/shr with shifts >= width, mul, div, addmod, mulmod, muldiv with "
                "zero divisor, the seven compare modes incl. leading zeros), writes it big-endian to an owned destination and nothing else, advances pc by 4, and that "
                "the four immediate decoders agree with the specification on all 64 immediates; the model is tied to the Rust code by a translator-generated opcode table "
                "and a differential single-instruction run on the real interpreter on every check"),
    level_note=("The panic table is complete at the level of the model: immediate, each operand read in handler order (first failing access decides: MemoryOverflow / "
                "UninitalizedMemoryAccess), arithmetic, then the destination (MemoryOverflow / UninitalizedMemoryAccess / MemoryOwnership, checked after $of/$err are set), "
                "with the memory reasons proved from C24's theorems via bridging lemmas. Trusted: Coq kernel, the spec file, the hand-written model (third-party big-integer "
                "libraries modelled by their meaning) tied by correspondence testing (testing, not proof), the translator, the harness oracle."),
    technique="Coq proof (model = Z-specification per wide operation, big-endian load/store lemmas, exhaustive immediate sweep) + translator-generated opcode table + differential single-step run + independent big-integer oracle",
    design_ref="6/C22",
)
