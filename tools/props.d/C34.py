from props_common import *

PROP = dict(
    title="Calls and returns preserve the caller's frame",
    family="frames", harness="frames", run_vo="Run/Frames.vo",
    theorems=["C34_roundtrip", "C34_stack_unchanged", "C34_depth", "C34_ret_restores", "C34_callee_init", "C34_frame_written", "C34_frame_size",
              "C34_callee_owned_after_code", "C34_heap_readable", "C34_callee_heap_owned_by_caller"],
    open_statements=[
        "NOT proved: that the Rust prepare_call / return_from_context compute exactly call_regs / ret_regs / frame_bytes of Vm/FrameModel.v, and that no "
        "instruction executed by a callee changes the layout registers or memory other than through the machine's operations. Established per EXECUTED "
        "step by trace validation (all 64 registers after every CALL and every returning RET/RETD, the 600 frame bytes in VM memory, no change below the "
        "pending callers' $sp) and by the harness oracle (registers at the call vs after the return, byte-for-byte snapshot of the caller's memory).",
        "RVRT never returns to a caller (it ends the whole transaction), and a panic in a callee ends the transaction as well: 'after a call returns' only "
        "concerns RET and RETD; nothing is claimed about memory after a revert or panic.",
        "Gas registers: $cgas/$ggas after the charges of CALL/RET/RETD enter the model as parameters (gas accounting is C26); the forwarding rule "
        "cgas' = min(cgas, $rD), saved cgas = cgas - cgas' and the credit-back at return ARE modelled and checked.",
        "The transaction-output bytes a TRO executed in a callee rewrites lie in the VM's own area [0, vm_hi) below every stack; 'stack unchanged' is "
        "stated and checked for [vm_hi, $sp at the call).",
    ],
    translators=["vmconsts"],
    quick_shards=8,
    trusted_base=[
        "hand-written L1 model coq/Vm/FrameModel.v of CallFrame (layout from Gen/VmConsts.v, regenerated from call.rs on every run), prepare_call, "
        "return_from_context, and of the stack/heap instructions as machine operations (tied by per-step trace validation: testing, not proof)",
        "tools/gen_vmconsts.py; harness/src/vmtrace.rs tracer; harness/src/vmown/mod.rs (shadow memory, frame bytes read at $fp)",
        "ownership definitions and theorems of C24 (Vm/OwnModel.v, Vm/OwnProofs.v)",
    ],
    assumptions=[
        "Inv s0 (layout invariant, see C24); satisfiable: Example ex_state_inv; a complete call / nested call / RETD / RET run is exhibited by Example ex_call_return",
        "C34_roundtrip: the callee's execution is any operation list run while the depth stays above the caller's (run_above) and ending at the caller's depth",
        "C34_frame_size: contract id and asset id are 32 bytes",
    ],
    rule=("call trees on the real interpreter under vmtrace's single-step tracer: chains of up to 4 contracts plus self-recursion through Call.a (depth 1..30), "
          "one or two calls per activation, coins and gas forwarded ($cgas, half, all, fixed), RET of a register / of $hp, RETD of lengths 0..1000 from stack, "
          "heap and tx data, callee ALOC 0..4096, CFS/CFE, PSH/POP, LDC in callees, random 64-bit contents in the program registers, caller $sp made unaligned right before the CALL (CFEI/CFE by 1..17, 1023, 4097: every residue mod 8 at every depth bucket, the bytes just below $sp filled with a non-zero pattern), inner calls forwarding 0 coins from frames whose own $bal is non-zero, loads through the "
          "returned heap pointer after the return; plus vmtrace grammar programs with recursion. Coq checker: model registers vs all 64 observed registers at "
          "every CALL and returning RET/RETD, model frame bytes vs the 600 bytes in VM memory, depth bookkeeping, no changed byte in [vm_hi, $sp of any "
          "pending caller); oracle: the property text on registers / a memory snapshot taken BEFORE the CALL step (so the CALL's own frame write is covered, down to the last byte below $sp) / depth / callee entry state (fp' = caller sp exactly, is = pc = sp + 600, bal = forwarded coins, ...; classes call-frame-not-at-caller-sp, caller-stack-changed-across-call, callee-bal-not-forwarded-amount, ...) / loads equal to the memory image; "
          "distinct = distinct call/return/depth/RETD-length sequence; non-trivial = at least one completed call-return pair"),
    level_text=("Machine-checked proof (Coq) over an abstract call-frame machine mirroring prepare_call / return_from_context: for every state satisfying the "
                "layout invariant, CALL followed by ANY callee execution above the caller's depth (arbitrary register changes, owned writes, stack/heap growth, "
                "LDC, nested calls) and the matching RET/RETD restores every register except $cgas $ggas $ret $retl $hp, sets $pc = call pc + 4, returns to "
                "the previous depth and leaves every byte of [vm_hi, caller's $sp) unchanged; callee starts with ssp = sp = fp + frame + padded code, "
                "is = pc = code start, bal = forwarded coins, flag = 0; everything the callee owns lies after the copied code; heap allocated by the callee "
                "stays readable (and owned) by the caller. Tied to the interpreter by trace validation of generated call trees up to depth 30"),
    level_note=("Level: proof over the abstract machine + trace validation. NOT proved: that the Rust functions equal the model (checked per executed CALL/RET/RETD "
                "on all 64 registers and the frame bytes). Trusted: Coq kernel, hand-written model, translator, vmtrace tracer, harness."),
    technique="Coq proof over an abstract call-frame machine (invariant + induction over callee executions) + per-step trace validation of generated call trees",
    design_ref="6/C34",
)
