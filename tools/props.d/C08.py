from props_common import *

PROP = dict(
    title="Instruction encoding is a bijection on valid 32-bit words",
    family="asm", harness="asm", run_vo="Run/Asm.vo",
    theorems=["C08_decode_iff", "C08_decode_args", "C08_encode_decode", "C08_to_u32_try_from",
              "C08_decode_encode", "C08_encode_is_spec_word", "C08_shorthand_ctor",
              "C08_interp_agrees", "C08_opcodes_distinct", "C08_decode_injective", "C08_encode_injective"],
    open_statements=[],
    translators=["optable"],
    trusted_base=[
        "tools/gen_optable.py: regex/bracket-matching parser of impl_instructions! (lib.rs), pack.rs, unpack.rs, the arms of "
        "op_new!/op_unpack!/op_reserved_part! and the glue idioms of macros.rs, RegId/ImmNN::new masks, and the `match opcode` "
        "dispatch of fuel-vm/src/interpreter/executors/instruction.rs; raises on any syntax outside those idioms; also writes the "
        "opcode rows as a Rust macro (harness/src/gen/asm_optable.rs) so the harness dispatches over the opcodes of the current tree",
        "hand-written L1 model Asm/EncodeModel.v of the Rust control flow around the generated tables (try_from, from_raw_args, "
        "new, unpack, to_bytes, u32 conversions, interpreter decode step), tied by the correspondence run",
        "representation: u32 as N below 2^32, [u8;4]/[u8;3] as bytes below 256 (big endian); Err(InvalidOpcode) and a panicking "
        "shorthand constructor as None",
        "the interpreter's decode step is observed through op::X::from_raw_args + unpack (same functions the handlers call) and, "
        "for the real dispatch, through Interpreter::instruction returning PanicReason::InvalidInstruction or not; the arguments "
        "as seen inside each handler are not observed here (C21.. observe them through execution)",
    ],
    assumptions=["words are 32-bit (w < 2^32); no other assumption: all theorems are closed under the global context"],
    rule=("Nm: Debug name of Opcode::try_from for all 256 bytes; C: every opcode x boundary values {0,1,max-1,max} per argument "
          "(thorough: full product for every opcode; quick: full product for shapes with <= 16 tuples and for the first opcode of every "
          "shape, for the others every boundary value in every position against an all-zero and an all-max background) + out-of-range "
          "values per position (max+1, max+2, parameter-type max) + random in-range and random parameter-type-wide tuples, through the "
          "shorthand constructor, op::X::new with masking constructors, and decode of the result; W: for every opcode the 24 single-bit "
          "walks (+ complements; + all bit pairs in thorough), all 256 top bytes x 7 (quick) / 13 (thorough) payload patterns, uniform "
          "random words and random valid/one-bit-off words, through try_from(u32), try_from([u8;4]), u32::from, to_bytes, "
          "from_raw_args+unpack and the real Interpreter::instruction; every case is also checked on the Rust side against an "
          "independent positional reference (oracle); thorough and --oracle-only add a native sweep of all 2^32 words (decode ok => "
          "re-encode equal, opcode defined, reserved bits zero; decode err => undefined opcode or reserved bit set; count of decodable "
          "words = sum over opcodes of 2^(argument bits)); distinct = distinct input; non-trivial = top byte is a defined opcode"),
    level_text=("Machine-checked proof (Coq), by arithmetic over N for all 2^32 words (no enumeration): the decoder model accepts exactly the words "
                "whose top byte is a defined opcode and whose bits below the arguments are zero, returns the bits at the specified positions, "
                "re-encodes to the same word; every in-range (opcode, arguments) encodes to the specified word and decodes to itself; the "
                "interpreter's Opcode::try_from + dispatch + from_raw_args path equals the general decoder; opcode bytes are pairwise distinct. "
                "Opcode rows, shifts, casts, masks, the shape->pack/unpack/reserved-rule arms and the interpreter dispatch are regenerated from "
                "the Rust source on every check; the remaining control flow is tied by a differential run"),
    level_note=("Trusted: Coq kernel (vm_compute only for closed checks over the ~130 table rows / 9 shapes); the translator; the hand-written "
                "control-flow part of the L1 model (tied by correspondence testing, which is testing); the L3 layout spec Asm/EncodeSpec.v "
                "(arguments MSB first, widths 6/6/12/18/24, unused low bits zero) written from the property text."),
    technique="Coq proof (div/mod/shift/mask arithmetic + induction over the argument layout; finite table checks by vm_compute) + translator + differential model/impl run + exhaustive native sweep (thorough)",
    design_ref="6/C08",
    quick_shards=12,
)
