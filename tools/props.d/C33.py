from props_common import *

PROP = dict(
    title="Contract storage instructions behave like a key-value map",
    family="kv", harness="kv", run_vo="Run/Kv.vo",
    coq_targets=["Vm/KvTie.vo"],
    theorems=["C33_coherent", "C33_coherent_at_transaction_start", "C33_refine", "C33_refine_history", "C33_cache_only_gas",
              "C33_word_read", "C33_word_write", "C33_clear_quads", "C33_read_quads", "C33_write_quads", "C33_clear", "C33_dyn_read", "C33_dyn_write",
              "C33_dyn_update", "C33_preload", "C33_outside_contract"],
    open_statements=[
        "the whole-program statement 'every generated contract program returns what the plain map returns' is proved for the abstract machine "
        "(programs over the three slot operations, Vm/KvSpec.kprog) and for the modelled handlers, NOT for the Rust interpreter: the Rust "
        "handlers are tied to the model by trace validation (every executed storage instruction replayed by the Coq checker) and by the "
        "translator fingerprints of Vm/KvTie.v, which is testing",
        "gas: hot/cold/write/clear/new-byte charges are outputs of the model, validated per instruction against $ggas on the traces; no "
        "theorem about gas other than 'cache on/off changes only hot vs cold' (C33_cache_only_gas)",
        "instructions whose loop count exceeds 65536 are not replayed by the runner (accepted only if they stop without a persistent write)",
    ],
    translators=["kvtable"],
    quick_shards=8, model_timeout=2400,
    trusted_base=[
        "hand-written L1 model coq/Vm/KvModel.v of interpreter/storage.rs (storage_read_slot, storage_slot_len_no_gas, storage_write_slot, "
        "storage_clear_slot_range, storage_read_to_memory, storage_update_from_memory, storage_preload, key_range), MemoryStorage::"
        "contract_state_remove_range and the 13 opcode handlers; tied to the Rust code by trace validation on every run and by the order-of-checks "
        "fingerprints regenerated from the sources (tools/gen_kvtable.py -> Gen/KvTable.v, pinned in Vm/KvTie.v)",
        "the memory and register subsystems enter the model as oracles (what memory.read returns, whether memory.write is admitted, register "
        "index < 16 is reserved); on the traces the oracle tables are filled by asking the real MemoryInstance before the instruction runs "
        "(ownership rule re-implemented in harness/src/kvprobe.rs)",
        "harness/src/kvprobe.rs: single-stepping loop (debugger stepping as in vmtrace) with memory peeks; vmtrace's World/TxSpec/RecStorage",
        "one dead branch of storage_clear_slot_range (the cache loop's own overflow test, unreachable after the range pre-check for 32-byte keys: "
        "KvProofs.cache_clear_total) is modelled as 'TooManySlots without effect'",
    ],
    assumptions=[
        "C33_coherent / C33_refine / C33_cache_only_gas: the starting state is cache-coherent (holds at every transaction start: "
        "C33_coherent_at_transaction_start; satisfiable with a non-empty cache: KvProofs.coherent_nontrivial; needed: KvProofs.stale_cache_differs)",
        "instruction theorems: a contract is executing (h_ctx = Some c), the key pointer is readable, result registers are writable (index >= 16), "
        "the destination is writable / the source readable; the other cases are panics of the memory / register subsystems, which the model "
        "reproduces in the Rust order and the traces validate (examples: KvInstr.example_*)",
        "C33_dyn_update: max_storage_slot_length < 2^64 - 1 (so that the saturating offset + length comparison is exact)",
        "C33_write_quads: the key is a 32-byte value (be_decode kb < 2^256) and every chunk read is 32 bytes long; satisfiable: KvQuads.quads_roundtrip",
    ],
    rule=("histories on one world: 2-4 transactions, each calling 1-4 contracts (contracts may call the next one in the middle of their sequence), every contract "
          "running 6-30 storage instructions over two overlapping key blocks (K..K+7 and 2^256-4..2^256-1): all 13 opcodes, ranges 0-5 (rarely 100..2^64-1), "
          "empty / short / long values, rewrites, append (offset u64::MAX), slot-length limits 16/64/128/1 MiB, faulty pointers and registers at 0-1.2%, "
          "default/unit/random gas schedules, small gas limits; plus vmtrace-generated scenarios (storage feature) run twice on the same world; plus 20 directed "
          "edge histories run on every check (absent slot with unwritable destination, bounds-vs-destination check order, ranges ending exactly at 2^256-1 and one "
          "beyond, partial writes before TooManySlots, counts/lengths/offsets of 2^32, append / gap / limit 16 / limit 64, empty values, reserved result registers). "
          "The first transaction of every history is also traced with vmtrace::trace and must agree step by step with the probing loop. "
          "Each storage instruction = one step (operands, memory oracle tables, outcome, result registers, $err, bytes written, backing-storage calls, gas) "
          "replayed by the L1 model threaded through the whole history; store and slot cache compared after every transaction. "
          "Oracles on the implementation: HashMap reference replay, cache coherence after every instruction, same results (and, with hot cost := cold cost, same gas) with the cache emptied before "
          "every instruction, no contract-state access outside storage instructions. "
          "distinct = distinct history text; non-trivial = >= 5 storage steps, >= 1 persistent write, >= 3 opcodes"),
    level_text=("Machine-checked proof (Coq) over an abstract machine: programs over the three slot operations (read / write / clear range) interpreted on "
                "backing store + in-transaction cache (mirroring interpreter/storage.rs) refine the plain key-value map for ALL programs and all "
                "transaction histories (induction over programs / histories): same results, same final storage, same persistent writes; the cache-coherence "
                "invariant is preserved by every operation; switching the cache off changes only hot-vs-cold gas; each modelled opcode handler computes, on "
                "the plain map, its declarative specification (zero fill and flags when absent, exact writes, interval clears, bounds panics, range overflow at "
                "2^256 -> TooManySlots). The handlers are tied to the Rust interpreter by trace validation on every run"),
    level_note=("Proof over the abstract machine + trace validation, not a proof about the Rust interpreter. Not proved: that the Rust handlers equal the modelled "
                "handlers (validated step by step on generated traces and by source fingerprints); gas accounting; "
                "storage back-ends other than MemoryStorage."),
    technique="Coq refinement proof over an effect DSL (induction over programs and histories) + step-wise trace validation against the real interpreter",
    design_ref="6/C33",
)
