from props_common import *

PROP = dict(
    title="Transaction id commits to exactly the non-malleable content",
    family="txid", harness="txid", run_vo="Run/TxId.vo",
    theorems=["C03_table_closed", "C03_zeroed_is_malleable", "C03_strip_model", "C03_formula", "C03_malleable",
              "C03_malleable_field", "C03_malleable_field_model", "C03_binding_preimage", "C03_binding", "C03_cache",
              "C03_nonvacuous", "C03_strip_preserves_wf", "C03_binding_full"],
    open_statements=[],
    translators=["preparesign"],
    trusted_base=[
        SHA_NOTE,
        "tools/gen_preparesign.py (translator: prepare_sign bodies, id(), cached_id(), precompute(), compute_transaction_id, CommonMetadata::compute -> coq/Gen/PrepareSign.v; raises on any "
        "statement form it does not know; its output must satisfy C03_table_closed and C03_zeroed_is_malleable) and, through it, tools/gen_schemas.py (schemas, also emitted as "
        "harness/src/gen/tx_schema.rs for the path enumeration of the oracle)",
        "canonical-codec family: Codec/CodecModel.v (encoder model), Codec/CodecRoundtrip.v (dec_enc, used for encoder injectivity); its trusted base applies (see C01)",
        "TxId/IdSpec.v: the list of malleable field paths, written from the property text / fuel-specs tx-format notes (change output: amount; variable output: to, amount, asset_id; "
        "contract input: utxo_id, balance_root, state_root, tx_pointer; contract output: balance_root, state_root; coin inputs: tx_pointer; predicate inputs: predicate_gas_used; script: receipts_root; "
        "mint: the same fields of its input_contract / output_contract); the same list is repeated in harness/src/bin/txid.rs for the oracle",
        "hand-written interpreter TxId/IdModel.v of the generated table (Default::default() of a field = all-zero value of its schema type); tied by the correspondence run",
        "neutral value printers harness/src/txval.rs (copy of the codec family's printer)",
    ],
    assumptions=[
        "C03_binding: explicit premise that the hash does not collide on the two preimages named in the statement (satisfiable: C03_nonvacuous uses an injective function); chain ids are u64",
        "C03_binding_full: wfv (typed and wf, the hypothesis of the codec round-trip theorem C01) of the two transactions (C03_strip_preserves_wf carries it to the stripped forms); wf excludes empty predicates / empty message data / policy values of unset bits "
        "(the C01 findings F1-F3), where the encoding itself is not injective",
        "C03_strip_model / C03_formula: the value is typed (a value of the Rust type)",
        "a stale cache (mutating a precomputed transaction through the _mut accessors, or asking a precomputed transaction for its id under another chain id) is documented API behaviour "
        "(`Cacheable::is_computed`: \"true doesn't mean that the cache is actual\") and outside the statement; the oracle counts it as an observation",
    ],
    rule=("transactions of all six kinds (crate defaults; random with 0-4 inputs of all 7 variants, outputs of all 5 variants, witnesses, storage slots, proof sets, all 64 policy masks; byte-vector "
          "lengths 0..17, 255..257) x chain ids {0,1,2^k,u64::MAX,random}; each case: neutral value + tx.id() + precompute result + cached_id() + id() after precompute; the Gallina model "
          "(interpreter of the generated prepare_sign table + canonical encoder + SHA-256) must reproduce the 32 bytes, and the C03 statements are executed on the value. "
          "Oracle on the real code: id == sha2(be8 chain ++ to_bytes(strip_ref(tx))) with strip_ref a schema walk written from the text; EVERY field path of the schema (384 paths; enumerated from "
          "tx_schema.rs, a run fails if one is never reached) mutated in place (xor/random/zero; byte vectors flipped/grown/shrunk; vectors duplicated/popped/swapped; policies set/unset/changed; output "
          "variant switched): malleable or witness => id unchanged, else changed; other chain id => other id; cached id == fresh id, re-precompute refreshes. "
          "distinct = (kind, chain, id); non-trivial = encoding longer than 2 words"),
    level_text=("Machine-checked proof (Coq): the prepare_sign bodies of fuel-tx are extracted on every check into a table; its interpreter is proved to compute, on every typed transaction of the six kinds, "
                "the specification's strip (zero exactly the listed malleable paths, empty the witnesses), so id = H(be8 chain ++ enc(strip tx)) for any H; the set of paths the code zeroes is proved equal "
                "to the specification's set per kind (by name); replacing the value at any malleable path in any element by anything leaves the id unchanged (generic induction over the schema universe, "
                "no hash assumption); different chain id or different non-malleable content gives different preimages (encoder injectivity from the codec round trip) hence different ids under an explicit "
                "collision-freeness premise; the cached id equals the fresh one."),
    level_note=("13 theorems proved, Closed under the global context, nothing open. The caching half rests on the translator's "
                "shape checks of precompute/cached_id/CommonMetadata::compute (pattern match on the source text) plus the correspondence run."),
    technique="Coq proof (table interpreter = path-set specification; generic schema induction for malleability; encoder injectivity) + translator prepare_sign -> table + differential model/impl run + schema-driven mutation oracle",
    design_ref="6/C03",
    quick_shards=8,
)
