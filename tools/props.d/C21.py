from props_common import *

PROP = dict(
    title="Register arithmetic and logic instructions follow the specification",
    family="alu", harness="alu", run_vo="Run/Alu.vo", quick_shards=12,
    theorems=["C21_op", "C21_noop", "C21_pc_and_frame", "C21_pc_plus_4", "C21_reserved", "C21_out_of_gas",
              "C21_mroo", "C21_mlog", "C21_pow", "C21_spec_deterministic"],
    open_statements=[],
    translators=["alutable"],
    trusted_base=[
        "Alu/AluSpec.v: the instruction semantics written from the fuel-specs ISA text (the repository has no spec file); "
        "MLOG/MROO are specified by the inequalities c^r <= b < c^(r+1) and r^c <= b < (r+1)^c",
        "Alu/AluModel.v: hand-written L1 model of alu.rs, alu/muldiv.rs, alu/narrowint.rs, gas_charge, inc_pc, WriteRegKey::new and of "
        "core::num u64::{overflowing_pow, checked_pow, checked_ilog} (transcribed from the Rust core library source); tied by correspondence",
        "tools/gen_alutable.py: translator opcodes_impl.rs -> Gen/AluTable.v (helper kind, operator, operand sources, gas-first, opcode bytes, "
        "enum discriminants, PanicReason bytes, RegId constants); raises on syntax it does not understand",
        "MROO oracle contract: the floating-point starting point f64::powf(b, 1/c) is within one of the true root "
        "(premise of C21_op/C21_mroo; checked on every MROO case of every run against an exact integer root)",
        "gas: the cost of an instruction is an input of the model (its value is property C26); only 'charged first' is modelled",
        "instruction decoding (C08) is not part of the model: cases are built with the fuel_asm::op constructors",
    ],
    assumptions=[
        "register values and immediates are < 2^64 (u64)",
        "C21_op: destination writable (i_ra >= 16; the reserved case is C21_reserved) and cgas >= cost (otherwise C21_out_of_gas)",
        "MROO: floating-point guess within one of the true root (oracle contract, exercised on k^n-1, k^n, k^n+1 on every run)",
    ],
    rule=("single instructions executed on a real fuel_vm Interpreter (with_memory_storage, Interpreter::instruction): for each of the 33 opcodes "
          "boundary-biased operands (opcode-specific: k^n around 2^64 for EXP, c^k±1 for MLOG, k^n±1 for MROO with k at both ends, shifts 62..66 and 2^32±1, "
          "divisor 0/1, b=c±1 for SUB, 2^32±1 products) x flag 0..3 x destinations (all 16 reserved + sampled writable in quick, all 64 in thorough), operands "
          "aliased with the destination / system registers, occasional cgas < cost; NIOP: all 64 immediates; narrow ops over 8-bit operands: 4-row slices per "
          "(op, wrapping) in quick, exhaustive 256x256 for every op x width x wrapping in thorough (compared by SHA-256 of the result stream). "
          "Each case: every register, panic reason and memory compared with the Gallina model; oracle: an independent reference (u128/i128, naive pow, "
          "binary-search root, own big integers) written from the ISA text, plus 'memory unchanged' and 'nothing else changed'. "
          "distinct = (opcode, dst, imm, operands, outcome); non-trivial = destination/of changed or panic"),
    level_text=("Machine-checked proof (Coq) that the L1 model of every register ALU instruction — assembled from the helper shapes that a translator "
                "re-reads from opcodes_impl.rs on every check — computes exactly the result, $of, $err or panic reason of a specification written over Z, "
                "for all operands, immediates, both flags and every destination; that success advances pc by 4 and touches no other register or memory; "
                "that a reserved destination panics with ReservedRegisterNotWritable leaving all non-gas registers unchanged; that the square-and-multiply "
                "pow loops, the ilog loop and the corrected floating-point root are exact. The model is tied to the Rust code by a differential "
                "single-instruction run on the real interpreter on every check"),
    level_note=("Trusted: Coq kernel; the L3 spec file (written from the ISA text from memory of fuel-specs; no spec file in the repository); the hand-written "
                "L1 model incl. the transcription of core::num pow/ilog loops, tied by correspondence testing (testing, not proof); the AluTable translator; "
                "the MROO floating-point oracle contract (within one of the root); instruction decoding and gas amounts are other properties (C08, C26)."),
    technique="Coq proof (model = Z-specification per opcode, frame and reserved-register theorems) + translator-generated opcode table + differential single-step run + independent reference oracle",
    design_ref="6/C21",
)
