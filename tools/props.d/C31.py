from props_common import *

PROP = dict(
    title="Execution is deterministic and independent of VM instance reuse",
    family="reuse", harness="reuse", run_vo="Run/Reuse.vo",
    theorems=["C31_init", "C31_init_vs_fresh", "C31_untouched", "C31_predicate_memory", "C31_transact",
              "C31_panic_context_consumed"],
    open_statements=[
        "C31_transact has the premise step_respects_obs (the interpreter maps indistinguishable states to indistinguishable states / equal "
        "results); for memory operations that is the refinement theorem of C23 (accessible bytes only; bytes newly exposed by heap growth read "
        "zero even in a dirty buffer), for the other handlers it is determinism read off the code; here it is a premise, exercised by the "
        "correspondence run, not proved for the real instruction set",
        "C31_panic_context_consumed has the premise that instructions set the panic context only together with a recoverable panic "
        "(Verifier::check_contract_in_inputs); read off verification.rs, checked at run time through the Debug image of the instance",
        "the debugger's configuration (active flag, single-stepping, breakpoints) is not reset by initialisation and is part of the agreement "
        "premise same_config; its last state IS reset since repair 22c6df9 (finding F9: a session abandoned at a breakpoint made the next "
        "transaction on the instance skip its first debug event) and the premise compares debuggers only up to it; the oracle class "
        "debugger-last-state-not-reset-after-abandoned-session stays as regression detector (corpus cases run first)",
        "AttemptContinue verifier: its list of missing contract inputs accumulates across transactions on one instance (verifier is not "
        "reset); outside the observables named by the property, not compared",
    ],
    translators=[],
    quick_shards=8, search_scale=0.2,
    trusted_base=[
        "hand-written L1 model coq/Vm/ReuseModel.v of the Interpreter struct (all 18 fields), Interpreter::with_storage_and_ecal, "
        "MemoryInstance::{reset, grow_stack, verify, write_noownerchecks}, init_inner / init_script / init_predicate incl. push_stack!, "
        "RuntimeBalances::to_vm, set_gas, append_panic_receipt; tied on every check by comparing the model's post-initialisation state "
        "(64 registers, stack buffer, hp, cleared frames/receipts/slot cache, context) with the real VM's, from a new and from a used instance",
        "everything derived from (transaction, parameters, storage) — id, serialisation, sizes, offsets, owner pointer, balances table — enters "
        "the model as arbitrary functions (record env); the correspondence run supplies the real values",
        "the heap buffer is an arbitrary type (its dirty contents are whatever a previous use left); accessibility is hp <= address",
    ],
    assumptions=[
        "same_config E v1 v2: storage, interpreter_params, panic context, ecal state and verifier agree, debuggers agree up to their last state "
        "(what init does not reset: C31_untouched); satisfied by a used instance with a debugger configured as new, whatever its last state, "
        "vs a new one (C31_init_vs_fresh); Example ReuseExamples.same_config_ignores_last_state",
        "step_respects_obs heap_read step (C31_transact); satisfiable by a non-trivial interpreter: Example ReuseExamples.step_respects_obs_satisfiable",
        "sets_pctx_only_with_panic exec (C31_panic_context_consumed); satisfiable: Example ReuseExamples.sets_pctx_only_with_panic_satisfiable",
    ],
    rule=("DIRECTED pairs first: histories and targets that differ in every per-transaction derived field — 'reader' scripts that log all registers, "
          "the whole initialised memory [0,$ssp), GM selectors, GTF of the last input, BAL, and finally `gm GetOwner` + the 32 bytes it points to — with "
          "1 owner-bearing input (owner pointer set) vs 2-3 (ambiguous: OwnerIsUnknown), with/without a contract input before the coin (pointer elsewhere, "
          "input/output index maps), different assets, amounts, gas limits: single-owner history -> ambiguous target, the converse, pointer-moves, grammar "
          "targets after readers and readers after grammar histories; oracle additionally compares owner_ptr, context, input_contracts, "
          "input_contracts_index_to_output_index, frames, panic_context, initial_balances right after initialisation (new vs used instance; from the Debug "
          "image) and owner_ptr against the specification's rule re-implemented in the harness; Coq: init_script must also reproduce owner_ptr and "
          "input_contracts from the dirty pre-state (owner_ptr = Some garbage). THEN cases = (history of 1-5 earlier transactions on ONE Interpreter and ONE Transactor, target transaction): histories mix grammar scenarios "
          "with their contracts (warm storage-slot caches), garbage programs, scripts that leave a dirty heap of up to ~1 MB and a dirty stack of up to "
          "~120 KB (0xFF words every 512 bytes), ending by return / revert / panic / out of gas, and the target itself; target = vmtrace grammar "
          "scenario (0-3 contracts; default, unit and randomised schedules); the target runs on a new interpreter over a copy of the storage the history "
          "produced, on the reused interpreter and on the reused transactor; oracle: identical ProgramState/error, receipts, resulting transaction "
          "(outputs, receipts root), storage image, final registers, accessible memory; post-initialisation registers/stack/hp equal; a second new "
          "instance agrees (determinism); panic context None between transactions; predicates (1-3 per transaction; programs comparing whole freshly "
          "exposed heap and stack regions with MEQ and leaving dirt behind) estimated and checked with new memory, one dirty memory reused across "
          "checks, dirty memories from the history, and a recycling VmMemoryPool through check_predicates_async: verdicts and gas identical; "
          "corpus first: 3 (+2 random) abandoned-debug-session cases (finding F9, repaired by 22c6df9: breakpoint at script offset 0, session abandoned, "
          "same transaction again must return the same ProgramState as on a new instance); Coq: the Gallina init_script reproduces the real post-initialisation snapshot from "
          "the new and from the used pre-state; distinct = distinct (tx id, history kinds); non-trivial = non-empty history and >= 2 receipts"),
    level_text=("Machine-checked proof (Coq) over a field-by-field model of the Interpreter instance and of init_script / init_predicate: from ANY two "
                "instances (arbitrary registers, memory buffers of any size and content, frames, receipts, balances, context, caches) that agree on the "
                "fields initialisation does not reset (debuggers up to their last state, which it forgets), a transaction initialises to indistinguishable states (every field equal; memory equal where "
                "accessible) or fails with the same error; predicates initialise identically over any supplied memory (new, reused, pooled); hence, for "
                "any step function that respects observations, the transaction's result is the same on a new and on a reused instance, for all "
                "programs (induction on the run). The model's initialisation is compared with the real VM's post-initialisation state on every check"),
    level_note=("Trusted: Coq kernel; hand-written model tied by correspondence testing (testing, not proof); harness. The step function is a parameter: "
                "that the real handlers respect observations is C23 (memory) plus determinism of the code, a premise here. Storage equality is an input "
                "(the harness copies the storage). Finding F9 (Debugger::last_state survived init_script) is repaired in /repo by 22c6df9; model and "
                "harness follow the repaired code, the oracle class debugger-last-state-not-reset-after-abandoned-session remains as regression detector."),
    technique="Coq proof (relational: initialisation from two arbitrary instances, then simulation under an observation-respecting step) + differential fresh/reused runs",
    design_ref="6/C31",
)
