from props_common import *

PROP = dict(
    title="Serde formats round-trip protocol types and consensus parameters",
    family="serde", harness="serde", run_vo="Run/Serde.vo",
    theorems=["C06_policies_seq", "C06_policies_map", "C06_policies_exact", "C06_set_preserves_wfp", "C06_builders_wfp",
              "C06_policies_roundtrip_refuted", "C06_deserialized_policies_stable", "C06_bytes", "C06_arrays",
              "C06_derive_roundtrip", "C06_transaction_roundtrip", "C06_checksum_sound", "C06_checksum_commit",
              "C06_checksum_noncanonical"],
    open_statements=[
        "byte level (partial, correspondence only): that serde_json / postcard / bincode transport the data-model tree faithfully "
        "(to_* then from_* drives the Deserialize impl with the tree the Serialize impl emitted) is a third-party-library contract, not modelled; "
        "exercised on every run by real round trips in all three formats",
        "C06_checksum_commit has the postcard codec contract (from_bytes(to_allocvec(cp)) = cp) as an explicit premise (oracle); "
        "byte reproducibility of the payload is derived from it for payloads produced by upgrade_consensus_parameters only",
        "bitflags text form of PoliciesBits for bit patterns >= 64 (unknown bits) in human-readable formats: premise bits_text_ok of "
        "C06_policies_exact; proved by a finite sweep for the 64 valid masks only",
        "derived impls of ConsensusParameters / GasCostsValues V1..V7 / Receipt are covered by the generic theorem C06_derive_roundtrip "
        "but their schemas are not written out in Serde/RepoSchemas.v (only Transaction and its components, DependentCost, FeeParameters are): "
        "for those types the tie is the implementation-level round-trip oracle only",
    ],
    translators=[],
    quick_shards=12,
    trusted_base=[
        "hand-written L1 model coq/Serde/PoliciesModel.v of the Serialize/Deserialize impls in policies.rs (incl. bitflags' serde of PoliciesBits), "
        "bytes.rs and array_types.rs; tied on every run by comparing the tree a recording Serializer receives from the real impl with ser_policies, "
        "and the result of the real Deserialize impl driven by a tree Deserializer (well-formed and ~50 kinds of malformed trees) with de_policies",
        "coq/Serde/DeriveModel.v: model of what #[derive(Serialize, Deserialize)] generates (skip, transparent); coq/Serde/RepoSchemas.v: hand-written "
        "schemas of Transaction (all kinds/variants); both tied by the recorded trees of generated transactions",
        "coq/Serde/UpgradeModel.v: model of UpgradeMetadata::compute / upgrade_consensus_parameters / the consumer in upgrade_inner; the hash is a "
        "Section variable (executable instance Base/Sha256.v in the run), postcard is an oracle (per case: did from_bytes succeed)",
        "harness/src/c06_tree.rs: recording Serializer and tree Deserializer (the 'reference transports' positional/named x readable/binary)",
        "third-party: serde, serde_json, postcard, bincode, bitflags (byte formats and text form not modelled)",
        SHA_NOTE,
    ],
    assumptions=[
        "ty_ok p: Rust type invariant of Policies (bits < 2^32, six values < 2^64)",
        "wfp p: values of unset bits are 0 (kept by new/set: C06_set_preserves_wfp, C06_builders_wfp; violable through Deserialize+set: "
        "C06_policies_roundtrip_refuted). Satisfiable: Example ex_policies_ok",
        "wf_sty t: field / variant names of a schema are distinct (checked for the repository schemas: repo_schemas_wf); "
        "has_sty: the value has the schema's type (Example ex_values_typed)",
        "codec_contract (C06_checksum_commit): postcard decodes what it encoded (satisfiable: toy_contract)",
    ],
    rule=("Policies: all 64 masks x boundary/random values (max, 0, biased), set-then-unset, values under unset bits (legacy Deserialize then set), "
          "unknown bits; for each the tree of the real Serialize (binary and human-readable) vs ser_policies and the real Deserialize (positional and "
          "named transport) vs de_policies; ~50 tree mutations x 4 transport modes (field order, duplicates, missing, wrong lengths, tuple/seq swap, "
          "bits text variants) vs de_policies incl. error kinds; recorded trees of generated transactions of all 6 kinds / all input and output variants "
          "vs the generic derive model; UpgradeMetadata::compute on built and mutated upgrade transactions (checksum by Gallina SHA-256); "
          "oracle: serde_json to_string/from_str, postcard to_allocvec/from_bytes (+ byte reproducibility), bincode serialize/deserialize and the four tree "
          "transports on transactions (generated + TransactionFactory), all 13 receipt kinds, Policies, every ConsensusParameters (V1,V2) x GasCostsValues (V1..V7) "
          "version with numeric leaves set to 0/1/type-max/random through a structure-aware JSON mutator, DependentCost; equality by PartialEq AND by "
          "re-serialized bytes; distinct = distinct case text; non-trivial = not the all-zero value"),
    level_text=("Machine-checked proof (Coq) at the serde data-model level: the hand-written Policies impl round-trips through both visitor paths "
                "(visit_seq / visit_map) for all 64 masks and arbitrary values, with the exact characterisation (iff) of the values that survive; "
                "the public setters keep the representation invariant; Bytes and key arrays round-trip; derived impls round-trip generically "
                "(mutual induction over a schema universe with skip/transparent), instantiated to the recorded Transaction schema; the upgrade "
                "checksum is computed over the same witness bytes that are decoded, and parameters committed by upgrade_consensus_parameters come back "
                "with a reproducible payload under the postcard contract. Byte formats: correspondence/oracle only (partial)."),
    level_note=("Finding (oracle class policies-nonzero-value-under-unset-bit-compact-layout): a Policies value obtained by the legacy-layout Deserialize "
                "(which copies four values without checking the bits) followed by set(Expiration|Owner) does not survive any of the three formats. "
                "Observations recorded as notes, not violations: UpgradeMetadata::compute accepts non-canonical witnesses (trailing bytes); "
                "bincode::deserialize_from fails on every type containing fuel_types::Bytes (BytesVisitor lacks visit_bytes)."),
    technique="Coq proof over a data-model tree semantics + recording Serializer / tree Deserializer differential run + real-format round-trip oracle",
    design_ref="6/C06",
)
