from props_common import *

PROP = dict(
    title="Binary Merkle proofs are complete and sound",
    family="bmt", harness="bmt", run_vo="Run/Bmt.vo",
    theorems=["C10_path_recomputes_root"],
    open_statements=[
        "C10_verify_iff_statement: verify(root,data,proof,i,n) = true <-> RFC recomputation reaches root, for all tuples (L1 verify loop vs recursive RFC definition) — not yet proved; exercised by the correspondence run (model verify == Rust verify) and the oracle (Rust verify == independent RFC recomputation) on all (n,i) pairs for small n and structured mutations",
        "C10_prove_is_PATH_statement: tree_prove = (MTH, RFC PATH) for the storage-backed tree — not yet proved; exercised by correspondence + oracle",
    ],
    translators=[],
    trusted_base=[SHA_NOTE,
                  "model of verify.rs / merkle_tree.rs prove / position_path.rs in Merkle/BinaryModel.v (hand-written, tied by correspondence)"],
    assumptions=["no hash assumption in the proved statement; soundness corollaries (accepted tuple => membership) would need collision-freeness as a premise"],
    rule=("prove(i) for every (n, i<=n) with n <= 18 quick / 64 thorough plus sampled larger trees; verify on structured mutations of valid proofs "
          "(drop/append/swap/flip element, index±1, count±1, other counts, data/root changed, random index/count) and boundary tuples; "
          "each case: Rust result vs Gallina L1 model; oracle: Rust prove == RFC PATH written independently in the harness, Rust verify verdict == RFC recomputation; "
          "distinct = (kind,n,i,proof length,verdict); non-trivial = n >= 2"),
    level_text=("Machine-checked proof (Coq) at the specification level that the RFC 6962 audit path recomputes the tree hash for every tree and index; the two "
                "statements linking the Rust algorithms (iterative verify loop, position-path based prove) to that specification are stated in Coq but still open, "
                "and are covered on every run by the model/implementation correspondence and by an implementation-level oracle against an independent RFC recursion"),
    level_note=("Proved: spec-level completeness only. Open: C10_verify_iff_statement, C10_prove_is_PATH_statement (listed in evidence open_statements). "
                "Trusted: Coq kernel, hand-written L1 model tied by differential testing, harness oracle, SHA-256 instance."),
    technique="Coq proof (spec-level completeness) + differential model/impl run + independent RFC 6962 oracle",
    design_ref="6/C10",
)
