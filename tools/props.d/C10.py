from props_common import *

PROP = dict(
    title="Binary Merkle proofs are complete and sound",
    family="bmt", harness="bmt", run_vo="Run/Bmt.vo",
    theorems=["C10_path_recomputes_root", "C10_verify_iff", "C10_complete", "C10_sound",
              "C10_prove_is_PATH", "C10_prove_is_PATH_any_state", "C10_sides_all",
              "C10_prove_is_PATH_given_sides", "C10_sides_checked", "C10_prove_is_PATH_partial"],
    open_statements=[],
    translators=[],
    trusted_base=[SHA_NOTE,
                  "model of verify.rs / merkle_tree.rs prove / position_path.rs in Merkle/BinaryModel.v (hand-written, tied by correspondence)",
                  "vm_compute inside the proof of C10_sides_checked only (finite sweep, bound stated in that theorem; the full theorems do not depend on it)"],
    assumptions=["num_leaves < 2^64, i.e. every u64 count (C10_verify_iff, C10_complete, C10_sound); the shift overflow of verify.rs for num_leaves >= 2^63 found while proving C10_verify_iff was repaired by fix commit 8940979, model and code agree on the whole u64 range", "C10_prove_is_PATH / C10_prove_is_PATH_any_state: fewer than 2^63 leaves (the limit enforced by MerkleTree::push); any_state: tree invariant tinv (established by every history of pushes/resets/reloads)", "C10_sound: injectivity of the node hash (collision-freeness) as an explicit premise; no hash assumption in the other theorems"],
    rule=("prove(i) for every (n, i<=n) with n <= 18 quick / 64 thorough plus sampled larger trees; verify on structured mutations of valid proofs "
          "(drop/append/swap/flip element, index±1, count±1, other counts, data/root changed, random index/count) and boundary tuples; "
          "each case: Rust result vs Gallina L1 model; oracle: Rust prove == RFC PATH written independently in the harness, Rust verify verdict == RFC recomputation; "
          "distinct = (kind,n,i,proof length,verdict); non-trivial = n >= 2"),
    level_text=("Machine-checked proof (Coq), no size bound other than the u64 / 2^63 limits of the code: (1) the model of the verifier (path_length_from_key + the three-phase loop of "
                "verify.rs) accepts a tuple exactly when the RFC 6962 recomputation from the same tuple reaches the root, for all proof sets, indices and every u64 leaf count; hence it "
                "accepts every RFC audit path (completeness) and, with an injective node hash as explicit premise, an accepted tuple proves membership at that index (soundness); "
                "(2) MerkleTree::prove of the storage-backed tree (position_path + scratch/storage lookups) returns the RFC tree hash and the RFC audit path for every index of every "
                "tree below 2^63 leaves, in every state reachable by pushes/resets/reloads. The model is tied to the Rust code on every run by the model/implementation correspondence "
                "and an implementation-level oracle against an independent RFC recursion"),
    level_note=("Proved: C10_verify_iff (all tuples, n < 2^64), C10_complete, C10_sound, C10_prove_is_PATH (all trees < 2^63 leaves), C10_prove_is_PATH_any_state, C10_sides_all, spec-level "
                "C10_path_recomputes_root; earlier partial results kept. Nothing open. Trusted: Coq kernel, hand-written L1 model tied by differential testing, harness oracle, SHA-256 instance."),
    technique="Coq proof (verifier = RFC recomputation, completeness, soundness; prove = RFC audit path) + differential model/impl run + independent RFC 6962 oracle",
    design_ref="6/C10",
)
