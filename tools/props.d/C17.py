from props_common import *
import importlib.util, os
_spec = importlib.util.spec_from_file_location("props_d_C16_for_C17", os.path.join(os.path.dirname(os.path.abspath(__file__)), "C16.py"))
_m = importlib.util.module_from_spec(_spec); _spec.loader.exec_module(_m)

PROP = dict(
    title="Signing, recovery and verification are mutually consistent",
    family="ecdsa", harness="ecdsa", run_vo="Run/Ecdsa.vo",
    coq_targets=["Crypto/EcdsaToy.vo"],
    quick_shards=16,
    theorems=["C17_sign_recover", "C17_sign_verify", "C17_normalised", "C17_binding", "C17_message_plus_n",
              "C17_recover_verify", "C17_normalising_recover_same_on_low_s", "C17_other_message_refuted",
              "C17_vm_outcome_independent_of_err", "C17_vm_reports_library"],
    open_statements=[
        "C17_other_message_full_statement (a signature fails to recover the signer's key for ANY other 32-byte message) is REFUTED: "
        "C17_other_message_refuted, m' = m + n (known finding F6, classes message-plus-n-same-key / r1-message-plus-n-same-key; inherent to ECDSA, the digest enters only modulo n). Proved instead: C17_binding (same key => messages congruent mod n)",
        "the nonce is an explicit argument: RFC 6979 derivation (and therefore the exact signature bytes) is not modelled; valid_nonce excludes R = infinity, r = 0, s = 0 "
        "and x(kG) >= n (on the last the Rust code would hit `expect(\"reduced-x recovery ids are never generated\")`; probability ~2^-128, no witness known)",
        "Ed25519: verification is an oracle (ed25519-dalek verify_strict IS the reference); only the implementation-level oracle checks fuel_crypto::ed25519::verify "
        "against it on valid / mutated / small-order / non-canonical inputs. An executable RFC 8032 model (needs SHA-512) is a growth item",
        "VM instructions ECK1 / ECR1 / ED19: Crypto/VmCryptoModel.v models only the handlers' set_err / clear_err / write-output logic with the library call as an oracle "
        "(C17_vm_outcome_independent_of_err, C17_vm_reports_library); it is tied to the real interpreter by multi-instruction scripts (every ordered pair of failing / succeeding "
        "ECK1, ECR1, ED19 and $err pre-set by another instruction, plus random longer sequences; $err and the 64 output bytes logged after each op). Memory ownership checks, "
        "gas and the ED19 msg_len = 0 rule are outside this model (oracle only)",
        "secp256r1: covered by the same abstract theorems (rules_p256 satisfies accepts_low_s); p256 rule set tied by differential run against the p256 crate",
    ],
    translators=[],
    trusted_base=[_m.ECDSA_GROUP_NOTE, _m.ECDSA_EXEC_NOTE,
                  "n < 2^256 (premise of the format theorems; true for both curves)",
                  "hand-written L1 model of signature_format.rs and of the three back-ends in Crypto/EcdsaModel.v, tied by correspondence",
                  "ed25519-dalek (reference for Ed25519), p256 / k256 / secp256k1 crates"],
    assumptions=["group_laws for the abstract group (explicit premise)", "valid nonce (explicit premise)",
                 "rule set accepts normalised signatures (accepts_low_s; proved for the libsecp256k1, k256 and p256 rule sets)"],
    rule=("secp256k1: sign with the public API for random / boundary keys and messages (random, SHA-256 digests, small integers); check normalisation, recover = signer, "
          "verify ok, also on the k256 back-end; other messages (random, one bit changed, m +- n) must not recover the signer; all 512 single-bit flips of some signatures. "
          "secp256r1: sign_prehashed -> recover round trips, other messages, malformed signatures against the p256 crate used directly. Ed25519: valid, bit-flipped (sig / key / msg), "
          "S+L, small-order keys and R, random inputs vs verify_strict. VM: ECK1 / ECR1 / ED19 scripts on MemoryClient with the same inputs, single and in SEQUENCES inside one script "
          "(all 42 ordered pairs first in {failing ECK1/ECR1/ED19, $err pre-set by DIV-by-zero under F_UNSAFEMATH, succeeding ECK1/ECR1/ED19} x second in {succeeding/failing ECK1/ECR1/ED19}, "
          "random sequences of 3-7 ops): after every op $err = 0 iff the library call on that op's inputs succeeds and the output is the key / 64 zero bytes, whatever came before "
          "(classes vm-crypto-instruction-err-flag-depends-on-history, vm-crypto-instruction-output-depends-on-history). Model cases: the sequences (handler model fed with the library results), sign consistency "
          "(recover(sig) = d.G computed by the model, low s), public keys, recover on malformed inputs, the F6 pair, r1 recover, remove_recovery_id. "
          "distinct = (kind, inputs); non-trivial = group computation reached"),
    level_text=("Machine-checked proof (Coq) over an abstract prime-order group: for every key, message and valid nonce the produced 64-byte signature is normalised "
                "(s <= n/2 < 2^255, so the parity bit position is free and decode(encode) is the identity), recovers exactly d.G and verifies against it under the rule sets of "
                "all three back-ends; a recovered key always satisfies textbook ECDSA validity; the same key for two messages forces the messages to be congruent mod n, "
                "and m + n is indistinguishable from m (concrete refutation of the unqualified 'any other message' clause, F6). Tied to the Rust code by a differential run"),
    level_note=("Partial: Ed25519 is implementation-level oracle only (the library is the reference); the VM-instruction half has a Coq model of the handlers' flag/output logic only "
                "(library result as oracle), tied by single-op and multi-op scripts on the real interpreter; RFC 6979 nonces not modelled; group laws, "
                "primality of n are premises. Known findings replayed on every run (inherent to ECDSA, F6): message-plus-n-same-key, r1-message-plus-n-same-key."),
    technique="Coq proof over an abstract group + differential run (public API, both k1 back-ends, p256, ed25519-dalek, real interpreter) vs executable model",
    design_ref="6/C17",
    model_timeout=1500, coqchk_timeout=900,
)
