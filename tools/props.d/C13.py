from props_common import *

PROP = dict(
    title="Sparse Merkle state persists completely in its node storage",
    family="smt", harness="smt", run_vo="Run/Smt.vo",
    theorems=["C13_inv_preserved", "C13_reload_same", "C13_reload_transparent", "C13_load_empty", "C13_load_missing", "C13_nodes_from_set"],
    open_statements=[],
    translators=[],
    quick_shards=8,
    trusted_base=[SHA_NOTE,
                  "hand-written L1 model Merkle/SparseModel.v (hash-addressed node store, StorageNode child lookup, path_set, update/delete with their storage "
                  "inserts and removes, load), tied to the code by the correspondence run (roots, proofs, error kinds and final storage size)",
                  "the storage back-end is modelled as a finite map (StorageMap = HashMap); host storage errors are not modelled"],
    assumptions=["C13_inv_preserved, C13_reload_same, C13_reload_transparent: the premises bundled in smt_iface incl. collision-freeness hash_ok of the hash functions (explicit premise; satisfiable: Merkle/SparseInst.v lb_iface)",
                 "C13_load_empty, C13_load_missing: digest equality is decidable"],
    rule=("histories (<= 60 ops, adversarial key pools as C12) with reloads (into_storage + MerkleTree::load at the current root) sprinkled in, trees started from "
          "from_set and from the node list of nodes_from_set, load at the empty root, load at absent roots, storage with the root node / an inner node removed or a "
          "primitive with an invalid prefix (expected: LoadError / ChildNotFound / DeserializeError, never a wrong answer); model compared on roots, proofs, error kinds, "
          "storage size; oracle: the reload placed at EVERY index of every history and the continued tree compared (roots after every op, final proofs) with the "
          "never-reloaded tree; distinct = distinct (length, final result); non-trivial = at least 2 distinct keys and 3 operations"),
    level_text=("Machine-checked proof (Coq) on the model of the Rust code that the storage invariant 'every node of the tree is in the node store under its digest with its "
                "primitive' is preserved by every insert, delete and reload of every history (in particular removing stale nodes never removes a reachable node: distinct "
                "positions have distinct digests under collision-freeness), that loading at the current root returns the identical tree (so a reload at ANY point of a history "
                "changes nothing: C13_reload_transparent), that loading at the empty root gives the empty tree and loading at a missing root gives LoadError; the model is tied "
                "to the Rust code by a differential run with reloads and storage tampering on every check"),
    level_note=("Trusted: Coq kernel; hand-written L1 model tied by correspondence testing (testing, not proof); harness. The reload-at-every-index comparison on the real "
                "code is testing and is reported as such."),
    technique="Coq proof on the L1 storage model + differential model/impl run with reload at every history index",
    design_ref="6/C13",
)
