from props_common import *

PROP = dict(
    title="Assets are conserved by every script execution",
    family="assets", harness="assets", run_vo="Run/Assets.vo",
    theorems=["C27_step", "C27_receipt_matches", "C27_run_receipts", "C27_ledger", "C27_ledger_nonvacuous",
              "C27_change_unique_needed_refuted", "C27_mem_table", "C27_mem_table_sub", "C27_failed"],
    open_statements=[
        "The theorems are about the abstract asset machine Vm/AssetModel.v (the functions of balances.rs, contract.rs, the coin part of "
        "prepare_call, mint/burn/message_output, update_outputs, initial_free_balances, MemoryClient commit/revert), NOT about a Gallina model "
        "of the whole interpreter: that an executed program is a sequence of exactly these operations, that no other instruction touches a "
        "free balance, a contract balance or the table area of memory, and that operands / contexts are what the harness reads from registers "
        "and memory, is established per run by trace validation and by the harness oracle (testing, not proof)",
        "C27_ledger takes the refund as an input with refund <= max_fee (refund_fee = max_fee.checked_sub(used_fee), C18) and the validity "
        "facts 'at most one change output per asset' (C19; C27_change_unique_needed_refuted shows it cannot be dropped) and "
        "'initial_free_balances succeeds' (the transaction is Checked)",
        "gas charged for new balance entries, operand memory faults, receipt-list capacity and call-frame construction are not modelled: "
        "panics they cause are accepted by the checker only from a per-opcode allow-list and are counted in the evidence (env panics)",
        "asset ids of MINT/BURN (SHA-256(contract || sub id)) are taken from the implementation (table per case); identifiers are abstracted "
        "to their rank inside a case (order-preserving, injective)",
    ],
    translators=["assettable"],
    quick_shards=8,
    trusted_base=[
        "tools/gen_assettable.py (panic reason bytes, table offset / entry size, MAX_RECEIPTS; pins the normalised text of 40 fragments of the "
        "mirrored Rust functions so that an edit of the mechanism is a broken tie)",
        "hand-written L1 model Vm/AssetModel.v (tied by trace validation on every run: every executed TR/TRO/CALL/MINT/BURN/SMO step, the final "
        "outputs, the final MemoryClient storage and the memory table must be reproduced)",
        "Vm/AssetSpec.v: ledger equation and 'movement' written from the property text",
        "harness/src/vmtrace.rs (single stepping through the crate's debugger, recording storage) and harness/src/vmfin/mod.rs (second single-stepped "
        "run that reads operands and the balance table from VM memory; MemoryClient run on a committed copy of the storage)",
        "the VM's internal RuntimeBalances map is private: 'memory table = internal balances' is observed indirectly (the model's internal "
        "balances decide NotEnoughBalance and the change outputs, and both are compared with the implementation)",
    ],
    assumptions=[
        "refund <= max_fee; change_unique outs (both checked on every trace; satisfiable: C27_ledger_nonvacuous; needed: C27_change_unique_needed_refuted)",
        "execute ... = Some f: the transaction passes initial_free_balances / RuntimeBalances::try_from and update_outputs does not overflow "
        "(Checked<Script>; the real interpreter reports Bug::UncomputableRefund otherwise)",
    ],
    rule=("two streams: (i) vmtrace's program generator (scripts + up to 3 contracts, nested calls with coin forwarding, TR/TRO/MINT/BURN/SMO, "
          "reverts, faults, random gas schedules, gas prices and max fees) and (ii) hand-assembled boundary programs (amounts 0, balance, balance+-1, "
          "2^63, 2^64-1-balance, 2^64-1; contract balances near 2^64; duplicate / missing / non-variable output indices; message-coin and "
          "message-data inputs; missing change outputs; coin outputs; contract not in inputs; reverts and panics in script and callee). Each trace: "
          "Coq replays the machine over every asset step and the finalisation and evaluates the ledger equation on the model's result and on the "
          "observed data; the harness oracle recomputes the equation in u128 and checks receipt amount = observed balance delta per step. "
          "distinct = distinct (asset-step kinds and outcomes, result, #inputs, #outputs); non-trivial = at least one asset step"),
    level_text=("Machine-checked proof (Coq) over an abstract asset machine mirroring RuntimeBalances, the contract balance functions, TR/TRO/CALL "
                "forwarding/MINT/BURN/SMO, initial_free_balances, update_outputs and the MemoryClient rollback: every operation is a movement of "
                "exactly its receipt's amount and preserves the per-asset total; hence, by induction over ALL operation sequences with a panic at "
                "any point and every ending, the per-asset ledger equation of the property holds at finalisation (success, revert, panic), and the "
                "balance table in memory equals the internal free balances after every operation. Tied to the Rust code by a pinned translator "
                "and by trace validation of every generated execution"),
    level_note=("Proof over the abstract machine + trace validation: the full interpreter is not modelled opcode by opcode. Trusted: Coq kernel; "
                "that executions of the real interpreter decompose into the machine's operations (validated per trace, testing); the harness. "
                "Gas for new storage entries, memory faults, receipt capacity and frame construction are environment panics for this model."),
    technique="Coq proof (invariant + induction over operation sequences, linear arithmetic over N) + pinned translator + trace validation + u128 oracle",
    design_ref="6/C27",
)
