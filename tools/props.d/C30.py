from props_common import *

PROP = dict(
    title="Execution touches only the state of contracts listed as inputs",
    family="inputs", harness="inputs", run_vo="Run/Inputs.vo",
    coq_targets=["Vm/InputsTie.vo"],
    theorems=["C30_guarded", "C30_guarded_accesses", "C30_current", "C30_touch_inputs_fixed", "C30_touch_inputs_partial",
              "C30_no_foreign_state", "C30_touch_inputs_refuted", "C30_predicate", "C30_predicate_gate"],
    open_statements=[
        "KNOWN FINDING (known_findings.json, class call-reads-code-size-of-contract-not-in-inputs): 'every contract-state access concerns an input contract' is not open but REFUTED for the order of checks of the unchanged code "
        "(C30_touch_inputs_refuted; finding: prepare_call reads contract_size(call.to()) before check_contract_in_inputs, reproduced on the "
        "real interpreter on every run by the oracle class call-reads-code-size-of-contract-not-in-inputs). Proved instead: "
        "C30_touch_inputs_partial / C30_no_foreign_state (everything except that code-size read; no slot, no balance, no write outside the "
        "inputs) and C30_touch_inputs_fixed (full statement with the check moved to the front of CALL)",
        "the statements are about the abstract machine (instruction classes with their guards); that the Rust handlers make exactly the accesses "
        "and checks of their class is established by trace validation with a recording storage on generated programs and by the source "
        "fingerprints of Vm/InputsTie.v, which is testing",
        "AttemptContinue verifier, ECAL handlers and storage back-ends other than MemoryStorage are out of scope (the property is about the default verifier)",
    ],
    translators=["kvtable"],
    quick_shards=8,
    trusted_base=[
        "hand-written abstract machine coq/Vm/InputsModel.v: per instruction class, the contract-state accesses made before the guard, the guard "
        "(check_contract_in_inputs / internal_contract / predicate gate), the accesses behind it, and the call-stack effect; tied to the Rust code by "
        "trace validation (every contract-table access of every executed step must be allowed by the model for that opcode, target and context; "
        "outcomes must agree with the guard) and by the order-of-checks fingerprints regenerated from the sources (Gen/KvTable.v, pinned in Vm/InputsTie.v)",
        "tools/gen_kvtable.py: parses Opcode::is_predicate_allowed, the predicate gate of instruction_inner, Normal::check_contract_in_inputs, "
        "input_contracts initialisation and checks body by body that PredicateStorage refuses every operation on contract tables",
        "harness/src/kvprobe.rs single-stepping loop; vmtrace's RecStorage (records every StorageInspect/Read/Write/Mutate/Size call and "
        "contract_state_remove_range), World/TxSpec/assembler/gen_scenario",
        "completeness of the instruction classification (that no other opcode touches contract tables) is checked on traces only: a contract-table "
        "access in a step of an unclassified opcode is reported",
    ],
    assumptions=[
        "frames_ok s: every contract on the call stack is an input; holds initially (empty stack) and is preserved (C30_current); "
        "satisfiable with a non-empty stack: InputsProofs.example_state_ok",
    ],
    rule=("script transactions on worlds with contracts that are inputs, contracts deployed but not listed, and undeployed ids: scripts and contracts "
          "CALL / LDC (modes 0,1,2) / CCP / CSIZ / CROO / BAL / TR aimed at all three kinds (0-30% risky targets, some through unreadable pointers), TRO, MINT, BURN, SMO and "
          "storage instructions inside and outside contracts; plus vmtrace-generated scenarios with a listed callee removed from the inputs in 1/3 of them; plus two "
          "deterministic witnesses of the known finding (CALL of a deployed-but-unlisted contract, CALL of an undeployed id). Every transaction is also traced with "
          "vmtrace::trace and must agree step by step with the probing loop. "
          "Each step that is a contract-related instruction or made a contract-table access: opcode, call stack before/after, named id (read from VM memory "
          "before execution), outcome, accesses (table, id, read/write) from RecStorage. "
          "Predicates: 35 probe instructions (every contract class, LDC modes, allowed controls) through check_predicates and estimate_predicates with a recording storage. "
          "Oracle: direct scan of every storage event (id must be an input), active contract must be an input, predicates refuse contract instructions. "
          "distinct = distinct trace text; non-trivial = >= 2 contract-table accesses and >= 2 contract opcodes"),
    level_text=("Machine-checked proof (Coq) over an abstract machine (set of input ids + call stack + predicate flag; every contract-state-touching instruction "
                "class with the guard the Rust code applies): a passing guard implies the named contract is an input; every access behind a guard concerns an input; "
                "the active contract is always an input over all call/return sequences; predicate context admits no contract access (gate generated from "
                "Opcode::is_predicate_allowed). The full statement is proved for the order 'check first' and REFUTED for the order of the unchanged code (CALL reads the "
                "callee's code size before the check); tie to the Rust interpreter by trace validation with a recording storage on every run"),
    level_note=("Proof over the abstract machine + trace validation, not a proof about the Rust interpreter. One genuine finding on the unchanged tree: "
                "CALL probes ContractsRawCode size of a contract that is not an input (leaks existence / size through the panic reason and the gas used)."),
    technique="Coq invariant proof over an abstract guard machine + step-wise trace validation with a recording InterpreterStorage",
    design_ref="6/C30",
)
