from props_common import *

CODEC_TRUSTED = [
    "tools/gen_schemas.py (translator Rust derive items -> coq/Gen/Schemas.v; cross-checked on every run: a mis-parsed schema produces bytes that differ from the Rust encoder; "
    "the proof obligation C01_schemas_ok re-checks distinct discriminants / Vec element sizes / the Input component shapes / Transaction prefixes on its output)",
    "hand-written L1 model Codec/CodecModel.v of canonical.rs (primitives, Vec, arrays, alignment, saturation, VEC_DECODE_LIMIT), of the code fuel-derive generates "
    "(struct/enum/prefix/skip, modelled generically over the schema universe) and of the hand-written impls for Policies, Input (InputRepr + CoinFull/FullMessage dispatch on "
    "capacity()==0), Transaction (discriminant peek) and input::Empty<T>; tied by the correspondence run on every check and pinned to the source text by SHA-256 "
    "(gen_schemas.py EXPECTED_PINS: a change of any hand-modelled impl makes the translator fail = broken tie)",
    "64-bit target (usize = u64); Vec::with_capacity(n).capacity() == n for non-zero-sized element types",
    "neutral value printers (impl Proto::to_val) in harness/src/bin/codec.rs: one entry per declared field in declaration order",
    "Coq primitive 63-bit integers (Uint63) are used ONLY in coq/Run/Codec.v to write compact byte-string literals in generated case files; no theorem depends on them",
]

PROP = dict(
    title="Canonical encoding round-trips and reports its own size",
    family="codec", thorough_scale=0.3, model_workers=6, harness="codec", run_vo="Run/Codec.vo",
    theorems=["C01_schemas_ok", "C01_size", "C01_size_exact", "C01_aligned", "C01_roundtrip", "C01_exempt",
              "C01_exempt_nothing_else", "C01_erase_id", "C01_nonvacuous",
              "C01_refuted_empty_predicate", "C01_refuted_empty_data", "C01_refuted_maturity", "C01_refuted_expiration",
              "C01_refuted_unset_nonzero", "C01_refuted_above_limit", "C01_refuted_tx", "C01_refuted_unknown_policy_bits"],
    open_statements=[],
    translators=["schemas"],
    trusted_base=CODEC_TRUSTED,
    assumptions=[
        "C01_roundtrip holds under the boolean hypothesis wf (each conjunct has a C01_refuted_* witness that the harness replays on the real code): every vector at most "
        "VEC_DECODE_LIMIT long; Coin/MessageCoin/MessageData *Predicate* inputs have a non-empty predicate; MessageData* inputs have non-empty data; values of unset policy bits "
        "are 0; maturity and expiration (when set) are at most u32::MAX",
        "C01_size: sizes saturate at usize::MAX exactly like the Rust code; C01_size_exact is the unsaturated case",
        "typed: the value is a value of the Rust type (integers in range, byte arrays of the declared length, bytes < 256, policy bits < 64)",
    ],
    rule=("values of every protocol type: the C01_refuted_* witnesses; byte-vector lengths 0..17, 255..257 (thorough: 16383..16385) in every vector position of every input kind, "
          "scripts, witnesses, receipts; all 64 policy masks x several value vectors; every variant of Input(7)/Output(5)/Receipt(13)/UpgradePurpose(2)/ScriptExecutionResult; "
          "structured random transactions of all 6 kinds (0-3 inputs/outputs/witnesses, 1/4 with precomputed metadata); the crates' Default/default_test_tx values. "
          "Each case: neutral value + to_bytes() + size()/size_static()/size_dynamic() + what decode returned; the model must produce the same bytes and sizes and the same decode result; "
          "oracle on the real code: from_bytes(to_bytes(v)) == v modulo the exempt fields, consumed == size() == len, size % 8 == 0, size_static + size_dynamic == size, encode_static length == size_static. "
          "distinct = (type, encoding); non-trivial = encoding longer than one word. Oracle-only (too big for vm_compute): long vectors whose element storage exceeds 1 MiB, 4 MiB and 16 MiB for every element type under a Vec (Vec<u64> 200k/600k/2.2M; Create with 20k/70k/270k storage slots; Script with 50k/180k/720k witnesses, 8k/24k/95k inputs, 16k/56k/215k outputs, 3000 inputs + 3000 outputs; Upload with 40k/140k/540k proof-set entries): to_bytes -> from_bytes -> ==, consumed == size, re-encode equal; class long-vector-round-trip, replay = (kind, count, seed)."),
    level_text=("Machine-checked proof (Coq), once and for all by induction over a schema universe that describes what fuel-derive generates, that for every typed value of "
                "every protocol type (Transaction and its 6 kinds, Input, Output, Witness, Policies, StorageSlot, UtxoId, TxPointer, Receipt, UpgradePurpose) the encoding is a "
                "multiple of 8 bytes whose length is what size()/size_static()/size_dynamic() report, and that decoding it (followed by arbitrary bytes) consumes exactly the encoding "
                "and returns the value with exactly the #[canonical(skip)] fields defaulted (receipt data, panic reason, panic contract id, metadata: computed from the schemas and "
                "stated in C01_exempt) - under the hypothesis wf whose every conjunct is shown necessary by a C01_refuted_* witness replayed on the real code. The schemas are "
                "regenerated from the Rust sources on every check; the hand-written model of canonical.rs/Policies/Input/Transaction is tied by a differential run."),
    level_note=("All 17 theorems proved, Closed under the global context. The model is a model: its tie to /repo is the translator (derive items) + SHA-256 pins of the hand-modelled impls + "
                "the differential run (testing). Findings reported by the oracle on the unchanged tree: empty-predicate-input, empty-data-message-input, policy-maturity-above-u32, "
                "policy-expiration-above-u32, policy-unset-bit-nonzero-value (reachable only through the legacy serde layout), policy-unknown-bits (reachable only through binary serde: size() counts a bit encode() ignores), vector-above-decode-limit (to_bytes panics)."),
    technique="Coq proof by induction over a schema universe (two-phase static/dynamic codec) + translator Rust->schemas + differential model/impl run + round-trip oracle",
    design_ref="6/C01",
    quick_shards=8,
)
