from props_common import *

PROP = dict(
    title="No input makes the VM crash, report an internal bug or run forever",
    family="nocrash", harness="nocrash", run_vo="Run/NoCrash.vo",
    theorems=["C29_default_base_cost_ge_1", "C29_progress", "C29_terminates", "C29_terminates_result",
              "C29_no_gas_bug", "C29_no_receipts_bug"],
    open_statements=[
        "PARTIAL (runtime): 'never panics the host' is not expressible in the model; it is exercised only by the correspondence run, which "
        "executes every generated transaction and predicate under catch_unwind (overflow checks on) — testing, not proof",
        "the termination theorems are parametric in what handlers do before and after their first gas charge, under the premises that this "
        "never increases $ggas and that every handler that lets the loop continue has charged its base cost first; the second premise is tied "
        "to the code by the translator (Gen/GasTable.v: first charge of every `impl Execute`, regenerated every run) and both are validated "
        "per executed instruction on real runs by the Coq checker; they are not proved about the Rust handlers",
        "Bug variants covered by a theorem: ContextGasOverflow, ContextGasUnderflow, GlobalGasUnderflow and the unchecked `ggas - gas` of "
        "gas_charge (C29_no_gas_bug, from C26's invariant cgas + saved <= ggas), ReceiptsCtxFull and the `expect` of append_panic_receipt "
        "(C29_no_receipts_bug, from C28's two-reserved-slots invariant). Covered by other properties' theorems: UncomputableRefund (C18/C19), "
        "WitnessIndexOutOfBounds and NextSubsectionIndexIsHigherThanTotalNumberOfParts (C35_no_bug), TransactionOwnerIndexOutOfBounds and "
        "TransactionOwnerInputHasNoOwner (validity rules, C19). Covered by the harness only: CodeSizeOverflow, StackPointerOverflow, "
        "GlobalGasLessThanContext, InputIndexMoreThanU16Max, and GlobalGasUnderflow at the predicate site (check_predicate)",
        "termination is claimed for the default schedule (every base cost >= 1: C29_default_base_cost_ge_1) and the default ECAL handler "
        "(ECAL charges nothing by itself; NotSupportedEcal ends the run); schedules with zero costs can loop forever and are run with a step budget",
    ],
    translators=["gastable"],
    quick_shards=8, search_scale=0.05,
    trusted_base=[
        "tools/gen_gastable.py (owner: gas family): first gas charge of every opcode handler in opcodes_impl.rs and the default schedule, "
        "regenerated into coq/Gen/GasTable.v on every check",
        "hand-written model coq/Vm/NoCrashModel.v of the run loop (fetch, opcode decoding, first charge via Vm/GasModel.v gas_charge, rest of the "
        "handler as a parameter); Vm/GasModel.v (C26) and Vm/OutcomeModel.v (C28) for the two Bug-freedom theorems",
        "fvh::vmtrace (single-stepped runs: opcode, $ggas/$cgas before and after every instruction, outcome classification)",
    ],
    assumptions=[
        "forall op b, base_cost op = Some b -> 1 <= b: discharged for the default schedule by C29_default_base_cost_ge_1 (finite check of the generated table)",
        "gas_of (set_gas s g) = g; pre/post never increase $ggas: satisfiable together with the default table by a non-trivial machine: "
        "Example NoCrashExample.premises_hold, NoCrashExample.runs, NoCrashExample.runs_out_of_gas",
        "C29_no_gas_bug: gas limit < 2^64",
    ],
    rule=("DIRECTED streams first (oracle only: no host panic, no Bug): (i) every 64-bit ALU opcode, MLDV, every immediate ALU opcode x boundary "
          "immediates, NIOP x all 64 immediates, and every wide-integer opcode (128/256 bit; compare/op/mul/div x all 64 immediates x rhs as pointer and "
          "as value; muldiv/addmod/mulmod) executed in-VM over the FULL cross product of boundary operands (24 u64 values; 18 wide values incl. "
          "2^(N-1)-1..+2, 3*2^(N-2), MAX-2..MAX, 2^64+-1, half-width+-1: 165 of the 5832 128-bit triples have modulus > 2^127 and residues summing "
          "past 2^128) under $flag 3 (loops must complete: self-check) and $flag 0; (ii) every defined opcode byte x 40 (quick) samples of adversarial "
          "register operands (boundary numbers, pointers to boundary data / call structs / own stack / heap, $hp/$sp/$ssp/$is/$pc) and boundary "
          "immediates, one tiny script each; (iii) receipt limit: exactly N = 65530..65535 receipts at top level then ret/rvrt/panic/log+ret/retd, and "
          "p logs + CALL + m logs in the callee with the callee's RET/RETD/RVRT landing on slot N, then the caller doing each of those tails "
          "(free/unit schedule; 120 runs quick, 8 threads); oracle additionally: <= 65535 receipts ending with ScriptResult. THEN 2000 (quick) transactions from eight streams: uniformly random script bytes of any length; random words biased to defined opcodes with "
          "random operands; vmtrace garbage scripts; grammar programs with 3-30% faulty items and garbage in 0-3 contracts; a script calling a "
          "contract of random words; valid grammar scripts with random bit flips and script-data mutations; arbitrary script data; gas limits 0..12000; "
          "default (70%), unit and randomised schedules (costs may be 0; step budget 20000); every tenth round a transaction with 1-3 predicates of "
          "random bytes/words, checked with random declared gas, estimated, checked again; every script is single-stepped under catch_unwind and, when it "
          "ended, repeated by a plain transact; oracle: no host panic, no InterpreterError::Bug / PredicateVerificationFailed::Bug, no other error than "
          "panics turned into receipts, $ggas never increases, $cgas <= $ggas, initial gas = limit; default schedule: terminates, at most gas_limit + 1 "
          "instructions, every completed instruction consumed >= 1 gas; Coq: per step $ggas drop >= base cost of the opcode in Gen/GasTable.v, no charge "
          "for opcodes without entry and failed fetches, step bound; distinct = distinct (script prefix, gas limit, steps); non-trivial = at least 2 instructions"),
    level_text=("Machine-checked proof (Coq) of termination for the run loop of an abstract machine in which every executed instruction first "
                "charges its base cost (Vm/GasModel.v gas_charge): with base costs >= 1 — proved for the default schedule from the table "
                "generated from opcodes_impl.rs and default_gas_costs.rs — every instruction after which the loop continues lowers $ggas by at "
                "least 1, so the run ends within $ggas + 1 instructions (induction on $ggas), for every program and every behaviour of the "
                "handlers that does not increase $ggas; and of the unreachability of the arithmetic Bug variants of the gas counters and of "
                "ReceiptsCtxFull (from the C26 and C28 invariants). Validated against real runs: the checker replays the per-instruction gas "
                "trace of random byte programs, garbage and grammar programs against the table. The 'never panics the host' half is PARTIAL: "
                "runtime testing under catch_unwind only"),
    level_note=("Trusted: Coq kernel; the gas-table translator; the abstraction of handlers to 'pre; charge; post' (tied by the translator and by "
                "per-step validation on real runs, which is testing); vmtrace; harness. Not proved: absence of Rust panics (expect/unwrap/indexing/"
                "arithmetic with overflow checks), allocation failures; Bug variants listed as harness-only; termination under non-default schedules "
                "or a custom ECAL handler."),
    technique="Coq proof (well-founded descent on global gas, parametric in the handlers) + table obligation by closed computation + gas-trace replay of fuzzed runs",
    design_ref="6/C29",
)
