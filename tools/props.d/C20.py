from props_common import *

PROP = dict(
    title="Only authorized inputs survive signature and predicate checks",
    family="auth", harness="auth", run_vo="Run/Auth.vo",
    theorems=["C20_signatures_sound", "C20_signatures_iff", "C20_signatures_error", "C20_cache_sound", "C20_tamper",
              "C20_predicates_sound", "C20_predicates_iff", "C20_estimate_then_verify",
              "C20_estimate_unconditional_refuted", "C20_estimate_gas_observing_refuted",
              "C20_seq_par_tasks", "C20_seq_par", "C20_seq_par_in_order", "C20_finalize_verdict", "C20_finalize_error"],
    open_statements=[
        "C20_estimate_full_statement ('verification of the estimated transaction succeeds whenever estimation succeeded', for arbitrary predicate programs) is not "
        "open but REFUTED for the model of the unchanged code (C20_estimate_unconditional_refuted: estimate_predicates ignores what the predicate returned, "
        "fuel-vm #917; C20_estimate_gas_observing_refuted: a predicate can observe its gas). Proved instead: C20_estimate_then_verify under the premises "
        "'every estimation run returned true' and 'deterministic_rerun' (+ owners right). Reproduced on the real code on every run (oracle classes "
        "estimate-ok-on-failing-predicate, estimate-ok-predicate-out-of-gas, estimate-ok-gas-observing-predicate).",
        "PARTIAL by design: cryptography (Signature::recover, PublicKey::hash), predicate execution (Interpreter::init_predicate/verify_predicate), max_gas and the real "
        "async executors are oracles; the theorems are about the gating logic around them. 'Changing signed content changes the id' is property C03 and "
        "'recover is binding' is property C17: both are premises of C20_tamper.",
    ],
    translators=[],
    quick_shards=8,
    trusted_base=[SHA_NOTE,
                  "hand-written L1 model coq/Auth/AuthModel.v of Input::check_signature / Witness::recover_witness / check_signatures / run_predicates / run_predicate_async / "
                  "check_predicate / finalize_check_predicate / PredicateVerificationFailed::interpreter_error, tied by correspondence testing on every run",
                  "abstraction of a transaction to its list of inputs (signed: owner + witness index; predicate: owner + code + declared gas; contract) and its witnesses; "
                  "the transaction id is a parameter",
                  "oracle data of the correspondence run: address recovered from each witness (fuel_crypto + sha2), (gas need, outcome) of each hand-written predicate "
                  "program measured by a single-predicate probe, max_gas base; predicate owners are recomputed by the executable C15 model",
                  "the real ParallelExecutor used in the run delivers results in a seeded shuffled order; other executors (rayon/tokio in fuel-core) are not exercised"],
    assumptions=[
        "C20_tamper: txid <> txid' (from C03), recover_pk binding between the two ids (C17_binding), hash_pk collision-free on the keys involved. Satisfiable: Examples toy_binding, toy_hash_injective, ex_signatures_accepted/tampered",
        "C20_estimate_then_verify: owners right; deterministic_rerun (every estimation run returned true and re-running on the estimated transaction with exactly the gas used "
        "returns true with 0 left). Satisfiable: Examples ex_estimate, ex_rerun_premise; each premise needed: C20_estimate_unconditional_refuted, C20_estimate_gas_observing_refuted",
        "C20_seq_par: the delivered list is a permutation of the task results (what ParallelExecutor::execute_tasks must return); predicate runs are functions of (tx, index, gas) "
        "(the same oracle `run` serves both checkers: VM determinism / independence of memory reuse is property C31)",
    ],
    rule=("signatures: 13 scenario families (distinct keys, shared witnesses / cache hits, duplicate witnesses, mixed with predicate and contract inputs, wrong key, swapped "
          "witnesses, shared witness used by another owner, witness index out of bounds, junk witnesses of length 0/1/63/64/65/128, signature of another message or one flipped "
          "bit, wrong predicate owner before/after a bad signature, no signed input, random mixtures) over coin/message-coin/message-data inputs; each accepted transaction is then "
          "modified after signing (script data / an input field / gas limit) and re-checked. predicates: 9 hand-written programs (true with 0/3/20 steps, false, returns 2, memory "
          "fault, forbidden opcode, endless loop, gas-observing) in 11 scenario families (exact gas, mixed inputs, wrong declared gas, failing predicate, wrong owner, several "
          "failures, total-gas allowance at max_gas-1/max_gas/max_gas+1, per-predicate allowance below need, estimation from garbage, gas-observing, random mixtures); each through "
          "check_predicates, check_predicates_async with a shuffling ParallelExecutor (two delivery orders), estimate_predicates and check_predicates on the estimated transaction. "
          "The Gallina model gets the oracle data and must reproduce every verdict (kind, index, reason, gas) incl. the async verdict for the recorded delivery order and the "
          "estimated gas fields. Oracle: reference 'first unauthorised input' verdict, accepted => every signed input verifies under its owner's key, tamper => rejected, accepted "
          "predicates => owner/true/exact gas/sum, sequential == parallel, estimate => verify. distinct = distinct (scenario, verdicts, inputs); non-trivial = >= 2 inputs or rejected"),
    level_text=("Machine-checked proof (Coq) about the gating logic with cryptography, predicate execution and max_gas as universally quantified oracles: check_signatures accepts "
                "exactly the transactions all of whose signed inputs' witnesses (64 bytes) recover over the id to a key hashing to the owner and whose predicate inputs are owned "
                "by their predicate's address; a rejection names the first unauthorised input; the witness-index recovery cache changes nothing; if the id changes and recovery is "
                "binding every signed input fails. check_predicates accepts exactly when every predicate input has the right owner and returns true leaving 0 of its declared gas "
                "and max_gas is within the allowance, reporting the sum; estimation followed by verification succeeds under stated determinism premises and is REFUTED without them; "
                "the parallel checker's verdict and gas are independent of the delivery order of the task results (the reported error is characterised and does depend on it)"),
    level_note=("PARTIAL: crypto, predicate execution, max_gas and real async scheduling are oracles exercised only by the correspondence run (testing, not proof). "
                "Trusted: Coq kernel; hand-written L1 model tied by correspondence testing; harness and its oracle data."),
    technique="Coq proof (induction over the input fold with a cache invariant; permutation invariance of the accumulation; simulation of estimate-then-verify) + differential model/impl run",
    design_ref="6/C20",
)
