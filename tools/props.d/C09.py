from props_common import *

PROP = dict(
    title="Binary Merkle roots equal the RFC 6962 tree hash",
    family="bmt", harness="bmt", run_vo="Run/Bmt.vo",
    theorems=["C09_calculator", "C09_from_leaf_hashes", "C09_tree", "C09_empty"],
    open_statements=[],
    translators=[],
    trusted_base=[SHA_NOTE,
                  "model of Rust Vec/u64 semantics in Merkle/BinaryModel.v (hand-written, tied by correspondence)",
                  "theorems hold for fewer than 2^62 leaves (the Rust code returns TooLarge / panics beyond 2^63)"],
    assumptions=["no hash assumption: the statement is an equality of hash expressions"],
    rule=("leaf lists: every count 0..N dense (N=40 quick / 300 thorough), 2^k and 2^k±1, empty/identical/large leaves; "
          "each case: all root implementations vs the Gallina L1 model and vs an independent recursive RFC 6962 MTH in the harness; "
          "distinct = distinct (count, root); non-trivial = at least 2 leaves"),
    level_text=("Machine-checked proof (Coq) that the peak-stack root calculator and the storage-backed tree model compute the RFC 6962 "
                "MTH for every leaf list, by induction with the invariant 'stack = MTH of the maximal aligned power-of-two blocks'; the model is "
                "tied to the Rust code by a differential run of all six root entry points on every check"),
    level_note=("Trusted: Coq kernel; hand-written L1 model of root_calculator.rs/merkle_tree.rs/position.rs tied by correspondence testing "
                "(testing, not proof); executable SHA-256 instance; harness. in_memory/ephemeral/receipts roots are thin wrappers over the two modelled "
                "structures and are covered by the correspondence and the implementation-level oracle only."),
    technique="Coq proof by induction over pushes (stack invariant) + differential model/impl run",
    design_ref="6/C09",
)
