from props_common import *

PROP = dict(
    title="Breakpoints and single-stepping do not change execution results",
    family="debug", harness="debug", run_vo="Run/Debug.vo",
    theorems=["C32_same", "C32_before_once", "C32_resume_executes_first", "C32_events_exact", "C32_events_fresh",
              "C32_historical_stale_last_state_witness_before_22c6df9"],
    open_statements=[
        "the interpreter is a PARAMETER of the theorems (arbitrary deterministic fetch/exec functions of the whole VM state): that the "
        "real instruction_inner / finalisation are functions of the interpreter state only, and that the debugger is consulted nowhere "
        "else, is read off the code (executors/instruction.rs, executors/main.rs) and exercised by the correspondence run, not proved",
        "termination is a hypothesis (plain_run n s = Some r, i.e. the undebugged run finishes within n loop iterations); C29 is the "
        "property that provides it",
        "ProgramState::VerifyPredicate: Interpreter::resume is `unimplemented!()` for it (host panic); unreachable through the public "
        "Interpreter API because predicate VMs are created with an inactive debugger; not covered by a theorem",
    ],
    translators=[],
    quick_shards=8, search_scale=0.3,
    trusted_base=[
        "hand-written L1 model coq/Vm/DebugModel.v of state/debugger.rs (Debugger, eval_state), state.rs (ProgramState == Breakpoint), "
        "interpreter/debug.rs (eval_debugger_state), executors/instruction.rs (debugger guard after the fetch, before the instruction), "
        "executors/main.rs (run_program loop returning RunProgram(d) and storing it as last state), executors/debug.rs (resume); tied by the "
        "correspondence run on every check",
        "fvh::vmtrace (single-stepped reference run giving the sequence of executed (contract, $pc-$is) locations and the registers before "
        "each instruction)",
        "HashMap<ContractId, HashSet<Word>> modelled as association list of lists; contract ids replaced by indices in the cases",
    ],
    assumptions=[
        "forall c, C_eqb c c = true (ContractId equality is reflexive); satisfied by N.eqb in Run/Debug.v and in the SelfLoop examples",
        "plain_run n s = Some r (the run without debugger terminates within n iterations); satisfiable: Example SelfLoop.plain",
    ],
    rule=("scenarios: vmtrace grammar programs (0-3 contracts, calls, bounded loops, jal subroutines, panics, reverts, low gas limits; default, "
          "unit and randomised gas schedules) and every fifth scenario a hand-made tight loop (one-instruction self-jumps by ji/jnzi/jal running "
          "until out of gas, two-instruction counting loops, loops inside a contract called from a loop); per scenario 5 debugger configurations "
          "(first: corpus cases of finding F9 — session abandoned at script offset 0, then breakpoint / single-stepping there) out of: activated without breakpoints, single-stepping, breakpoints on all executed locations, random subsets incl. never-reached "
          "locations and right-pc-wrong-contract, only jump targets of loops, only inside called contracts, random set/remove/clear/single API "
          "histories, configuration after a debug session abandoned on the same instance; each run = transact + resume after every event on the "
          "real Interpreter; the Gallina run_program/resume/drive run over the tape of executed locations must report exactly the same events; "
          "oracle: final state, receipts, outputs, storage, registers equal the undebugged run; every event carries the registers the reference "
          "run had before that instruction, embedding with strictly increasing positions; events equal an independent prediction; after an abandoned "
          "session no event is swallowed (class debugger-last-state-not-reset-after-abandoned-session, regression detector of repair 22c6df9); "
          "distinct = distinct (script prefix, steps, events); non-trivial = at least 3 instructions and 2 events"),
    level_text=("Machine-checked proof (Coq), for ANY interpreter step function, any set of breakpoints, single-stepping on or off and any "
                "left-over debugger last state (forgotten by transact: Debugger::clear_last_state in init_inner, repair 22c6df9), over a "
                "function-by-function model of Debugger::eval_state / the per-instruction guard / run_program / resume / transact: resuming after every debug event until completion gives the final result of the undebugged run "
                "(induction on the length of the undebugged run); the suspended states handed out with the events form a sublist of the "
                "states in which the undebugged run is about to execute an instruction (events change nothing, come before the instruction, "
                "at most one per arrival; resume executes the instruction at the reported location before consulting the debugger again); "
                "the reported events are exactly the arrivals the configuration asks for. The model is tied to the Rust code on every check by "
                "replaying it over the locations executed by the real interpreter and comparing the reported events"),
    level_note=("Trusted: Coq kernel; the hand-written debugger model and the abstraction of the interpreter to deterministic functions of its "
                "state (tied by correspondence testing, which is testing); vmtrace's reference run; harness. Not proved: termination (hypothesis), "
                "determinism of the real instruction handlers. Finding F9 (last_state not cleared by init_script: an abandoned session swallowed the "
                "next transaction's first event) is repaired by 22c6df9; the model follows the repaired code, the pre-repair behaviour is kept only as "
                "the HISTORICAL lemma C32_historical_stale_last_state_witness_before_22c6df9 (drive_before_22c6df9)."),
    technique="Coq proof parametric in the interpreter (simulation by induction on the undebugged run) + replay of the model over real executed-location tapes",
    design_ref="6/C32",
)
