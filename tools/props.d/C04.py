from props_common import *

PROP = dict(
    title="Reported field offsets locate the field's bytes in the encoding",
    family="offsets", harness="offsets", run_vo="Run/Offsets.vo",
    theorems=["C04_spec_sound", "C04_static_table_ok", "C04_input_repr_table_ok", "C04_output_repr_table_ok",
              "C04_locates_tx_static", "C04_locates_input_static", "C04_locates_output",
              "C04_none_tx", "C04_none_input", "C04_none_output",
              "C04_locates_sections", "C04_locates_elements", "C04_locates_script",
              "C04_cached", "C04_locates_body_vectors", "C04_locates_body_vector_starts", "C04_locates_input_dynamic_const",
              "C04_locates_input_dynamic_after", "C04_locates_input_dynamic_after_slice"],
    open_statements=[
        "C04_predicate_padded_statement: inputs_predicate_offset_at(i) = (position of the predicate bytes, 8-padded length) - not proved; executed on every case and checked on the real code by the oracle",
    ],
    translators=["txconsts", "preparesign"],
    trusted_base=[
        "tools/gen_txconsts.py (translator: named layout constants, InputRepr/OutputRepr decision tables, static offset chains -> coq/Gen/TxConsts.v; SHA-256 pins of the 32 hand-modelled offset "
        "functions: a change of any of them makes the translator fail = broken tie) and tools/gen_schemas.py (schemas)",
        "hand-written L1 model Offsets/OffsetModel.v of the value-dependent offset functions (chargeable_transaction.rs mod field, metadata.rs CommonMetadata::compute, script/create/upload/blob/"
        "upgrade/mint body_offset_end and *_offset_at, input.rs predicate offsets, bytes::padded_len_usize) with explicit usize saturating/checked arithmetic; tied by the correspondence run",
        "Offsets/OffsetSpec.v: `locate` (prefix sums of encoder output lengths along a selector) and the table saying which field each API function is meant to locate (tx_sel, at_sel, in_sel, "
        "out_sel, pred_sel), written from the property text",
        "canonical-codec family (Codec/CodecModel.v encoder model; its trusted base applies, see C01); 64-bit target (usize = u64)",
        "neutral value printers harness/src/txval.rs (copy of the codec family's printer)",
    ],
    assumptions=[
        "typed: the value is a value of the Rust type",
        "C04_locates_sections / _elements / _script / _input_dynamic_after and the open statement hold under `encoding at most 2^64-1 bytes long` (the saturating arithmetic of the offset code is modelled; in the saturated regime the offsets are wrong by construction and no encoding of that size exists in memory)",
    ],
    rule=("transactions of all six kinds x four input layouts (the named one: contract input then message-data predicate after a 7-byte script; every input variant once with every output variant; "
          "unaligned predicates 7/3, 9/0, 1/15 with 13-byte data; random 0-4 inputs) with 0-4 outputs, 1-4 witnesses, 0-4 storage slots, 0-5 proof entries, all 64 policy masks, byte-vector lengths "
          "0..17/255..257; real consensus-parameter upgrade witnesses so that precompute succeeds. Per transaction EVERY offset function of the API is queried (24 transaction-level functions, 5 "
          "*_offset_at and inputs_predicate_offset_at with indices 0..n, n+1, 2^16, usize::MAX, 17 per-input and 6 per-output functions), without and with cached metadata. The Gallina model must "
          "give the same answers, the L3 spec must locate the same offset, and the slice of the model encoding there must be the field bytes (statement executed). Oracle on the real code: slice of "
          "to_bytes() at the offset == the field's own canonical bytes taken from the typed value; elements decode from their offset; None exactly for absent fields/indices; cached == uncached. "
          "distinct = (kind, encoding); non-trivial = more than 8 queries"),
    level_text=("Machine-checked proof (Coq): (1) generic soundness of the specification - for every schema, value and field selector the prefix-sum position holds exactly the field's canonical bytes "
                "(induction over the schema universe); (2) the layout constants and decision tables regenerated from the Rust source on every check (static offset chains of the six kinds, InputRepr, "
                "OutputRepr) are proved equal to the schemas' prefix sums for every typed value - so every static field of a transaction, input and output is located exactly, and None is reported "
                "exactly for absent fields; (3) for the five chargeable kinds the value-dependent section offsets (policies/body end, inputs, outputs, witnesses), every "
                "input / output / witness element offset (Some exactly for indices in range) and the script / script data offsets are proved to be the specification's positions whenever the encoding is "
                "shorter than 2^64 bytes - the model's saturating sums of size() are shown to be the prefix sums of encoder lengths; (4) storage-slot and proof-entry offsets and the vector starts are proved the same way; (5) offsets "
                "read from cached metadata equal the offsets computed without it for EVERY function and index, whatever (possibly stale) metadata the transaction carried before precompute - no typing "
                "hypothesis; (6) inside an input the data / coin-predicate / first-predicate offsets are proved, and so are the two offsets that follow another byte vector (predicate after message data, "
                "predicate data after the predicate) whenever the input's encoding is shorter than 2^64 bytes; inputs_predicate_offset_at's padded "
                "length is modelled, executed on every answer, and open."),
    level_note=("19 theorems proved, Closed under the global context. Open: one statement (inputs_predicate_offset_at with padded length), "
                "executed per case and checked on the real code by the oracle, not proved."),
    technique="Coq proof (generic induction over the schema universe; table-vs-schema obligations by computation + value-independence lemma) + translator consts/tables with source pins + differential model/impl run + slice oracle",
    design_ref="6/C04",
    quick_shards=8,
)
