from props_common import *

PROP = dict(
    title="Execution outcomes and receipts are well formed",
    family="outcome", harness="outcome", run_vo="Run/Outcome.vo",
    theorems=["C28_shape", "C28_shape_facts", "C28_final_pushes_never_fail", "C28_limit", "C28_root",
              "C28_failed_outputs", "C28_storage_rollback", "C28_storage_rollback_on_error",
              "C28_rollback_after_deploy_refuted", "C28_rollback_after_commit", "C28_nonvacuous"],
    coq_targets=["Vm/OutcomeFast.vo"],
    open_statements=[
        "'the in-memory client leaves contract storage exactly as it was after a revert/panic' is proved under the hypothesis that the client's "
        "storage is at a committed point (memory = transacted) and REFUTED without it (C28_rollback_after_deploy_refuted): "
        "MemoryClient::deploy/upgrade/upload/blob do not commit, so `deploy; failing script` loses the deployment (FINDING, reproduced on the "
        "real client on every run, oracle class failed-script-after-uncommitted-deploy-loses-deployment); C28_rollback_after_commit: after any "
        "successful script failed scripts do restore the state before them",
        "The theorems are about abstract machines (ReceiptsCtx::push with its two reserved slots, the run loop of run_program over the "
        "executed instruction sequence classified as body-receipt / silent / call / return / revert / panicking, the incremental receipts "
        "root, MemoryStorage commit/revert and MemoryClient::transact), NOT about a Gallina model of the interpreter: that every executed "
        "instruction falls in its class (which opcodes push which receipt, that nothing else pushes receipts) is established per run by "
        "trace validation (the model must reproduce the exact receipt list of every trace) - testing, not proof",
        "C28_root is parametric in the receipt encoding: root = MTH (map enc receipts) for the streaming calculator proved in C09; that enc "
        "is Receipt::to_bytes (canonical encoding, C01) and that the committed field is this root is checked on every trace by the harness "
        "oracle (independent RFC 6962 recursion over the real encodings, all traces incl. the 65,535-receipt ones) and inside Coq (SHA-256 "
        "instance, streaming calculator and MTH) for traces of at most 8 receipts",
        "C28_failed_outputs is the asset machine's statement (C27): change = initial free balance (+ refund), variable amounts zeroed. "
        "Observation, not a violation: update_outputs zeroes only the AMOUNT of a variable output set before the failure; its `to` and "
        "`asset_id` stay (seen in ~40% of failed traces)",
        "C28_storage_rollback models the storage as an opaque value with MemoryStorage's memory/transacted copies; the real tables are "
        "compared by the harness (sorted dump of state + balances, and the Debug image of the whole MemoryStorage) on every trace",
    ],
    translators=["assettable"],
    quick_shards=8,
    trusted_base=[
        "tools/gen_assettable.py (MAX_RECEIPTS, ScriptExecutionResult codes, receipt discriminants, panic bytes; pins ReceiptsCtx::push, the "
        "tail of run_program, append_panic_receipt, revert, MemoryClient::transact, should_revert, MemoryStorage::commit/revert)",
        "hand-written L1 models Vm/OutcomeModel.v (+ Vm/OutcomeFast.v, proved equal, used for execution) tied by trace validation on every run",
        "Vm/OutcomeSpec.v: `wellformed` written from the property text",
        "harness/src/vmtrace.rs (single stepping, step classification: a panic naming the executed instruction belongs to it, otherwise a "
        "fetch fault), harness/src/vmfin/mod.rs (MemoryClient run on a committed copy of the world's storage)",
        SHA_NOTE,
    ],
    assumptions=["run gas initial prog = Done rs result (the execution completed; satisfiable: C28_nonvacuous); "
                 "ms_memory s = ms_transacted s for the rollback (the client starts from a committed storage, as MemoryClient does after every transact)"],
    rule=("(i) six tiny scripts (empty script, RET, RVRT, RETD, running off the end, endless loop); (ii) receipt-limit scenarios under the Free "
          "schedule: endless LOG loop at top level, counted loops ending exactly at the boundary (65,532 / 65,533 logs then RET / RVRT), the "
          "same inside a call (quick: 2 variants, thorough: 9) - > 130,000 steps each, run-length compressed; (iii) hand-built nested calls "
          "(depth 1-3) where each level writes storage, mints, logs and forwards coins and one level reverts / divides by zero / reads beyond "
          "$hp / jumps before 0, with small gas limits to exhaust gas; (iv) vmtrace's generator incl. garbage scripts, random schedules, "
          "gas prices; (v) histories of deploy / successful / reverting / panicking scripts on ONE MemoryClient (the Coq model must predict the "
          "storage identity after every event: a failed script returns to the last committed state). Each trace: the Coq run loop over the step classes must reproduce the receipt kinds and the result; wellformed, limit, "
          "program state, failed outputs, commit/revert identity and (short lists) the root are evaluated in Coq; the harness oracle checks "
          "the same directly on the real receipts, outputs, MemoryClient storage. distinct = distinct (receipt kinds, panic reason, wrote "
          "storage); non-trivial = >= 3 receipts or a failed run"),
    level_text=("Machine-checked proof (Coq) over abstract machines mirroring ReceiptsCtx::push, the run loop / finalisation of run_program, "
                "the receipts root calculator and MemoryClient::transact: for EVERY executed instruction sequence a completed run has receipts "
                "body ++ [top-level Return | Revert | Panic] ++ [ScriptResult] with an interior body (exactly one script result, last; panic "
                "receipt iff result Panic; Success iff top-level return; Revert iff revert), at most 65,535 receipts for all push sequences, the "
                "final Panic / ScriptResult pushes can never fail, root = RFC 6962 MTH of the encoded receipts (via C09), failed runs zero the "
                "variable outputs and restore change = initial balance (+ refund), and the in-memory client restores the storage exactly. "
                "Tied to the Rust code by a pinned translator and by trace validation incl. executions with exactly 65,535 receipts"),
    level_note=("Proof over abstract machines + trace validation: the interpreter is not modelled opcode by opcode; the classification of "
                "instructions and the receipt encoding are validated per trace (testing). Trusted: Coq kernel, translator, harness."),
    technique="Coq proof (invariant of the run loop by induction over instruction sequences; C09's MTH theorem) + pinned translator + trace validation + direct oracle",
    design_ref="6/C28",
)
