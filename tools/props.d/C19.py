from props_common import *

PROP = dict(
    title="Transaction checking accepts exactly the specification-valid transactions",
    family="validity", harness="validity", run_vo="Run/Validity.vo",
    theorems=["C19_iff", "C19_balances", "C19_never_overspend", "C19_iff_height_bound_refuted", "C19_duplicate_paths_agree"],
    open_statements=[],
    translators=[],
    trusted_base=[
        "abstraction of a real transaction to the record of Validity/ValiditySpec.v (harness/src/bin/validity.rs: identifiers as numbers, byte strings as lengths); "
        "carried as given values: canonical size (C01), max_gas (C18), computed contract id / state root (C15), upload Merkle proof verdict (C10, recomputed in the harness by an independent RFC 6962 check), SHA-256 checksums",
        "hand-written L1 model Validity/ValidityModel.v of validity.rs / policies.rs / types/*.rs check_unique_rules / checked_transaction/balances.rs / types.rs, tied by correspondence",
        "CommonMetadata::compute offset-overflow errors (SerializedInputTooLarge etc.) are not modelled: unreachable for byte strings that fit in memory",
    ],
    assumptions=["no hash assumption; signatures and predicates are outside into_checked_basic (C20)"],
    rule=("generated transactions of all six kinds: valid stream per kind (raw constructors and TransactionBuilder), 67 one-rule violations / at-limit "
          "boundaries, random two-rule combinations, consensus parameters set to limit and limit-1; each case: real into_checked_basic verdict "
          "(Ok + balances sorted by asset + retryable, or the ValidityError with its payload) vs the Gallina model, and vs an independent declarative "
          "validity checker with 128-bit balance sums in the harness; distinct = distinct Coq case term; non-trivial = not a Mint"),
    level_text=("Machine-checked proof (Coq) that the model of IntoChecked::into_checked_basic returns Ok exactly for the transactions satisfying a "
                "declarative, order-free rule set (NoDup of coin UTXO ids / contract ids / nonces, unique change per asset, asset presence, exists-unique contract "
                "output per contract input, counts and sizes within limits, policies, maturity/expiration, owner index, kind-specific rules of all six kinds, "
                "sufficient balance over Z), that the recorded free balances equal inputs - coin outputs - fee limit per asset, and that overspending is always "
                "rejected; the model is tied to the Rust code by a differential run (verdict, error payload, balances) on every check"),
    level_note=("Trusted: Coq kernel; the abstraction from real transactions to the abstract record and the hand-written L1 model (tied by correspondence testing, "
                "which is testing, not proof); values carried as given: serialized size, max_gas, computed contract id/state root, Merkle/hash verdicts; harness and its "
                "declarative oracle. C19_iff has the premise height <= 2^32-1 (BlockHeight is u32). Signature and predicate checks are C20."),
    technique="Coq proof (invariants over folds, reflection of boolean checks into declarative rules) + differential model/impl run + declarative oracle",
    design_ref="6/C19",
)
