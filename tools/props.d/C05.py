from props_common import *

PROP = dict(
    title="In-VM transaction introspection returns the executed transaction's data",
    family="gtf", harness="gtf", run_vo="Run/Gtf.vo",
    theorems=["C05_memory_layout", "C05_pointer", "C05_gm", "C05_unknown_selector", "C05_absent_index", "C05_large_rb",
              "C05_type_ignores_rb_refuted", "C05_element_pointers",
              "C05_agree_config", "C05_agree_other_kind", "C05_agree_counts", "C05_agree_tx_length", "C05_init_stores_length",
              "C05_agree_script_scalars", "C05_agree_gas_limit_other", "C05_agree_create_scalars", "C05_agree_upload_scalars",
              "C05_agree_blob_scalars", "C05_agree_static_pointers"],
    open_statements=[
        "C05_gtf_spec_statement: agreement of the model with the decision table (`agrees`: what the row denotes = what the model returns) for the 41 selectors of `open_selectors` when the index is in "
        "range: the input / output / witness FIELD selectors (values and pointers), the script / script-data pointers, storage-slot / proof-entry pointers, InputContractOutputIndex. Proved so far for "
        "these selectors: their out-of-range rows (C05_absent_index), their other-kind rows (C05_agree_other_kind), $rB >= 2^32 (C05_large_rb). Executed on every observation of every case against the "
        "REAL VM memory (Run/Gtf.v spec_holds).",
    ],
    translators=["gtftable", "txconsts", "preparesign"],
    trusted_base=[
        SHA_NOTE,
        "tools/gen_gtftable.py (translator: GTFArgs / GMArgs as Coq inductive types, PanicReason codes, VM layout constants, TxParameters::tx_offset formula, repr discriminants -> coq/Gen/GtfTable.v; "
        "SHA-256 pins of get_transaction_field, metadata, init_inner, RuntimeBalances::to_vm, tx_offset: a change makes the translator fail = broken tie) + the translators of C03/C04",
        "hand-written L1 model Gtf/GtfModel.v: one arm per GTF / GM selector mirroring metadata.rs, init_inner (prepare_sign, owner pointer rule, Output::Contract map, initial stack); "
        "built on the C04 offset model and the C03 prepare_sign interpreter; tied by the correspondence run on a real Interpreter",
        "Gtf/GtfSpec.v: the decision table gtf_spec (what each selector denotes, as a C04 selector into the transaction placed in memory, and which panic for absent index / other kind), "
        "the owner rule and gm_spec, written from the selector descriptions of args.rs / fuel-specs",
        "canonical-codec family and the C04 specification `locate` (C04_spec_sound is used by C05_pointer)",
        "harness: single instructions executed with Interpreter::instruction on a VM initialised by init_predicate / init_script; $cgas/$ggas are refilled before each instruction",
    ],
    assumptions=[
        "layout_ok: id and base asset id are 32 bytes, the balances area has max_inputs * 40 bytes, tx_offset = 72 + max_inputs * 40 (TxParameters::tx_offset without overflow)",
        "$rB must fit in u32 for EVERY selector, also those that do not use it (fuel-vm convert::to_usize, 'consistent on 32-bit and 64-bit platforms'): C05_large_rb, C05_type_ignores_rb_refuted; "
        "the decision table carries this row, the oracle counts the 2^32 / 2^64-1 probes as observations",
        "contexts exercised: script and predicate verification (external); GetCaller / IsCallerExternal are modelled but only their external-context panic is exercised",
    ],
    rule=("real Interpreter: predicate context (init_predicate) for script/create/upgrade/upload/blob transactions with 1-5 inputs of all 7 variants (>= 1 predicate), 0-4 outputs of all 5 variants with "
          "Output::Contract indices pointing at inputs, 1-3 witnesses, storage slots, proof sets, all policy masks incl. valid / invalid Owner policies, with and without cached metadata, chain ids, "
          "gas prices, base assets, max_inputs in {8,16,255}; script context (init_script) for valid scripts (signed coins, messages, contract inputs+outputs, change/variable/coin outputs); a REUSED interpreter initialised in turn with a "
          "single-owner transaction whose contract output comes first, a transaction with two different owners and a coin output before the contract output, and a single-owner transaction without "
          "contracts (owner pointer, Output::Contract map and cached offsets of the earlier transaction must not leak into GM GetOwner / GTF InputContractOutputIndex / pointers). EVERY GTF "
          "selector of GTFArgs (82, from args.rs) + 5 invalid codes x $rB in {0..n, n+1, 2^16, 2^32-1, 2^32, 2^64-1}, all 8 GM selectors + 3 invalid, as single instructions. The Gallina model must "
          "reproduce the initial memory byte for byte (id computed with the C03 model + SHA-256) and every result; the decision table is executed on every result with pointers dereferenced in the "
          "REAL memory dump. Oracle in the harness: reference written from the selector descriptions on the typed transaction (value / bytes at pointer in real VM memory / panic reason). "
          "distinct = (kind, chain id, tx id); non-trivial = more than 50 observations"),
    level_text=("Machine-checked proof (Coq): the initial VM memory places tx id, base asset, size word and the canonical transaction bytes where GM/GTF say; every field the C04 specification locates in the "
                "transaction is held byte for byte by VM memory at tx_offset + offset (so every pointer selector whose offset is a C04 position dereferences to the field's canonical bytes); the GM "
                "decision table; unknown selectors and out-of-range indices of the 35 element selectors give the specified panic; $rB >= 2^32 gives InvalidMetadataIdentifier for every selector. The per-"
                "selector model (82 arms) is tied to a real Interpreter by a differential run that also executes the decision table on every answer against the real memory."),
    level_note=("19 theorems proved. Agreement with the decision table is proved for 32 selectors (Type, 7 policies, 9 counts, TxLength, 11 body scalars, 4 static body pointers) + the 9 element pointers end to end + every other-kind row; 41 selectors open for in-range indices (C05_element_pointers closes the nine element selectors end to end: pointer -> element bytes in memory / specified panic), Closed under the global context. Open: the general agreement of the 82-arm model with the decision table (values and pointers), executed per observation, not proved. "
                "Observation reported: GTF with $rB >= 2^32 panics with InvalidMetadataIdentifier even for selectors that ignore $rB (by design of convert::to_usize); GTF_OUTPUT_CONTRACT_INPUT_INDEX on a "
                "non-contract / absent output panics with InputNotFound (not OutputNotFound)."),
    technique="Coq proof (memory layout + C04 locate_sound; decision tables by case analysis over generated selector types) + translator args.rs -> inductive selector types + differential run on a real Interpreter + reference oracle",
    design_ref="6/C05",
    quick_shards=8,
)
