from props_common import *

PROP = dict(
    title="DA compression round-trip preserves transaction identity",
    family="dacomp", harness="dacomp", run_vo="Run/DaComp.vo",
    theorems=["C07_key_next", "C07_key_next_cyclic", "C07_roundtrip", "C07_fields", "C07_id", "C07_tx_obligations",
              "C07_id_needs_inclusion_refuted", "C07_own_context"],
    open_statements=[
        "the registry of fuel-core is not part of /repo: the theorems are generic over an abstract context, the correspondence uses the harness's own "
        "context (rotating registry on RegistryKey::next with per-transaction pinning, sequential CompressedUtxoId, coin/message/mint fact tables "
        "written after fuel-tx/src/tests/da_compression.rs)",
        "C07_id is stated over the abstract field classification `malleable` of DaComp/TxSchema.v (written from the prepare_sign bodies) and an id that "
        "is a function of the stripped value; the link to the byte-level id of C03 (coq/Codec, Gen/PrepareSign.v) is not made in Coq yet - "
        "the harness checks id(decompress(compress(tx))) == id(tx) on the real code for every transaction",
        "C07_fields takes `ctx_agrees` (what the context restores equals the original: restore (erase_skipped v) = erase_unrestored v) as a premise; "
        "that the natural facts (coin_info(utxo) = (owner, amount, asset) ..) imply it is proved per context-decompressed struct "
        "(coin_signed_restored, coin_predicate_restored, message_*_restored, mint_restored), not for whole transactions",
        "the serde view of a transaction has no `metadata` field (serde(skip) + compress(skip)); that decompression leaves it None is checked by the oracle only",
    ],
    translators=["compress"],
    quick_shards=12,
    trusted_base=[
        "tools/gen_compress.py (re-uses the parser of tools/gen_schemas.py): every item deriving fuel_compression::Compress with its compress(skip) flags "
        "-> Gen/CompressSkips.v; DaComp/TxSchema.v proves its schema carries exactly these flags (schema_matches_source)",
        "coq/DaComp/CompressModel.v: model of the Compress/Decompress derive, of impls.rs and of the context-supplied Decompress impls for Coin/Message/Mint; "
        "coq/DaComp/RegistryModel.v: RegistryKey and the harness's registry; tied by replaying whole transaction sequences (compressed form incl. every "
        "registry key, decompressed form) and pure registry histories in the model",
        "the `malleable` column of DaComp/TxSchema.v (id specification, until C03's generated table is linked)",
        "harness context harness/src/bin/dacomp.rs and the generic serde-view -> neutral-value converter",
    ],
    assumptions=[
        "holds d facts: the decompression context answers every (keyspace, key) -> value and compressed-utxo -> utxo registration the compression "
        "returned (satisfiable: C07_own_context for the rotating registry, for every transaction it accepts)",
        "ctx_agrees: restored coin/message/mint facts equal the originals (satisfiable: *_restored lemmas)",
        "skip_incl t: every field that is skipped and not restored is malleable (proved for the transaction schema: C07_tx_obligations; "
        "needed: C07_id_needs_inclusion_refuted)",
        "writable k: k < 2^24 - 1 (every key but the reserved default)",
    ],
    rule=("sequences of 2-6 transactions of all six kinds (all input/output variants, pooled addresses/assets/contract ids/code so that registry values "
          "repeat within and across transactions, identical inputs twice) through ONE context whose key counters start at MAX_WRITABLE-6..MAX_WRITABLE, 0 or "
          "random (wrap-around inside a sequence); each transaction: compress, postcard round trip of the compressed form, recompress (must not allocate), "
          "decompress against the same context; model: compressed form (every key), decompressed form, erase/strip equalities; pure registry histories "
          "(reuse, allocation, pinned keys in the way, begin-tx) and RegistryKey::next on boundary/random keys vs the model; oracle on the real code: "
          "id(decompress(compress(tx))) == id(tx), decompressed == original with exactly the unrestored skipped fields at Default (independent reference), "
          "metadata None; TransactionFactory transactions oracle-only; distinct = distinct case text; non-trivial = at least one reuse and one allocation"),
    level_text=("Machine-checked proof (Coq): RegistryKey::next is the cyclic successor on the 2^24-1 writable keys (arithmetic); for every compression "
                "schema, every abstract compressing context and every decompression context that holds the produced registrations, "
                "decompress(compress v) = restore(erase_skipped v) (mutual induction over the schema); with agreeing facts all non-skipped fields are "
                "unchanged; the stripped (id) view is preserved given the list inclusion 'skipped and unrestored => malleable', which is proved for the "
                "transaction schema whose skip flags are regenerated from the Rust source on every run; the harness-style rotating registry can always "
                "decompress its own output (pinning invariant)."),
    level_note=("Generic over the context; the real fuel-core registry is outside this repository. Id statement relative to the abstract id view "
                "(dependency on C03 noted). No finding: on the unchanged tree every oracle check passes."),
    technique="Coq proof by mutual induction over a compression-schema universe + translator for the skip flags + differential replay of transaction sequences",
    design_ref="6/C07",
)
