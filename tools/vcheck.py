#!/usr/bin/env python3
"""vcheck.py — orchestrator of one property check (see DESIGN.md §2–§5).

  vcheck.py <Cxx> <quick|thorough> [--replay FILE]

Per run:  regenerate coq/Gen/*.v from /repo (translators)  ->  make the property's Coq targets
->  re-compile Properties/Cxx.v and audit `Print Assumptions`  ->  hygiene grep  ->  build the
Rust harness against /repo's current tree  ->  harness produces cases (+ implementation-level
oracle verdicts)  ->  the Gallina L1 model is evaluated on the same cases by coqc/vm_compute
->  decide, write /verif/evidence/Cxx.json, print VIOLATION / KNOWN-FINDING lines.
"""
import sys, os, json, subprocess, time, hashlib, re, shutil, glob, fcntl
from concurrent.futures import ThreadPoolExecutor

VERIF = os.path.dirname(os.path.dirname(os.path.abspath(__file__)))
COQ = os.path.join(VERIF, "coq")
HARNESS = os.path.join(VERIF, "harness")
REPO = os.environ.get("VERIF_REPO", "/repo")
WORK = os.path.join(VERIF, "work")
sys.path.insert(0, os.path.join(VERIF, "tools"))
import props as PROPS  # noqa: E402

ENV = dict(os.environ, CARGO_NET_OFFLINE="true")
ALLOWED_AXIOMS_DEFAULT = set()      # property files may extend through props.py
HYGIENE_RE = re.compile(
    r"\b(Admitted|admit|Axiom|Axioms|Parameter|Parameters|Conjecture|Conjectures|Hypothesis|Hypotheses|"
    r"Variable|Variables|Abort)\b|Unset\s+Guard|bypass_check|type-in-type|impredicative-set|Admit\s+Obligations|Unset\s+Universe\s+Checking|Unset\s+Positivity")


def _limit_mem(gb):
    import resource
    def f():
        resource.setrlimit(resource.RLIMIT_AS, (gb << 30, gb << 30))
        # long literals in generated case files / deep non-tail recursion under vm_compute need a
        # large C stack (coqc otherwise dies with "Stack overflow")
        try:
            resource.setrlimit(resource.RLIMIT_STACK, (resource.RLIM_INFINITY, resource.RLIM_INFINITY))
        except (ValueError, OSError):
            try:
                soft, hard = resource.getrlimit(resource.RLIMIT_STACK)
                resource.setrlimit(resource.RLIMIT_STACK, (hard, hard))
            except (ValueError, OSError):
                pass
    return f


def sh(cmd, cwd=None, timeout=None, env=None, mem_gb=None):
    try:
        p = subprocess.run(cmd, cwd=cwd, timeout=timeout, env=env or ENV, stdout=subprocess.PIPE,
                           stderr=subprocess.STDOUT, text=True, shell=isinstance(cmd, str),
                           preexec_fn=_limit_mem(mem_gb) if mem_gb else None)
        return p.returncode, p.stdout
    except subprocess.TimeoutExpired as e:
        out = e.stdout if isinstance(e.stdout, str) else (e.stdout or b"").decode("utf8", "replace")
        return 124, (out or "") + "\n[timeout]"


class Lock:
    def __init__(self, name):
        os.makedirs(WORK, exist_ok=True)
        self.path = os.path.join(WORK, name + ".lock")

    def __enter__(self):
        self.f = open(self.path, "w")
        fcntl.flock(self.f, fcntl.LOCK_EX)

    def __exit__(self, *a):
        fcntl.flock(self.f, fcntl.LOCK_UN)
        self.f.close()


# ----------------------------------------------------------------------------- Coq side
def strip_comments(src):
    out, depth, i = [], 0, 0
    while i < len(src):
        if src.startswith("(*", i):
            depth += 1; i += 2
        elif src.startswith("*)", i) and depth > 0:
            depth -= 1; i += 2
        else:
            if depth == 0:
                out.append(src[i])
            elif src[i] == "\n":
                out.append("\n")
            i += 1
    return "".join(out)


def coq_closure(roots):
    """Transitive closure of `From FV Require Import/Export X.Y` starting from roots (paths relative to coq/)."""
    seen, todo = set(), list(roots)
    while todo:
        rel = todo.pop()
        if rel in seen:
            continue
        path = os.path.join(COQ, rel)
        if not os.path.exists(path):
            continue
        seen.add(rel)
        src = strip_comments(open(path).read())
        for m in re.finditer(r"From\s+FV\s+Require\s+(?:Import|Export)?\s*((?:[A-Za-z_]\w*(?:\.[A-Za-z_]\w*)*\s*)+)\.(?=\s)", src + " "):
            for mod in m.group(1).split():
                todo.append(mod.replace(".", "/") + ".v")
        for m in re.finditer(r"Require\s+(?:Import\s+|Export\s+)?FV\.([\w.]*\w)", src):
            todo.append(m.group(1).replace(".", "/") + ".v")
    return sorted(seen)


def hygiene(files=None):
    """No Admitted/admit/Axiom/Parameter/...; Variable/Hypothesis only inside a Section.
    `files`: paths relative to coq/ (default: every .v file of the development)."""
    problems = []
    if files is None:
        paths = sorted(glob.glob(os.path.join(COQ, "**", "*.v"), recursive=True))
    else:
        paths = [os.path.join(COQ, f) for f in files]
    for path in paths:
        src = strip_comments(open(path).read())
        # blank out string literals
        src = re.sub(r'"[^"]*"', '""', src)
        depth = 0
        for ln, line in enumerate(src.split("\n"), 1):
            if re.match(r"\s*Section\s+\w+", line):
                depth += 1
            if re.match(r"\s*End\s+\w+\s*\.", line) and depth > 0:
                depth -= 1
            for m in HYGIENE_RE.finditer(line):
                w = m.group(0)
                if w in ("Variable", "Variables", "Hypothesis", "Hypotheses") and depth > 0:
                    continue
                problems.append("%s:%d: %s" % (os.path.relpath(path, VERIF), ln, w))
    return problems


def write_if_changed(path, content):
    if os.path.exists(path) and open(path).read() == content:
        return False
    os.makedirs(os.path.dirname(path), exist_ok=True)
    open(path, "w").write(content)
    return True


def coq_project():
    files = sorted(os.path.relpath(p, COQ) for p in glob.glob(os.path.join(COQ, "**", "*.v"), recursive=True))
    content = "-Q . FV\n-arg -w -arg -notation-overridden,-abstract-large-number,-deprecated-hint-without-locality\n" + "\n".join(files) + "\n"
    changed = write_if_changed(os.path.join(COQ, "_CoqProject"), content)
    if changed or not os.path.exists(os.path.join(COQ, "Makefile")):
        rc, out = sh(["coq_makefile", "-f", "_CoqProject", "-o", "Makefile"], cwd=COQ, timeout=120)
        if rc != 0:
            raise RuntimeError("coq_makefile failed: " + out)


def run_translators(names):
    """Each translator module tools/gen_<name>.py has generate(repo) -> {relpath: content}."""
    info = {}
    for n in names:
        mod = __import__("gen_" + n)
        try:
            files = mod.generate(REPO)
        except Exception as e:  # a translator that no longer understands the source = broken tie
            info[n] = {"error": "%s: %s" % (type(e).__name__, e)}
            continue
        for rel, content in files.items():
            write_if_changed(os.path.join(COQ, rel), content)
            info[rel] = hashlib.sha256(content.encode()).hexdigest()[:16]
    return info


def make_targets(targets, timeout):
    with Lock("coq"):
        coq_project()
        rc, out = sh(["make", "-j16"] + targets, cwd=COQ, timeout=timeout, mem_gb=12)
    return rc, out


def audit_property_file(pid, theorems, allowed):
    """Re-compile Properties/<pid>.v (tiny file) to capture `Print Assumptions` output."""
    src_path = os.path.join(COQ, "Properties", pid + ".v")
    src = strip_comments(open(src_path).read())
    res = {"theorems": {}, "errors": []}
    tmpdir = os.path.join(WORK, pid, "audit")
    os.makedirs(tmpdir, exist_ok=True)
    rc, out = sh(["coqc", "-Q", ".", "FV", "-w", "-notation-overridden,-abstract-large-number",
                  os.path.join("Properties", pid + ".v"), "-o", os.path.join(tmpdir, pid + ".vo")],
                 cwd=COQ, timeout=600, mem_gb=12)
    if rc != 0:
        res["errors"].append("coqc Properties/%s.v failed: %s" % (pid, out[-1500:]))
        return res
    # split output into blocks per Print Assumptions, in order of appearance in the source
    printed = re.findall(r"Print\s+Assumptions\s+(\w+)\s*\.", src)
    blocks = re.split(r"(?m)^(?=Closed under the global context|Axioms:)", out)
    blocks = [b for b in blocks if b.startswith("Closed under") or b.startswith("Axioms:")]
    if len(blocks) != len(printed):
        res["errors"].append("cannot match Print Assumptions output (%d blocks, %d commands)" % (len(blocks), len(printed)))
    amap = dict(zip(printed, blocks))
    for th in theorems:
        if not re.search(r"\b(Theorem|Lemma|Corollary)\s+%s\b" % re.escape(th), src):
            res["errors"].append("theorem %s not stated in Properties/%s.v" % (th, pid))
            continue
        if th not in amap:
            res["errors"].append("no Print Assumptions for %s" % th)
            continue
        b = amap[th]
        if b.startswith("Closed under"):
            res["theorems"][th] = []
        else:
            axs = re.findall(r"(?m)^([A-Za-z_][\w.']*)\s*:", b[len("Axioms:"):])
            res["theorems"][th] = axs
            bad = [a for a in axs if a not in allowed]
            if bad:
                res["errors"].append("theorem %s depends on non-allow-listed axioms: %s" % (th, ", ".join(bad)))
    return res


# ----------------------------------------------------------------------------- harness side
def build_harness(binname, timeout=1500):
    with Lock("cargo"):
        lock_src = os.path.join(REPO, "Cargo.lock")
        lock_dst = os.path.join(HARNESS, "Cargo.lock")
        if os.path.exists(lock_src) and not os.path.exists(lock_dst):
            shutil.copy(lock_src, lock_dst)
        rc, out = sh(["cargo", "build", "--release", "--offline", "--bin", binname], cwd=HARNESS, timeout=timeout)
    return rc, out


def run_harness(binname, pid, tier, seed, outdir, shards, extra=None, timeout=1200):
    shutil.rmtree(outdir, ignore_errors=True)
    os.makedirs(outdir, exist_ok=True)
    cmd = [os.path.join(HARNESS, "target", "release", binname), "--prop", pid, "--tier", tier,
           "--seed", str(seed), "--out", outdir, "--shards", str(shards)] + (extra or [])
    rc, out = sh(cmd, cwd=VERIF, timeout=timeout)
    meta = None
    mp = os.path.join(outdir, "meta.json")
    if os.path.exists(mp):
        meta = json.load(open(mp))
    return rc, out, meta


def run_model_shard(path, timeout):
    rc, out = sh(["coqc", "-noglob", "-Q", COQ, "FV", "-w", "-notation-overridden,-abstract-large-number", path],
                 cwd=os.path.dirname(path), timeout=timeout, mem_gb=12)
    if rc != 0:
        return {"path": path, "error": out[-2000:]}
    m = re.search(r"=\s*\[(.*?)\]\s*:\s*list N", out, re.S)
    if not m:
        return {"path": path, "error": "unparsable coqc output: " + out[-500:]}
    body = m.group(1).strip()
    bad = [int(x) for x in re.findall(r"\d+", body)] if body else []
    return {"path": path, "bad": bad}


def run_model(meta, timeout, workers=16):
    shards = meta.get("shards", [])
    with ThreadPoolExecutor(max_workers=workers) as ex:
        return list(ex.map(lambda p: run_model_shard(p, timeout), shards))


# ----------------------------------------------------------------------------- main
def load_known():
    p = os.path.join(VERIF, "known_findings.json")
    if os.path.exists(p):
        return json.load(open(p))
    return {"findings": [], "fixed": []}


def write_replay(pid, obj):
    os.makedirs(os.path.join(VERIF, "replays"), exist_ok=True)
    h = hashlib.sha256(json.dumps(obj, sort_keys=True).encode()).hexdigest()[:12]
    path = os.path.join(VERIF, "replays", "%s-%s.json" % (pid, h))
    json.dump(obj, open(path, "w"), indent=1)
    return path


def main():
    if len(sys.argv) < 3:
        print(__doc__); sys.exit(2)
    pid, tier = sys.argv[1], sys.argv[2]
    replay = None
    if "--replay" in sys.argv:
        replay = os.path.abspath(sys.argv[sys.argv.index("--replay") + 1])
        rj = json.load(open(replay))
        if "replay" in rj and isinstance(rj["replay"], dict) and "kind" not in rj:
            # our replay files wrap the harness input under "replay"
            inner = os.path.join(WORK, pid, "replay_input.json")
            os.makedirs(os.path.dirname(inner), exist_ok=True)
            json.dump(rj["replay"], open(inner, "w"))
            replay = inner
    tier = os.environ.get("VERIF_TIER", tier) if tier not in ("quick", "thorough") else tier
    seed = int(os.environ.get("VERIF_SEED", "0") or 0)
    P = PROPS.PROPS[pid]
    t0 = time.time()
    violations = []          # (replay_path, concrete: bool, text)
    known_lines = []
    broken = []              # names of theorems / correspondences that no longer check
    notes = []

    # 1. translators
    gen_info = run_translators(P.get("translators", []))
    for k, v in gen_info.items():
        if isinstance(v, dict) and "error" in v:
            broken.append("translator %s: %s" % (k, v["error"]))

    # 2. Coq build of this property's targets (full .vo, dependencies included)
    targets = ["Properties/%s.vo" % pid] + P.get("coq_targets", [])
    rc, out = make_targets(targets, timeout=P.get("coq_timeout", 1500))
    proof_ok = rc == 0
    if not proof_ok:
        m = re.findall(r'File "\./([^"]+)", line (\d+)[^\n]*\n((?:.*\n){0,12})', out)
        where = "; ".join("%s:%s" % (a, b) for a, b, _ in m[:3]) or "make failed"
        broken.append("proof obligation no longer checks (%s): %s" % (where, out[-1200:]))
    # 3. audit
    theorems = P["theorems"]
    discharged = 0
    axioms_seen = {}
    if proof_ok:
        aud = audit_property_file(pid, theorems, set(P.get("allowed_axioms", [])) | ALLOWED_AXIOMS_DEFAULT)
        for e in aud["errors"]:
            broken.append("audit: " + e)
        axioms_seen = aud["theorems"]
        discharged = len([t for t in theorems if t in aud["theorems"]]) if not aud["errors"] else 0
    # thorough tier: independent re-check of the compiled property file and everything it depends on
    coqchk_info = None
    if tier == "thorough" and proof_ok:
        rc_c, out_c = sh(["coqchk", "-o", "-silent", "-Q", ".", "FV", "FV.Properties.%s" % pid], cwd=COQ,
                         timeout=P.get("coqchk_timeout", 2400), mem_gb=12)
        if rc_c == 124:
            coqchk_info = {"status": "timeout (not counted)"}
            notes.append("coqchk timed out; kernel re-check not completed on this run")
        elif rc_c != 0:
            coqchk_info = {"status": "failed", "output": out_c[-800:]}
            broken.append("coqchk rejected Properties/%s.vo: %s" % (pid, out_c[-400:]))
        else:
            ax = re.search(r"\* Axioms:\s*(.*?)\n\s*\n", out_c, re.S)
            axs = ax.group(1).strip() if ax else "?"
            coqchk_info = {"status": "ok", "axioms": axs}
            if axs != "<none>":
                extra = [a for a in re.findall(r"[\w.']+", axs) if a not in set(P.get("allowed_axioms", []))]
                if extra:
                    broken.append("coqchk reports axioms outside the allow-list: %s" % axs[:300])
    closure = coq_closure(["Properties/%s.v" % pid] + [t[:-1] for t in P.get("coq_targets", [])]
                          + ([P["run_vo"][:-1]] if P.get("run_vo") else []))
    hyg = hygiene(closure)
    if hyg:
        broken.append("hygiene: " + "; ".join(hyg[:10]))
        discharged = 0

    # 4. harness + model correspondence
    corr = {"cases": 0, "distinct_nontrivial": 0, "disagreements": [], "model_errors": []}
    meta = None
    if P.get("harness"):
        binname = P["harness"]
        rc, out = build_harness(binname)
        if rc != 0:
            broken.append("harness build failed against the current tree: " + out[-1500:])
        else:
            outdir = os.path.join(WORK, pid, "cases")
            extra = ["--replay", replay] if replay else []
            if tier == "thorough" and P.get("thorough_scale") and not replay:
                extra += ["--scale", str(P["thorough_scale"])]
            shards = 16 if tier == "thorough" else P.get("quick_shards", 8)
            rc, out, meta = run_harness(binname, pid, tier, seed, outdir, shards, extra,
                                        timeout=P.get("harness_timeout", 1500))
            if rc != 0 or meta is None:
                broken.append("harness run failed (rc=%s): %s" % (rc, out[-1500:]))
            else:
                corr["cases"] = meta["cases"]
                corr["distinct_nontrivial"] = meta["distinct_nontrivial"]
                if proof_ok or os.path.exists(os.path.join(COQ, P.get("run_vo", "Run/None.vo"))):
                    # make sure the runner module is compiled
                    if P.get("run_vo"):
                        rcm, outm = make_targets([P["run_vo"]], timeout=900)
                        if rcm != 0:
                            broken.append("model runner does not compile: " + outm[-800:])
                    results = run_model(meta, timeout=P.get("model_timeout", 900) if tier == "quick" else max(3000, P.get("model_timeout", 900)),
                                        workers=P.get("model_workers", 16))
                    for r in results:
                        if "error" in r:
                            corr["model_errors"].append(r["error"][-600:])
                        else:
                            corr["disagreements"].extend(r["bad"])
                    if corr["model_errors"]:
                        broken.append("correspondence: model evaluation failed: " + corr["model_errors"][0])
                    if corr["disagreements"]:
                        broken.append("correspondence %s: model and implementation disagree on case(s) %s"
                                      % (binname, corr["disagreements"][:8]))

    # 5. implementation-level oracle verdicts and known findings
    known = load_known()
    known_classes = {(f["property"], f["class"]): f for f in known.get("findings", [])}
    oracle_fail = meta["oracle_failures"] if meta else []
    seen_known = set()
    by_class = {}
    for f in oracle_fail:
        key = (pid, f["class"])
        if key in known_classes:
            if key not in seen_known:
                seen_known.add(key)
                known_lines.append("KNOWN-FINDING: property=%s %s" % (pid, known_classes[key]["what"]))
        else:
            # one VIOLATION per failing class, with the smallest failing input of that class as replay
            cur = by_class.get(f["class"])
            if cur is None or len(json.dumps(f["replay"])) < len(json.dumps(cur["replay"])):
                by_class[f["class"]] = f
    for cls, f in sorted(by_class.items()):
        n_cls = len([g for g in oracle_fail if g["class"] == cls])
        path = write_replay(pid, {"property": pid, "class": cls, "what": f["what"], "replay": f["replay"], "failing_inputs_of_this_class": n_cls})
        violations.append((path, True, "%s [class %s, %d failing inputs]" % (f["what"], cls, n_cls)))
    # a listed known finding must still reproduce (otherwise say so; it is not an alarm)
    for (p_, c_), f in known_classes.items():
        if p_ == pid and (p_, c_) not in seen_known and meta is not None and not replay:
            notes.append("known finding %s/%s did not reproduce on this run" % (p_, c_))

    # 6. broken tie / proof without a concrete failing input: search, then report
    if broken and not violations:
        found = None
        if P.get("harness") and meta is not None or P.get("harness"):
            # larger implementation-only search, seeded with the disagreeing cases
            sdir = os.path.join(WORK, pid, "search")
            extra = ["--oracle-only", "--scale", str(P.get("search_scale", 8))]
            rc, out, smeta = run_harness(P["harness"], pid, "thorough", seed + 1, sdir, 1, extra,
                                         timeout=P.get("search_timeout", 1200)) if os.path.exists(
                os.path.join(HARNESS, "target", "release", P["harness"])) else (1, "", None)
            if smeta:
                for f in smeta["oracle_failures"]:
                    if (pid, f["class"]) not in known_classes:
                        found = f; break
        if found:
            path = write_replay(pid, {"property": pid, "class": found["class"], "what": found["what"],
                                      "replay": found["replay"], "broken": broken})
            violations.append((path, True, found["what"]))
        else:
            dis_cases = []
            if meta and corr["disagreements"]:
                cj = meta.get("case_json", [])
                dis_cases = [cj[i] for i in corr["disagreements"][:3] if i < len(cj)]
            path = write_replay(pid, {"property": pid, "no_failing_input_found": True, "broken": broken,
                                      "disagreeing_cases": dis_cases})
            violations.append((path, False, broken[0][:300]))

    wall = time.time() - t0
    # 7. evidence
    ev = {
        "property_id": pid, "tier": tier, "seed": seed, "level": "proof",
        "coverage": {
            "obligations": len(theorems), "discharged": discharged,
            "checker_cmd": "make -C coq Properties/%s.vo (coqc 8.16.1, full .vo) && coqc Properties/%s.v [Print Assumptions audit]" % (pid, pid),
            "trusted_base": P.get("trusted_base", []) + PROPS.COMMON_TRUSTED,
            "theorems": theorems,
            "axioms": axioms_seen,
            "open_statements": P.get("open_statements", []),
            "gen_files": gen_info,
            "coq_files": closure,
            "coqchk": coqchk_info,
            "evaluations": (meta["cases"] + meta.get("oracle_evaluations", 0)) if meta else 0,
            "distinct_nontrivial": corr["distinct_nontrivial"],
            "rule": P.get("rule", ""),
            "samples": (meta["samples"] if meta else [])[:6],
            "correspondence": {"cases": corr["cases"], "disagreements_checked": len(corr["disagreements"]),
                               "distribution": meta["distribution"] if meta else {},
                               "oracle_evaluations": meta.get("oracle_evaluations", 0) if meta else 0},
            "known_findings_replayed": sorted(c for (_, c) in seen_known),
            "notes": notes + (meta.get("notes", []) if meta else []),
            "broken": broken,
        },
        "assumptions": P.get("assumptions", []),
        "wall_s": round(wall, 2),
        "violations": len(violations),
    }
    os.makedirs(os.path.join(VERIF, "evidence"), exist_ok=True)
    json.dump(ev, open(os.path.join(VERIF, "evidence", pid + ".json"), "w"), indent=1)

    for l in known_lines:
        print(l)
    for path, concrete, text in violations:
        print("# %s" % text.replace("\n", " ")[:400])
        print("VIOLATION property=%s replay=%s%s" % (pid, path, "" if concrete else " no-failing-input-found"))
    print("%s %s: theorems %d/%d, cases %d (distinct non-trivial %d), disagreements %d, oracle failures %d, %.1fs"
          % (pid, tier, discharged, len(theorems), corr["cases"], corr["distinct_nontrivial"],
             len(corr["disagreements"]), len(oracle_fail), wall))
    sys.exit(1 if violations else 0)


if __name__ == "__main__":
    main()
