#!/bin/bash
# Evaluate the checks against a seeded change WITHOUT touching /repo (other builders use it):
#   tools/muteval.sh <patch.diff> <Cxx> [quick|thorough]
# Uses a scratch worktree /tmp/mrepo$MUT_ID and a scratch copy of /verif at /tmp/mverif$MUT_ID whose harness
# points at the scratch worktree.  (The final confirmation against /repo itself is done with
# `git -C /repo apply` / `git -C /repo checkout -- .` when no builder is running.)
set -u
PATCH=$(readlink -f "$1"); PID=$2; TIER=${3:-quick}
MR=/tmp/mrepo${MUT_ID:-}; MV=/tmp/mverif${MUT_ID:-}
if [ ! -d $MR ]; then git -C /repo worktree add --detach $MR HEAD -q; fi
git -C $MR checkout -q --detach $(git -C /repo rev-parse HEAD)
git -C $MR checkout -- . ; git -C $MR clean -fdq -e target
mkdir -p $MV
rsync -a --delete --exclude harness/target --exclude work --exclude .git --exclude replays --exclude evidence /verif/ $MV/
sed -i "s|path = \"/repo/|path = \"$MR/|g" $MV/harness/Cargo.toml
mkdir -p $MV/evidence
git -C $MR apply "$PATCH" || { echo "patch does not apply"; exit 3; }
( cd $MV && VERIF_REPO=$MR timeout 3000 ./check "$PID" "$TIER" ); RC=$?
git -C $MR checkout -- . ; git -C $MR clean -fdq -e target
echo "muteval rc=$RC"
exit $RC
