#!/bin/bash
# Evaluate the checks against a seeded change WITHOUT touching /repo (other builders use it):
#   tools/muteval.sh <patch.diff> <Cxx> [quick|thorough]
# Uses a scratch worktree /tmp/mrepo and a scratch copy of /verif at /tmp/mverif whose harness
# points at the scratch worktree.  (The final confirmation against /repo itself is done with
# `git -C /repo apply` / `git -C /repo checkout -- .` when no builder is running.)
set -u
PATCH=$(readlink -f "$1"); PID=$2; TIER=${3:-quick}
if [ ! -d /tmp/mrepo ]; then git -C /repo worktree add --detach /tmp/mrepo HEAD -q; fi
git -C /tmp/mrepo checkout -q --detach $(git -C /repo rev-parse HEAD)
git -C /tmp/mrepo checkout -- . ; git -C /tmp/mrepo clean -fdq -e target
mkdir -p /tmp/mverif
rsync -a --delete --exclude harness/target --exclude work --exclude .git --exclude replays --exclude evidence /verif/ /tmp/mverif/
sed -i 's|path = "/repo/|path = "/tmp/mrepo/|g' /tmp/mverif/harness/Cargo.toml
mkdir -p /tmp/mverif/evidence
git -C /tmp/mrepo apply "$PATCH" || { echo "patch does not apply"; exit 3; }
( cd /tmp/mverif && VERIF_REPO=/tmp/mrepo timeout 3000 ./check "$PID" "$TIER" ); RC=$?
git -C /tmp/mrepo checkout -- . ; git -C /tmp/mrepo clean -fdq -e target
echo "muteval rc=$RC"
exit $RC
