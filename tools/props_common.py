"""Per-property configuration read by vcheck.py and mkmanifest.py.

Each entry:  harness (binary under harness/src/bin), run_vo (Coq runner module the case files
import), theorems (names that must be stated in coq/Properties/Cxx.v, each followed by
Print Assumptions), open_statements (parts of the full claim not proved: listed in evidence,
never counted as discharged), translators (tools/gen_<name>.py run on every check), texts for
MANIFEST.json."""

COMMON_TRUSTED = [
    "Coq 8.16.1 kernel / coqc (full .vo build; no -vos, no native_compute, no type-in-type)",
    "vm_compute: used to evaluate the executable L1 model on correspondence cases, and inside proofs only for closed finite checks whose bound is in the statement",
    "correspondence harness /verif/harness (generators, printers of cases as Coq terms, implementation-level oracles); rustc/cargo and the crates' own dependencies",
    "tools/vcheck.py (orchestration, parsing of coqc output)",
    "the L3 specification files (they define what the theorems mean)",
]

SHA_NOTE = ("Base/Sha256.v (Gallina SHA-256 over Coq primitive Uint63) is the executable hash instance used only in "
            "correspondence runs; every theorem is parametric in the hash functions")


