#!/usr/bin/env python3
"""gen_gastable.py — translator for C26 (reused by C29): regenerates coq/Gen/GasTable.v from

  fuel-asm/src/lib.rs                                     opcode bytes / argument shapes
  fuel-vm/src/interpreter/executors/opcodes_impl.rs       the FIRST gas charge of every handler:
        gas_charge(gas_costs().f())                -> SelFixed "f"
        dependent_gas_charge(gas_costs().f(), arg) -> SelDep "f"   + where `arg` comes from (register field / immediate)
        no charge in the handler, helper charges   -> SelInner "f" (f found in the helper: `gas_costs().f()` + `gas_charge(gas_cost.base())`)
        CALL (prepare_call: gas_charge(gas_cost.base()) then dependent_gas_charge_without_base) -> SelDepBase "call"
        ECAL (no charge)                            -> SelNone
    and whether the instruction may charge more afterwards (helpers containing gas charges,
    storage instructions charging `noop` first)
  fuel-tx/src/transaction/consensus_parameters/gas/default_gas_costs.rs    default values
  fuel-vm/src/interpreter/gas.rs                          pins the text of gas_charge
  fuel-tx/src/transaction/consensus_parameters/gas.rs     pins the text of DependentCost::resolve*

Raises on syntax it does not understand."""
import re, os, glob


class TranslateError(Exception):
    pass


def read(repo, rel):
    return open(os.path.join(repo, rel)).read()


def parse_optable(repo):
    src = read(repo, "fuel-asm/src/lib.rs")
    m = re.search(r"impl_instructions!\s*\{(.*?)\n\}", src, re.S)
    if not m:
        raise TranslateError("impl_instructions! block not found")
    ops = []
    for mm in re.finditer(r"(0x[0-9a-fA-F]{2})\s+([A-Z0-9]+)\s+(\w+)\s+\[([^\]]*)\]", m.group(1)):
        byte, name, fn, args = mm.groups()
        ops.append((int(byte, 16), name, re.findall(r"(\w+)\s*:\s*(\w+)", args)))
    if len(ops) < 100:
        raise TranslateError("only %d opcodes parsed" % len(ops))
    return ops


def split_handlers(repo):
    src = read(repo, "fuel-vm/src/interpreter/executors/opcodes_impl.rs")
    parts = re.split(r"(?=impl<M, S, Tx, Ecal, V> Execute<M, S, Tx, Ecal, V> for fuel_asm::op::)", src)
    out = {}
    for p in parts[1:]:
        name = re.match(r"impl<M, S, Tx, Ecal, V> Execute<M, S, Tx, Ecal, V> for fuel_asm::op::(\w+)", p).group(1)
        i = p.find("IoResult<ExecuteState, S::DataError> {")
        if i < 0:
            raise TranslateError("handler body of %s not found" % name)
        out[name] = re.sub(r"//[^\n]*", "", p[i:])
    return out


def fn_bodies(repo):
    """name -> concatenated bodies of every `fn name` under fuel-vm/src/interpreter (except opcodes_impl.rs, tests)"""
    bodies = {}
    base = os.path.join(repo, "fuel-vm/src/interpreter")
    for path in glob.glob(os.path.join(base, "**", "*.rs"), recursive=True):
        if path.endswith("opcodes_impl.rs") or "test" in os.path.basename(path) or "/tests" in path:
            continue
        src = re.sub(r"//[^\n]*", "", open(path).read())
        for m in re.finditer(r"\bfn\s+(\w+)\s*(?:<[^>{]*>)?\s*\(", src):
            i = src.find("{", m.end())
            semi = src.find(";", m.end())
            if i < 0 or (0 <= semi < i):
                continue
            depth, k = 1, i + 1
            while depth and k < len(src):
                if src[k] == "{":
                    depth += 1
                elif src[k] == "}":
                    depth -= 1
                k += 1
            bodies[m.group(1)] = bodies.get(m.group(1), "") + src[i:k]
    return bodies


FIELD = ["FA", "FB", "FC", "FD"]


def field_map(name, body, shape):
    m = re.search(r"let\s+\(?([\w\s,]+?)\)?\s*=\s*self\.unpack\(\)(\.into\(\))?;", body)
    if not m:
        return {}, None
    names = [x.strip() for x in m.group(1).split(",") if x.strip()]
    if len(names) != len(shape):
        raise TranslateError("%s: unpack arity %d != shape %d" % (name, len(names), len(shape)))
    out, k = {}, 0
    for n, (_, ty) in zip(names, shape):
        if ty == "RegId":
            out[n] = ("reg", k)
            k += 1
        else:
            out[n] = ("imm", ty[3:])
    return out, (names[0] if m.group(2) else None)


def units_of(name, arg, body, fm):
    """where the unit count of a dependent charge comes from"""
    arg = re.sub(r"\s+", "", arg)
    def reg(expr):
        m = re.fullmatch(r"interpreter\.registers\[(\w+)\]", expr)
        if m and fm.get(m.group(1), ("", 0))[0] == "reg":
            return FIELD[fm[m.group(1)][1]]
        return None
    r = reg(arg)
    if r:
        return "(UReg %s)" % r
    if not re.fullmatch(r"\w+", arg):
        raise TranslateError("%s: dependent charge argument %r not understood" % (name, arg))
    # a local: find its binding
    m = re.search(r"let\s+(mut\s+)?%s\s*=\s*([^;]+);" % re.escape(arg), body)
    if not m:
        raise TranslateError("%s: binding of %s not found" % (name, arg))
    rhs = re.sub(r"\s+", "", m.group(2))
    if m.group(1):
        # ED19 idiom: `let mut len = registers[len]; if len == 0 { len = 32; }`
        r = reg(rhs)
        if r and re.search(r"if\s+%s\s*==\s*0\s*\{\s*%s\s*=\s*32;\s*\}" % (arg, arg), body):
            return "(UReg0is32 %s)" % r
        raise TranslateError("%s: mutable unit count not understood" % name)
    r = reg(rhs)
    if r:
        return "(UReg %s)" % r
    mm = re.fullmatch(r"Word::from\((\w+)\)", rhs) or re.fullmatch(r"(\w+)\.into\(\)", rhs)
    if mm and fm.get(mm.group(1), ("", 0))[0] == "imm":
        return "(UImm I%s)" % fm[mm.group(1)][1]
    if rhs == "self.unpack().into()":
        return None  # resolved by caller from the shape
    raise TranslateError("%s: unit count %s = %s not understood" % (name, arg, rhs))


def pin_semantics(repo):
    g = re.sub(r"\s+", "", re.sub(r"//[^\n]*", "", read(repo, "fuel-vm/src/interpreter/gas.rs")))
    want = ("ifgas_to_use>cgas_before{*reg_ggas=ggas_before.saturating_sub(cgas_before);*reg_cgas=0;Err(PanicReason::OutOfGas.into())}"
            "else{*reg_ggas=ggas_before-gas_to_use;*reg_cgas=cgas_before-gas_to_use;Ok(())}")
    if want not in g:
        raise TranslateError("gas.rs: gas_charge no longer has the modelled shape")
    if "letcost=gas_cost.resolve(arg);gas_charge(cgas.as_mut(),ggas,cost)" not in g or "letcost=gas_cost.resolve_without_base(arg);gas_charge(cgas.as_mut(),ggas,cost)" not in g:
        raise TranslateError("gas.rs: dependent_gas_charge* changed")
    t = re.sub(r"\s+", "", re.sub(r"//[^\n]*", "", read(repo, "fuel-tx/src/transaction/consensus_parameters/gas.rs")))
    for frag in ["pubfnresolve(&self,units:Word)->Word{letbase=self.base();letdependent_value=self.resolve_without_base(units);base.saturating_add(dependent_value)}",
                 "DependentCost::LightOperation{units_per_gas,..}=>{units.checked_div(*units_per_gas).expect(\"units_per_gascannotbezero\")}",
                 "DependentCost::HeavyOperation{gas_per_unit,..}=>{units.saturating_mul(*gas_per_unit)}"]:
        if frag not in t:
            raise TranslateError("gas.rs (fuel-tx): DependentCost::resolve changed: " + frag[:50])
    f = re.sub(r"\s+", "", re.sub(r"//[^\n]*", "", read(repo, "fuel-vm/src/interpreter/flow.rs")))
    for frag in ["letforward_gas_amount=cmp::min(*self.registers.system_registers.cgas,self.params.amount_of_gas_to_forward,);",
                 "*self.registers.system_registers.cgas=(*self.registers.system_registers.cgas).checked_sub(forward_gas_amount).ok_or_else(||Bug::new(BugVariant::ContextGasUnderflow))?;",
                 "*frame.context_gas_mut()=*self.registers.system_registers.cgas;",
                 "*self.registers.system_registers.cgas=forward_gas_amount;",
                 "registers[RegId::CGAS]=registers[RegId::CGAS].checked_add(frame.context_gas()).ok_or_else(||Bug::new(BugVariant::ContextGasOverflow))?;",
                 "self.gas_charge(gas_cost.base())?;",
                 "dependent_gas_charge_without_base(self.registers.system_registers.cgas.as_mut(),self.registers.system_registers.ggas.as_mut(),self.gas_cost,code_size_paddedasWord,)?;"]:
        if frag not in f:
            raise TranslateError("flow.rs: call/return gas handling changed: " + frag[:60])
    m = re.sub(r"\s+", "", re.sub(r"//[^\n]*", "", read(repo, "fuel-vm/src/interpreter/executors/main.rs")))
    if "letgas_used=gas_limit.checked_sub(self.remaining_gas()).ok_or_else(||Bug::new(BugVariant::GlobalGasUnderflow))?;" not in m:
        raise TranslateError("main.rs: gas_used computation changed")


def parse_defaults(repo):
    src = read(repo, "fuel-tx/src/transaction/consensus_parameters/gas/default_gas_costs.rs")
    m = re.search(r"GasCostsValuesV(\d+)\s*\{(.*)\}\s*\.into\(\)", src, re.S)
    if not m:
        raise TranslateError("default_gas_costs.rs: struct literal not found")
    body = re.sub(r"//[^\n]*", "", m.group(2))
    out = []
    pos = 0
    pat = re.compile(r"\s*(\w+)\s*:\s*(?:(\d[\d_]*)|DependentCost::(LightOperation|HeavyOperation)\s*\{\s*base\s*:\s*(\d[\d_]*)\s*,\s*(units_per_gas|gas_per_unit)\s*:\s*(\d[\d_]*)\s*,?\s*\})\s*,")
    while True:
        mm = pat.match(body, pos)
        if not mm:
            break
        name, fixed, kind, base, unit_name, unit = mm.groups()
        if fixed is not None:
            out.append((name, "CFixed %d" % int(fixed.replace("_", ""))))
        else:
            if (kind == "LightOperation") != (unit_name == "units_per_gas"):
                raise TranslateError("default_gas_costs.rs: %s has mismatched kind/unit" % name)
            if kind == "LightOperation" and int(unit.replace("_", "")) == 0:
                raise TranslateError("default_gas_costs.rs: %s has units_per_gas = 0" % name)
            out.append((name, "%s %d %d" % ("CLight" if kind == "LightOperation" else "CHeavy", int(base.replace("_", "")), int(unit.replace("_", "")))))
        pos = mm.end()
    if body[pos:].strip():
        raise TranslateError("default_gas_costs.rs: cannot parse near %r" % body[pos:pos + 60])
    if len(out) < 100:
        raise TranslateError("default_gas_costs.rs: only %d fields" % len(out))
    return out



# =====================================================================================
# full charge sequences (exact totals)
# =====================================================================================
def fn_defs(repo):
    """every fn definition under interpreter/: (name, signature text, body text), comments stripped"""
    out = []
    base = os.path.join(repo, "fuel-vm/src/interpreter")
    for path in sorted(glob.glob(os.path.join(base, "**", "*.rs"), recursive=True)):
        if path.endswith("opcodes_impl.rs") or "test" in os.path.basename(path) or "/tests" in path:
            continue
        src = re.sub(r"//[^\n]*", "", open(path).read())
        for m in re.finditer(r"\bfn\s+(\w+)\s*(?:<[^>{]*>)?\s*\(", src):
            i = src.find("{", m.end())
            semi = src.find(";", m.end())
            if i < 0 or (0 <= semi < i):
                continue
            depth, k = 1, i + 1
            while depth and k < len(src):
                if src[k] == "{":
                    depth += 1
                elif src[k] == "}":
                    depth -= 1
                k += 1
            out.append((m.group(1), re.sub(r"\s+", " ", src[m.start():i]), src[i:k]))
    return out


def pick(defs, name, sig_re):
    c = [d for d in defs if d[0] == name and re.search(sig_re, d[1])]
    if len(c) != 1:
        raise TranslateError("expected exactly one `fn %s` matching /%s/, found %d" % (name, sig_re, len(c)))
    return c[0]


def split_args(s):
    out, depth, cur = [], 0, ""
    for ch in s:
        if ch in "([{":
            depth += 1
        elif ch in ")]}":
            depth -= 1
        if ch == "," and depth == 0:
            out.append(cur)
            cur = ""
        else:
            cur += ch
    if cur.strip():
        out.append(cur)
    return [x.strip() for x in out]


class Env:
    """let-bindings of one function body + declared parameter meanings"""
    def __init__(self, opname, body, params):
        self.op, self.params = opname, params
        self.lets = {}
        for m in re.finditer(r"\blet\s+(?:mut\s+)?(\w+)\s*(?::\s*[\w:<>]+\s*)?=\s*([^;]+);", body):
            self.lets.setdefault(m.group(1), re.sub(r"\s+", "", m.group(2)))

    def expr(self, e, depth=0):
        e = re.sub(r"\s+", "", e)
        if depth > 12:
            raise TranslateError("%s: expression too deep" % self.op)
        while True:
            m = re.fullmatch(r"\((.*)\)", e)
            if m and balanced(m.group(1)):
                e = m.group(1)
                continue
            m = re.fullmatch(r"(.*)as(?:u64|Word|usize)", e)
            if m and balanced(m.group(1)):
                e = m.group(1)
                continue
            break
        m = re.fullmatch(r"core::cmp::max\((.*)\)", e)
        if m:
            a = split_args(m.group(1))
            if len(a) == 2:
                return "(XMax %s %s)" % (self.expr(a[0], depth + 1), self.expr(a[1], depth + 1))
        m = re.fullmatch(r"(\w+)\.max\((.*)\)", e)
        if m:
            return "(XMax %s %s)" % (self.expr(m.group(1), depth + 1), self.expr(m.group(2), depth + 1))
        m = re.fullmatch(r"padded_len_(?:word|usize)\((.*)\)\.ok_or\(PanicReason::MemoryOverflow\)\?", e)
        if m:
            return "(XPad8 %s)" % self.expr(m.group(1), depth + 1)
        m = re.fullmatch(r"(?:bytes::)?padded_len_word\((.*)\)\.unwrap_or\(Word::MAX\)", e)
        if m:
            return "(XPad8Max %s)" % self.expr(m.group(1), depth + 1)
        if re.fullmatch(r"contract_size\(&?self\.storage,[^()]*(\(\))?\)\?", e):
            return "(XObs OCodeSize)"
        if re.fullmatch(r"blob_size\(&?self\.storage,&\w+\)\?", e):
            return "(XObs OBlobSize)"
        if re.fullmatch(r"\w+", e):
            if e in self.lets:
                return self.expr(self.lets[e], depth + 1)
            if e in self.params:
                return self.params[e]
        raise TranslateError("%s: unit expression %r not understood" % (self.op, e))


def balanced(s):
    d = 0
    for ch in s:
        if ch in "([{":
            d += 1
        elif ch in ")]}":
            d -= 1
            if d < 0:
                return False
    return d == 0


def charges_in(opname, body, params, field, guard="GAlways"):
    """charge statements of one function body in textual order -> [(guard, item)]"""
    env = Env(opname, body, params)
    found = []
    for m in re.finditer(r"self\.gas_charge\(gas_cost\.base\(\)\)\?;", body):
        found.append((m.start(), guard, 'ChBase "%s"' % field))
    for m in re.finditer(r"(?:self\.)?dependent_gas_charge_without_base\(", body):
        j = m.end()
        depth, k = 1, j
        while depth:
            if body[k] == "(":
                depth += 1
            elif body[k] == ")":
                depth -= 1
            k += 1
        args = split_args(body[j:k - 1])
        g = guard
        # `if X == 0 { inc_pc(self.pc); return Ok(()) }` before the charge: guarded by X != 0
        mz = re.search(r"if\s+(\w+)\s*==\s*0\s*\{\s*inc_pc\(self\.pc\);\s*return\s+Ok\(\(\)\)\s*\}", body[:m.start()])
        if mz:
            gz = "(GNz %s)" % env.expr(mz.group(1))
            g = gz if guard == "GAlways" else "(GAnd %s %s)" % (guard, gz)
        found.append((m.start(), g, 'ChDepNoBase "%s" %s' % (field, env.expr(args[-1]))))
    for m in re.finditer(r"\bgas_charge\(\s*self\.(?:registers\.system_registers\.)?cgas(?:\.as_mut\(\))?,\s*self\.(?:registers\.system_registers\.)?ggas(?:\.as_mut\(\))?,\s*([^;]*?),?\s*\)\?;", body, re.S):
        amt = re.sub(r"\s+", "", m.group(1))
        if amt in ("((Bytes32::LEN+WORD_SIZE)asu64).saturating_mul(self.new_storage_gas_per_byte)",
                   "(BALANCE_ENTRY_SIZEasu64).saturating_mul(self.new_storage_gas_per_byte)"):
            pre = body[max(0, m.start() - 160):m.start()]
            if not re.search(r"if\s+(created_new_entry|old_value\.is_none\(\))\s*\{\s*$", pre):
                raise TranslateError("%s: new-entry charge is not guarded as expected" % opname)
            g = "GNewEntry" if guard == "GAlways" else "(GAnd %s GNewEntry)" % guard
            found.append((m.start(), g, "ChPerByte 40"))
        else:
            raise TranslateError("%s: gas_charge amount %r not understood" % (opname, amt))
    found.sort()
    return [(g, it) for _, g, it in found]


def multi_sequences(repo, handlers):
    defs = fn_defs(repo)
    R = lambda f: "(XReg %s)" % f
    hb = {k: re.sub(r"\s+", "", v) for k, v in handlers.items()}

    def need(op, frag):
        if frag not in hb[op]:
            raise TranslateError("%s: handler no longer calls its helper as modelled (%s)" % (op, frag[:50]))

    def field_of(d):
        m = re.search(r"let gas_cost = self\s*\.\s*(?:gas_costs\(\)|interpreter_params\s*\.\s*gas_costs)\s*\.\s*(\w+)\(\)", re.sub(r"\s+", " ", d[2]))
        if not m:
            raise TranslateError("fn %s: gas_cost binding not found" % d[0])
        return m.group(1)

    seqs = {}
    # CSIZ / CROO / CCP: wrapper charges base, Ctx charges the rest
    need("CSIZ", "interpreter.code_size(a,interpreter.registers[b])?;")
    w, c = pick(defs, "code_size", r"&mut self, ra: RegId, b: Word"), pick(defs, "code_size", r"\( self, result: &mut Word, b: Word")
    f = field_of(w)
    seqs["CSIZ"] = charges_in("CSIZ", w[2], {}, f) + charges_in("CSIZ", c[2], {"b": R("FB")}, f)
    need("CROO", "interpreter.code_root(interpreter.registers[a],interpreter.registers[b])?;")
    w, c = pick(defs, "code_root", r"&mut self, a: Word, b: Word"), pick(defs, "code_root", r"\(self, a: Word, b: Word")
    f = field_of(w)
    seqs["CROO"] = charges_in("CROO", w[2], {}, f) + charges_in("CROO", c[2], {"a": R("FA"), "b": R("FB")}, f)
    need("CCP", "interpreter.code_copy(interpreter.registers[a],interpreter.registers[b],interpreter.registers[c],interpreter.registers[d],)?;")
    w = pick(defs, "code_copy", r"&mut self, a: Word, b: Word, c: Word, d: Word")
    c = pick(defs, "code_copy", r"self, dst_addr: Word, contract_id_addr: Word, contract_offset: Word, length: Word")
    if "input.code_copy(a,b,c,d)" not in re.sub(r"\s+", "", w[2]):
        raise TranslateError("CCP: wrapper no longer forwards (a, b, c, d)")
    f = field_of(w)
    seqs["CCP"] = charges_in("CCP", w[2], {}, f) + charges_in("CCP", c[2], {"dst_addr": R("FA"), "contract_id_addr": R("FB"), "contract_offset": R("FC"), "length": R("FD")}, f)
    # LDC: base in the wrapper, then one of three modes
    need("LDC", "interpreter.load_contract_code(interpreter.registers[a],interpreter.registers[b],interpreter.registers[c],mode,)?;")
    w = pick(defs, "load_contract_code", r"&mut self, addr: Word, offset: Word, length_unpadded: Word, mode: Imm06")
    wb = re.sub(r"\s+", "", w[2])
    if ("matchmode.to_u8(){0=>input.load_contract_code(addr,offset,length_unpadded),1=>input.load_blob_code(addr,offset,length_unpadded),"
            "2=>input.load_memory_code(addr,offset,length_unpadded),_=>Err(PanicReason::InvalidImmediateValue.into()),}") not in wb:
        raise TranslateError("LDC: mode dispatch changed")
    f = field_of(w)
    seq = charges_in("LDC", w[2], {}, f)
    pm = {"length_unpadded": R("FC")}
    for mode, (fname, sig) in enumerate([("load_contract_code", r"mut self, contract_id_addr: Word, contract_offset: Word, length_unpadded: Word"),
                                         ("load_blob_code", r"mut self, blob_id_addr: Word, blob_offset: Word, length_unpadded: Word"),
                                         ("load_memory_code", r"mut self, input_src_addr: Word, input_offset: Word, length_unpadded: Word")]):
        seq += charges_in("LDC", pick(defs, fname, sig)[2], pm, f, "(GModeIs %d)" % mode)
    seqs["LDC"] = seq
    # BSIZ / BLDD
    need("BSIZ", "interpreter.blob_size(a,interpreter.registers[b])?;")
    d = pick(defs, "blob_size", r"&mut self, dst: RegId, blob_id_ptr: Word")
    seqs["BSIZ"] = charges_in("BSIZ", d[2], {}, field_of(d))
    need("BLDD", "interpreter.blob_load_data(interpreter.registers[a],interpreter.registers[b],interpreter.registers[c],interpreter.registers[d],)?;")
    d = pick(defs, "blob_load_data", r"&mut self, dst_ptr: Word, blob_id_ptr: Word, blob_offset: Word, len: Word")
    seqs["BLDD"] = charges_in("BLDD", d[2], {"dst_ptr": R("FA"), "blob_id_ptr": R("FB"), "blob_offset": R("FC"), "len": R("FD")}, field_of(d))
    # CALL
    need("CALL", "interpreter.prepare_call(a,b,c,d)?;")
    w = pick(defs, "prepare_call_inner", r"&mut self")
    c = pick(defs, "prepare_call", r"\(mut self\)")
    f = field_of(w)
    cb = c[2].replace("self.registers.system_registers.cgas.as_mut()", "self.cgas").replace("self.registers.system_registers.ggas.as_mut()", "self.ggas").replace("self.gas_cost", "self.gas_cost")
    seqs["CALL"] = charges_in("CALL", w[2], {}, f) + charges_in("CALL", cb, {}, f)
    # TR / MINT: fixed charge in the handler, new-entry charge in the Ctx
    need("TR", "interpreter.transfer(interpreter.registers[a],interpreter.registers[b],interpreter.registers[c],)?;")
    c = pick(defs, "transfer", r"self, recipient_contract_id_offset: Word")
    seqs["TR"] = [("GAlways", 'ChFixed "tr"')] + charges_in("TR", c[2], {}, "tr")
    need("MINT", "interpreter.mint(interpreter.registers[a],interpreter.registers[b])?;")
    c = pick(defs, "mint", r"\(self, a: Word, b: Word\)")
    seqs["MINT"] = [("GAlways", 'ChFixed "mint"')] + charges_in("MINT", c[2], {}, "mint")
    for op, fld in (("TR", "tr"), ("MINT", "mint")):
        if not re.search(r"\{\s*interpreter\.gas_charge\(interpreter\.gas_costs\(\)\.%s\(\)\)\?;" % fld, handlers[op]):
            raise TranslateError("%s: first charge changed" % op)
    return seqs


# storage instructions: `noop`, then micro-operations of interpreter/storage.rs
STORAGE_SHAPES = {"SRW": "ShRead", "SPLD": "ShRead", "SRDD": "ShRead", "SRDI": "ShRead", "SRWQ": "ShReads", "SWW": "ShReadWrite",
                  "SWWQ": "ShReadWrites", "SCWQ": "ShReadsClear", "SCLR": "ShClear", "SWRD": "ShWrite", "SWRI": "ShWrite",
                  "SUPD": "ShReadWrite", "SUPI": "ShReadWrite"}


def pin_storage(repo, handlers):
    st = re.sub(r"\s+", "", re.sub(r"//[^\n]*", "", read(repo, "fuel-vm/src/interpreter/storage.rs")))
    for frag in [
        "letgas_charge_units=v.as_ref().map(|data|data.len()asu64).unwrap_or(0);letr=f(self.memory.as_mut(),v.as_deref());self.dependent_gas_charge(self.gas_costs().storage_read_hot().map_err(PanicReason::from)?,gas_charge_units,)?;",
        "letgas_charge_units=value.as_ref().map(|data|data.len()asu64).unwrap_or(0);letr=f(self.memory.as_mut(),value.as_deref());self.dependent_gas_charge(self.gas_costs().storage_read_cold().map_err(PanicReason::from)?,gas_charge_units,)?;",
        "letold_len=self.storage_slot_len_no_gas(contract_id,key)?;",
        "letgas_charge_units=value.len()asu64;self.storage_slot_cache.insert(cache_key,Some(value));self.dependent_gas_charge(self.gas_costs().storage_write().map_err(PanicReason::from)?,gas_charge_units,)?;"
        "self.gas_charge(self.gas_costs().new_storage_per_byte().saturating_mul(gas_charge_units.saturating_sub(old_lenasu64)),)?;",
        "self.dependent_gas_charge(self.gas_costs().storage_clear().map_err(PanicReason::from)?,rangeasu64,)?;",
    ]:
        if frag not in st:
            raise TranslateError("storage.rs: micro-operation charges changed: " + frag[:60])
    calls = {"ShRead": ["storage_read_slot(", "storage_read_to_memory", "storage_preload", "dynamic_storage_read"],
             "ShReads": ["storage_read_slot("], "ShReadWrite": ["storage_write_slot", "dynamic_storage_update"],
             "ShReadWrites": ["storage_read_slot(", "storage_write_slot_from_memory"], "ShReadsClear": ["storage_read_slot(", "storage_clear_slot_range"],
             "ShClear": ["storage_clear_slot_range"], "ShWrite": ["dynamic_storage_write"]}
    for op, sh in STORAGE_SHAPES.items():
        if not any(c in handlers[op] for c in calls[sh]):
            raise TranslateError("%s: storage handler no longer has shape %s" % (op, sh))
        if sh in ("ShClear", "ShWrite") and "storage_read_slot(" in handlers[op]:
            raise TranslateError("%s: storage handler now reads" % op)


# the getter name differs from the field name for a few costs
GETTER_FIELD = {"eq_": "eq"}


def generate(repo):
    ops = parse_optable(repo)
    handlers = split_handlers(repo)
    bodies = fn_bodies(repo)
    pin_semantics(repo)
    defaults = parse_defaults(repo)
    dnames = {n for n, _ in defaults}
    rows = []
    for byte, name, shape in ops:
        if name not in handlers:
            raise TranslateError("no Execute impl for %s" % name)
        body = handlers[name]
        fm, whole_imm = field_map(name, body, shape)
        helpers = [h for h in re.findall(r"interpreter\s*\.\s*(\w+)\(", body) if h not in ("gas_charge", "dependent_gas_charge", "gas_costs")]
        # first charge in program order
        m_fix = re.search(r"\.?gas_charge\(\s*interpreter\.gas_costs\(\)\.(\w+)\(\)(\.map_err\(PanicReason::from\)\?)?\s*\)\?;", body)
        m_dep = re.search(r"\.?dependent_gas_charge\(\s*interpreter\.gas_costs\(\)\.(\w+)\(\)(?:\.map_err\(PanicReason::from\)\?)?\s*,\s*([^;]*?),?\s*\)\?;", body, re.S)
        first = None
        if m_fix and (not m_dep or m_fix.start() < m_dep.start()):
            first = ("SelFixed", m_fix.group(1), None, m_fix.start())
        elif m_dep:
            u = units_of(name, m_dep.group(2), body, fm)
            if u is None:
                # `let x = self.unpack().into();` : the single immediate of the shape
                imms = [ty for _, ty in shape if ty != "RegId"]
                if len(shape) != 1 or len(imms) != 1:
                    raise TranslateError("%s: unpack().into() with shape %r" % (name, shape))
                u = "(UImm I%s)" % imms[0][3:]
            first = ("SelDep", m_dep.group(1), u, m_dep.start())
        more = False
        if first is None:
            if name == "ECAL":
                sel, units = "SelNone", "UNone"
            else:
                # charged inside the helper
                field = None
                todo = list(helpers)
                for h in helpers:  # one more level: helpers called through `self.`
                    todo += re.findall(r"self\s*\.\s*(\w+)\(", bodies.get(h, ""))
                for h in todo:
                    b = bodies.get(h, "")
                    b = re.sub(r"\s+", "", b)
                    mm = re.search(r"letgas_cost=self\.(?:gas_costs\(\)|interpreter_params\.gas_costs)\.(\w+)\(\)(?:\.map_err\(PanicReason::from\)\?)?;", b)
                    if mm and b.find("self.gas_charge(gas_cost.base())?;") > mm.start():
                        field = mm.group(1)
                        break
                if field is None:
                    raise TranslateError("%s: no gas charge found in the handler or its helper" % name)
                sel = '%s "%s"' % ("SelDepBase" if name == "CALL" else "SelInner", field)
                units, more = "UNone", True
                fname = field
        else:
            kind, getter, units, pos = first
            fname = GETTER_FIELD.get(getter, getter)
            # the charge must precede every helper call (charge-first discipline)
            for h in helpers:
                hp = body.find("." + h + "(")
                if 0 <= hp < pos and h not in ("registers",):
                    raise TranslateError("%s: helper %s is called before the first gas charge" % (name, h))
            sel = '%s "%s"' % (kind, fname)
            units = units or "UNone"
            if fname == "noop" and name != "NOOP":
                more = True
            for h in helpers:
                if re.search(r"\bgas_charge\(|dependent_gas_charge", bodies.get(h, "")):
                    more = True
        if not sel.startswith("SelNone") and fname not in dnames:
            raise TranslateError("%s: cost field %s has no default value" % (name, fname))
        rows.append((byte, name, sel, units, more))
    L = []
    L.append("(* Gen/GasTable.v — GENERATED by tools/gen_gastable.py from executors/opcodes_impl.rs (first gas")
    L.append("   charge of every handler), blockchain.rs/blob.rs/flow.rs (helpers charging inside),")
    L.append("   default_gas_costs.rs (default schedule).  DO NOT EDIT. *)")
    L.append("From FV Require Import Base.Bytes Vm.FlowSpec Vm.GasTypes.")
    L.append("Open Scope string_scope.")
    L.append("Open Scope N_scope.")
    L.append("")
    L.append("(* field name of GasCostsValues -> default value *)")
    L.append("Definition default_costs : list (string * cost_val) := [")
    L.append(";\n".join('  ("%s", %s)' % d for d in defaults))
    L.append("].")
    L.append("")
    L.append("(* opcode byte, mnemonic, first charge of its handler *)")
    L.append("Definition gas_table : list (N * (string * cost_sel)) := [")
    L.append(";\n".join('  (%d, ("%s", %s))' % (b, n, s) for (b, n, s, u, m) in rows))
    L.append("].")
    L.append("")
    L.append("(* where the unit count of a dependent first charge comes from *)")
    L.append("Definition gas_units : list (N * unit_src) := [")
    L.append(";\n".join("  (%d, %s)" % (b, u) for (b, n, s, u, m) in rows if u != "UNone"))
    L.append("].")
    L.append("")
    seqs = multi_sequences(repo, handlers)
    pin_storage(repo, handlers)
    L.append("(* FULL charge sequence of every handler, in program order *)")
    L.append("Definition gas_seq : list (N * cseq) := [")
    srows = []
    for (b, n, sel, u, m) in rows:
        if n in seqs:
            if not m:
                raise TranslateError("%s: has a full sequence but is not in gas_more" % n)
            items = seqs[n]
            if not items or not items[0][1].startswith(("ChBase", "ChFixed")):
                raise TranslateError("%s: sequence does not start with its first charge" % n)
        elif sel.startswith("SelFixed"):
            if m and n not in STORAGE_SHAPES:
                raise TranslateError("%s: charges more than once but its sequence is not modelled" % n)
            items = [("GAlways", "ChFixed %s" % sel.split(" ", 1)[1])]
        elif sel.startswith("SelDep "):
            if m:
                raise TranslateError("%s: dependent charge plus more charges is not modelled" % n)
            items = [("GAlways", "ChDep %s %s" % (sel.split(" ", 1)[1], u.replace("UReg0is32", "XReg0is32").replace("UReg", "XReg").replace("UImm", "XImm")))]
        elif sel == "SelNone":
            items = []
        else:
            raise TranslateError("%s: no charge sequence" % n)
        srows.append("  (%d, [%s])" % (b, "; ".join("(%s, %s)" % it for it in items)))
    L.append(";\n".join(srows))
    L.append("].")
    L.append("")
    L.append("(* storage instructions: shape of the micro-operation list after the `noop` charge *)")
    L.append("Definition gas_storage : list (N * sshape) := [%s]." % "; ".join("(%d, %s)" % (b, STORAGE_SHAPES[n]) for (b, n, sel, u, m) in rows if n in STORAGE_SHAPES))
    for (b, n, sel, u, m) in rows:
        if m and n not in seqs and n not in STORAGE_SHAPES:
            raise TranslateError("%s: multi-charge opcode without a modelled sequence" % n)
    L.append("")
    L.append("(* opcodes whose handler may charge more gas after the first charge *)")
    L.append("Definition gas_more : list N := [%s]." % "; ".join(str(b) for (b, n, s, u, m) in rows if m))
    L.append("")
    return {"Gen/GasTable.v": "\n".join(L)}


if __name__ == "__main__":
    import sys
    for k, v in generate(sys.argv[1] if len(sys.argv) > 1 else "/repo").items():
        print(v)
