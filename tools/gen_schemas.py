#!/usr/bin/env python3
"""gen_schemas.py — translator  /repo Rust sources  ->  coq/Gen/Schemas.v   (DESIGN.md §2)

Reads every item that derives `fuel_types::canonical::{Serialize, Deserialize}` in fuel-types,
fuel-asm and fuel-tx and emits one `ty` term of the universe in coq/Codec/Schema.v per Rust
type: fields in declaration order, `#[canonical(skip)]`, `#[canonical(prefix = ..)]`, explicit
enum discriminants (`= 0x..`, otherwise previous + 1, exactly as fuel-derive computes them),
generic instantiations (`Coin<Signed|Predicate|Full>`, `Message<..>`,
`ChargeableTransaction<Body, _>`, resolved through the `impl XSpecification for Y { type A = B; }`
blocks and the `pub type` aliases), macro-generated newtypes (`key!(Address, 32)`,
`key!(BlockHeight, u32)`), `#[cfg(feature = ..)]` on fields (evaluated against the feature set
the harness builds with).

Conventions of the output (documented in Codec/Schema.v):
  * a tuple struct with exactly one unnamed field and no prefix (`struct Bytes32([u8; 32])`,
    `struct Bytes(Vec<u8>)`, `struct BlockHeight(u32)`) is emitted as the schema of its field
    (the derive gives it exactly the field's codec; lemma `newtype_transparent` in
    Codec/CodecProofs.v states this for the struct form);
  * the type of a `#[canonical(skip)]` field is emitted if it can be translated, otherwise
    `TOpaque "<rust type>"`.

Hand-written impls (no derive) are modelled by hand in Codec/CodecModel.v: `Policies`
(TPolicies), `Input` (TInput: InputRepr discriminant + CoinFull/FullMessage dispatch on
`capacity() == 0`), `Transaction` (TPeek: discriminant peek), `input::Empty<T>` (TEmpty), and
the primitive/Vec/array impls of canonical.rs.  For those the translator (a) still takes the
variant lists / discriminants / component types from the source and (b) PINS the
whitespace-normalised, comment-free text of each hand-modelled impl block by SHA-256: if one of
them changes, generate() raises, which the orchestrator reports as a broken tie (the model has to
be re-validated against the new text and the pin updated).

The translator raises SchemaError on any syntax it does not understand.
"""
import hashlib
import os
import re
import sys

# features of the crates as built by /verif/harness (Cargo feature unification included)
ENABLED_FEATURES = {"std", "alloc", "serde", "random", "test-helpers", "internals", "da-compression"}
CRATES = {"fuel-types": "fuel_types", "fuel-asm": "fuel_asm", "fuel-tx": "fuel_tx"}
CRATE_NAMES = set(CRATES.values()) | {"crate", "self", "super", "fuel_crypto", "fuel_merkle", "alloc", "core", "std"}
SKIP_FILES = {"fuel-types/src/canonical.rs"}     # primitives/Vec/arrays: hand model, pinned below
PRIMS = {"u8": 1, "u16": 2, "u32": 4, "u64": 8, "usize": 8, "u128": 16}


class SchemaError(Exception):
    pass


# --------------------------------------------------------------------------- lexing
def strip_comments(src):
    out, i, n = [], 0, len(src)
    while i < n:
        c = src[i]
        if src.startswith("//", i):
            j = src.find("\n", i)
            i = n if j < 0 else j
        elif src.startswith("/*", i):
            depth, i = 1, i + 2
            while i < n and depth:
                if src.startswith("/*", i):
                    depth += 1; i += 2
                elif src.startswith("*/", i):
                    depth -= 1; i += 2
                else:
                    i += 1
            out.append(" ")
        elif c == '"':
            j = i + 1
            while j < n and src[j] != '"':
                j += 2 if src[j] == "\\" else 1
            out.append(src[i:j + 1]); i = j + 1
        elif c == "'" and re.match(r"'(\\.|[^\\'])'", src[i:i + 4]):
            m = re.match(r"'(\\.|[^\\'])'", src[i:i + 4])
            out.append(m.group(0)); i += len(m.group(0))
        else:
            out.append(c); i += 1
    return "".join(out)


TOKEN_RE = re.compile(r"""
    (?P<ws>\s+)
  | (?P<str>"(?:\\.|[^"\\])*")
  | (?P<chr>'(?:\\.|[^\\'])')
  | (?P<life>'[A-Za-z_]\w*)
  | (?P<num>0x[0-9a-fA-F_]+|\d[\d_]*(?:u8|u16|u32|u64|u128|usize)?)
  | (?P<id>(?:r\#)?[A-Za-z_$][\w$]*)
  | (?P<p>::|->|=>|==|!=|<=|>=|&&|\|\||\.\.=|\.\.\.|\.\.|[{}()\[\]<>;:,=#!&|+\-*/%^.?@~$])
""", re.X)


def lex(src):
    toks, i = [], 0
    while i < len(src):
        m = TOKEN_RE.match(src, i)
        if not m:
            raise SchemaError("cannot lex at: %r" % src[i:i + 30])
        i = m.end()
        if m.lastgroup != "ws":
            toks.append(m.group(0))
    return toks


OPEN = {"(": ")", "[": "]", "{": "}"}
CLOSE = set(OPEN.values())


def match_close(toks, i):
    """toks[i] is an opener; return index of its closer."""
    depth = 0
    for j in range(i, len(toks)):
        if toks[j] in OPEN:
            depth += 1
        elif toks[j] in CLOSE:
            depth -= 1
            if depth == 0:
                return j
    raise SchemaError("unbalanced brackets")


def match_angle(toks, i):
    """toks[i] == '<' opening a generic list; return index of the matching '>'."""
    depth = 0
    j = i
    while j < len(toks):
        t = toks[j]
        if t == "<":
            depth += 1
        elif t == ">":
            depth -= 1
            if depth == 0:
                return j
        elif t in OPEN:
            j = match_close(toks, j)
        elif t in (";", "{"):
            break
        j += 1
    raise SchemaError("unbalanced angle brackets")


def split_top(toks, sep=","):
    """split a token list on `sep` at bracket/angle depth 0"""
    parts, cur, depth = [], [], 0
    for idx, t in enumerate(toks):
        if t in OPEN or t == "<":
            depth += 1
        elif t in CLOSE or (t == ">" and depth > 0):
            depth -= 1
        if t == sep and depth == 0:
            parts.append(cur); cur = []
        else:
            cur.append(t)
    if cur:
        parts.append(cur)
    return parts


# --------------------------------------------------------------------------- type expressions
def parse_type(toks):
    """-> ('path', [(seg, [args])...]) | ('array', elem, len_tokens) | ('unit',) | ('other', text)"""
    toks = list(toks)
    if not toks:
        raise SchemaError("empty type")
    if toks[0] == "[":
        j = match_close(toks, 0)
        if j != len(toks) - 1:
            raise SchemaError("unsupported type syntax: " + " ".join(toks))
        inner = split_top(toks[1:j], ";")
        if len(inner) != 2:
            raise SchemaError("unsupported slice/array type: " + " ".join(toks))
        return ("array", parse_type(inner[0]), inner[1])
    if toks[0] == "(":
        j = match_close(toks, 0)
        if j == 1 and len(toks) == 2:
            return ("unit",)
        return ("other", " ".join(toks))
    if toks[0] in ("&", "*", "dyn", "impl", "fn"):
        return ("other", " ".join(toks))
    segs, i = [], 0
    if toks[0] == "::":
        i = 1
    while i < len(toks):
        name = toks[i]
        if not re.match(r"^[A-Za-z_$][\w$]*$", name):
            raise SchemaError("unsupported type syntax: " + " ".join(toks))
        i += 1
        args = []
        if i < len(toks) and toks[i] == "<":
            j = match_angle(toks, i)
            args = [parse_type(a) for a in split_top(toks[i + 1:j]) if a and not a[0].startswith("'")]
            i = j + 1
        segs.append((name, args))
        if i < len(toks):
            if toks[i] != "::":
                raise SchemaError("unsupported type syntax: " + " ".join(toks))
            i += 1
    return ("path", segs)


def type_str(t):
    if t[0] == "path":
        return "::".join(n + ("<" + ", ".join(type_str(a) for a in args) + ">" if args else "") for n, args in t[1])
    if t[0] == "array":
        return "[%s; %s]" % (type_str(t[1]), " ".join(t[2]))
    if t[0] == "unit":
        return "()"
    return t[1]


def type_key(t):
    """normalised, module-qualifier-free rendering used to key impl blocks and instantiations"""
    if t[0] == "path":
        n, args = t[1][-1]
        return n + ("<" + ",".join(type_key(a) for a in args) + ">" if args else "")
    return type_str(t)


# --------------------------------------------------------------------------- items
class Item:
    def __init__(self, kind, name, module, file):
        self.kind, self.name, self.module, self.file = kind, name, module, file
        self.attrs = []          # list of token lists (contents of #[...])
        self.generics = []       # type parameter names
        self.fields = None       # struct: list of Field ; tuple flag
        self.tuple = False
        self.variants = None     # enum: list of (name, disc_tokens|None, fields, tuple?)

    def qual(self):
        return "::".join(self.module + [self.name])


class Field:
    def __init__(self, name, ty, attrs):
        self.name, self.ty, self.attrs = name, ty, attrs


class FileInfo:
    def __init__(self, path, module):
        self.path, self.module = path, module
        self.uses = []           # (module_of_use, path segments, alias) ; glob has last segment '*'


class Db:
    def __init__(self):
        self.items = []          # Item
        self.aliases = []        # (module, name, generics, type, file)
        self.impls = []          # (module, header tokens, {assoc: type}, file)
        self.macros = {}         # (file, name) -> body tokens
        self.invocations = []    # (module, file, macro name, arg tokens)
        self.files = {}          # path -> FileInfo
        self.raw = {}            # path -> comment-free source


def cfg_enabled(attr):
    """attr = tokens inside #[...].  Returns True/False for cfg(...) attributes, None otherwise."""
    if not attr or attr[0] != "cfg":
        return None
    inner = attr[2:-1]
    return eval_cfg(inner)


def eval_cfg(toks):
    if len(toks) == 3 and toks[0] == "feature" and toks[1] == "=":
        return toks[2].strip('"') in ENABLED_FEATURES
    if toks and toks[0] in ("not", "all", "any") and toks[1] == "(":
        j = match_close(toks, 1)
        if j != len(toks) - 1:
            raise SchemaError("unsupported cfg: " + " ".join(toks))
        parts = [eval_cfg(p) for p in split_top(toks[2:j])]
        if toks[0] == "not":
            return not parts[0]
        return all(parts) if toks[0] == "all" else any(parts)
    if toks == ["test"]:
        return False
    if toks == ["feature", "=", '"typescript"']:
        return False
    raise SchemaError("unsupported cfg predicate: " + " ".join(toks))


def parse_fields_named(toks):
    fields = []
    for part in split_top(toks):
        attrs, i = [], 0
        while i < len(part) and part[i] == "#":
            j = match_close(part, i + 1)
            attrs.append(part[i + 2:j]); i = j + 1
        if i < len(part) and part[i] == "pub":
            i += 1
            if i < len(part) and part[i] == "(":
                i = match_close(part, i) + 1
        if i >= len(part):
            continue
        if i + 1 >= len(part) or part[i + 1] != ":":
            raise SchemaError("unsupported field syntax: " + " ".join(part))
        fields.append(Field(part[i], parse_type(part[i + 2:]), attrs))
    return fields


def parse_fields_tuple(toks):
    fields = []
    for k, part in enumerate(split_top(toks)):
        attrs, i = [], 0
        while i < len(part) and part[i] == "#":
            j = match_close(part, i + 1)
            attrs.append(part[i + 2:j]); i = j + 1
        if i < len(part) and part[i] == "pub":
            i += 1
            if i < len(part) and part[i] == "(":
                i = match_close(part, i) + 1
        if i >= len(part):
            continue
        fields.append(Field(str(len(fields)), parse_type(part[i:]), attrs))
    return fields


def parse_generics(toks, i):
    """toks[i] may be '<': returns (param names, next index)"""
    if i < len(toks) and toks[i] == "<":
        j = match_angle(toks, i)
        names = []
        for p in split_top(toks[i + 1:j]):
            if p and not p[0].startswith("'") and p[0] != "const":
                names.append(p[0])
        return names, j + 1
    return [], i


def parse_items(toks, module, file, db, finfo):
    i, pending = 0, []
    n = len(toks)
    while i < n:
        t = toks[i]
        if t == "#":
            if toks[i + 1] == "!":
                i = match_close(toks, i + 2) + 1
                continue
            j = match_close(toks, i + 1)
            pending.append(toks[i + 2:j]); i = j + 1
            continue
        if t == "pub":
            i += 1
            if i < n and toks[i] == "(":
                i = match_close(toks, i) + 1
            continue
        attrs, pending = pending, []
        disabled = any(cfg_enabled(a) is False for a in attrs)
        if t == "struct":
            it = Item("struct", toks[i + 1], module, file)
            it.attrs = attrs
            it.generics, k = parse_generics(toks, i + 2)
            while k < n and toks[k] not in ("{", "(", ";"):
                k += 1                                   # where clause before the body
            if toks[k] == "{":
                j = match_close(toks, k)
                it.fields = parse_fields_named(toks[k + 1:j]); i = j + 1
            elif toks[k] == "(":
                j = match_close(toks, k)
                it.fields = parse_fields_tuple(toks[k + 1:j]); it.tuple = True
                i = j + 1
                while i < n and toks[i] != ";":
                    i += 1                               # where clause after the tuple
                i += 1
            else:
                it.fields = []; i = k + 1
            if not disabled and not it.name.startswith("$"):
                db.items.append(it)
            continue
        if t == "enum":
            it = Item("enum", toks[i + 1], module, file)
            it.attrs = attrs
            it.generics, k = parse_generics(toks, i + 2)
            while toks[k] != "{":
                k += 1
            j = match_close(toks, k)
            it.variants = []
            for part in split_top(toks[k + 1:j]):
                vattrs, p = [], 0
                while p < len(part) and part[p] == "#":
                    q = match_close(part, p + 1)
                    vattrs.append(part[p + 2:q]); p = q + 1
                if p >= len(part):
                    continue
                vname = part[p]; p += 1
                vfields, vtuple, disc = [], False, None
                if p < len(part) and part[p] == "(":
                    q = match_close(part, p)
                    vfields, vtuple = parse_fields_tuple(part[p + 1:q]), True; p = q + 1
                elif p < len(part) and part[p] == "{":
                    q = match_close(part, p)
                    vfields = parse_fields_named(part[p + 1:q]); p = q + 1
                if p < len(part):
                    if part[p] != "=":
                        raise SchemaError("unsupported enum variant syntax in %s: %s" % (it.name, " ".join(part)))
                    disc = part[p + 1:]
                if any(cfg_enabled(a) is False for a in vattrs):
                    continue
                it.variants.append((vname, disc, vfields, vtuple, vattrs))
            i = j + 1
            if not disabled and not it.name.startswith("$"):
                db.items.append(it)
            continue
        if t == "mod":
            name = toks[i + 1]
            if toks[i + 2] == ";":
                i += 3; continue
            j = match_close(toks, i + 2)
            if not disabled:
                parse_items(toks[i + 3:j], module + [name], file, db, finfo)
            i = j + 1
            continue
        if t == "impl":
            k = i + 1
            while toks[k] != "{":
                k = match_angle(toks, k) + 1 if toks[k] == "<" else k + 1
            j = match_close(toks, k)
            header = toks[i + 1:k]
            assoc, body, p = {}, toks[k + 1:j], 0
            while p < len(body):
                if body[p] in OPEN:
                    p = match_close(body, p) + 1; continue
                if body[p] == "type" and p + 2 < len(body) and body[p + 2] == "=":
                    q = p
                    while body[q] != ";":
                        q = match_close(body, q) + 1 if body[q] in OPEN else q + 1
                    try:
                        assoc[body[p + 1]] = parse_type(body[p + 3:q])
                    except SchemaError:
                        pass                                 # not a type the schemas can use
                    p = q + 1; continue
                p += 1
            if not disabled:
                db.impls.append((module, header, assoc, file))
            i = j + 1
            continue
        if t == "macro_rules":
            name = toks[i + 2]
            j = match_close(toks, i + 3)
            db.macros[(file, name)] = toks[i + 4:j]
            i = j + 1
            if i < n and toks[i] == ";":
                i += 1
            continue
        if t == "type":
            name = toks[i + 1]
            gens, k = parse_generics(toks, i + 2)
            if toks[k] != "=":
                raise SchemaError("unsupported type alias syntax: " + " ".join(toks[i:i + 8]))
            q = k
            while toks[q] != ";":
                q = match_close(toks, q) + 1 if toks[q] in OPEN else q + 1
            if not disabled:
                try:
                    db.aliases.append((module, name, gens, parse_type(toks[k + 1:q]), file))
                except SchemaError:
                    pass                                     # alias of a type outside the universe
            i = q + 1
            continue
        if t == "use":
            q = i
            while toks[q] != ";":
                q += 1
            if not disabled:
                for segs, alias in flatten_use(toks[i + 1:q]):
                    finfo.uses.append((module, segs, alias))
            i = q + 1
            continue
        if re.match(r"^[A-Za-z_]\w*$", t) and i + 2 < n and toks[i + 1] == "!" and toks[i + 2] in OPEN:
            j = match_close(toks, i + 2)
            if not disabled:
                db.invocations.append((module, file, t, toks[i + 3:j]))
            i = j + 1
            if i < n and toks[i] == ";":
                i += 1
            continue
        # anything else (fn, const, static, trait, extern, unsafe ...): skip one item
        while i < n:
            if toks[i] in OPEN:
                j = match_close(toks, i)
                closed_brace = toks[i] == "{"
                i = j + 1
                if closed_brace:
                    break
                continue
            if toks[i] == ";":
                i += 1
                break
            i += 1


def flatten_use(toks):
    """use a::b::{c, d::e as f, g::*};  ->  [(['a','b','c'], None), (['a','b','d','e'], 'f'), (['a','b','g','*'], None)]"""
    out = []

    def rec(prefix, ts):
        segs, i = list(prefix), 0
        while i < len(ts):
            t = ts[i]
            if t == "::":
                i += 1; continue
            if t == "{":
                j = match_close(ts, i)
                for part in split_top(ts[i + 1:j]):
                    rec(segs, part)
                return
            if t == "as":
                out.append((segs, ts[i + 1])); return
            segs.append(t); i += 1
        out.append((segs, None))
    rec([], toks)
    return out


def module_of(crate_dir, rel):
    """fuel-tx/src/transaction/types/input.rs -> ['fuel_tx','transaction','types','input']"""
    parts = rel[:-3].split("/")
    if parts[-1] in ("lib", "mod"):
        parts = parts[:-1]
    return [CRATES[crate_dir]] + parts


def load(repo):
    db = Db()
    for crate_dir in CRATES:
        root = os.path.join(repo, crate_dir, "src")
        for dp, dns, fns in os.walk(root):
            dns.sort()
            for fn in sorted(fns):
                if not fn.endswith(".rs"):
                    continue
                path = os.path.join(dp, fn)
                rel_repo = os.path.relpath(path, repo)
                rel = os.path.relpath(path, root)
                if "/tests/" in "/" + rel or rel.endswith("tests.rs") or rel.startswith("tests"):
                    continue
                src = strip_comments(open(path).read())
                db.raw[rel_repo] = src
                if rel_repo in SKIP_FILES:
                    continue
                if "canonical" not in src and "key!" not in src and "pub type" not in src and "Specification" not in src:
                    continue
                finfo = FileInfo(rel_repo, module_of(crate_dir, rel))
                db.files[rel_repo] = finfo
                try:
                    parse_items(lex(src), finfo.module, rel_repo, db, finfo)
                except SchemaError as e:
                    raise SchemaError("%s: %s" % (rel_repo, e))
    return db


# --------------------------------------------------------------------------- derive detection
def attr_derives(attrs):
    """all paths listed in #[derive(...)] attributes (cfg_attr(.., derive(..)) included when enabled)"""
    out = []

    def from_derive(toks):
        for p in split_top(toks):
            out.append("".join(p))

    for a in attrs:
        if a and a[0] == "derive" and a[1] == "(":
            from_derive(a[2:match_close(a, 1)])
        elif a and a[0] == "cfg_attr" and a[1] == "(":
            parts = split_top(a[2:match_close(a, 1)])
            if eval_cfg(parts[0]):
                for p in parts[1:]:
                    if p and p[0] == "derive":
                        from_derive(p[2:match_close(p, 1)])
    return out


def canonical_derive(db, it):
    """True iff the item derives both canonical traits; raises if it derives only one."""
    ds = attr_derives(it.attrs)
    finfo = db.files[it.file]
    bare_ser = any(segs[-2:] == ["canonical", "Serialize"] and alias is None for _, segs, alias in finfo.uses)
    bare_de = any(segs[-2:] == ["canonical", "Deserialize"] and alias is None for _, segs, alias in finfo.uses)
    ser = any(d.endswith("canonical::Serialize") for d in ds) or (bare_ser and "Serialize" in ds)
    de = any(d.endswith("canonical::Deserialize") for d in ds) or (bare_de and "Deserialize" in ds)
    if ser != de:
        raise SchemaError("%s derives only one of canonical::Serialize/Deserialize" % it.qual())
    return ser


def canonical_derive_safe(db, it):
    if getattr(it, "macro_term", None):
        return True
    try:
        return canonical_derive(db, it)
    except SchemaError:
        return True


def canonical_attrs(attrs, where):
    """-> (skip: bool, prefix tokens | None) ; raises on unknown canonical(...) content"""
    skip, prefix = False, None
    for a in attrs:
        if a and a[0] == "canonical":
            inner = a[2:match_close(a, 1)]
            if inner == ["skip"]:
                skip = True
            elif len(inner) >= 3 and inner[0] == "prefix" and inner[1] == "=":
                prefix = inner[2:]
            else:
                raise SchemaError("unknown canonical attribute in %s: %s" % (where, " ".join(inner)))
    return skip, prefix


def parse_int(toks, where):
    s = "".join(toks).replace("_", "")
    s = re.sub(r"(u8|u16|u32|u64|u128|usize)$", "", s)
    try:
        return int(s, 0)
    except ValueError:
        raise SchemaError("unsupported integer expression in %s: %s" % (where, " ".join(toks)))


def const_eval(toks, where):
    """tiny evaluator for `100 * (1 << 20)`-style constant expressions"""
    s = "".join(toks).replace("_", "")
    if not re.match(r"^[\dxa-fA-F*+()<>-]+$", s):
        raise SchemaError("unsupported constant expression in %s: %s" % (where, s))
    return int(eval(s, {"__builtins__": {}}, {}))


# --------------------------------------------------------------------------- translation
class Translator:
    def __init__(self, db):
        self.db = db
        self.defs = []            # (coq name, coq term, comment) in dependency order
        self.done = {}            # key -> coq name
        self.in_progress = set()
        self.alias_name = {}      # instantiation key -> preferred name (from `pub type X = Inst<..>`)
        for module, name, gens, ty, file in db.aliases:
            if not gens and ty[0] == "path" and ty[1][-1][1]:
                self.alias_name.setdefault(type_key(ty), name)

    # ---- name resolution
    def candidates(self, name):
        items = [it for it in self.db.items if it.name == name]
        aliases = [a for a in self.db.aliases if a[1] == name]
        return items, aliases

    def mods_matching(self, module, segs):
        segs = [s for s in segs if s not in CRATE_NAMES]
        exact = module + segs

        def ok(m):
            return m == exact
        def suffix(m):
            return len(segs) > 0 and m[-len(segs):] == segs
        return exact, segs, ok, suffix

    def resolve(self, path_segs, module, file):
        """-> ('item', Item) | ('alias', alias tuple) ; raises if unknown / ambiguous"""
        name = path_segs[-1]
        quals = [s for s in path_segs[:-1]]
        items, aliases = self.candidates(name)
        cands = [("item", it, it.module) for it in items] + [("alias", a, a[0]) for a in aliases]
        if not cands:
            raise SchemaError("unknown type `%s` (used in %s)" % ("::".join(path_segs), file))

        def pick(pred):
            sel = [c for c in cands if pred(c[2])]
            return sel

        def unique(sel):
            if len(sel) == 1:
                return sel[0][:2]
            if len(sel) > 1:
                # several aliases with the same expansion (Word in fuel-types and fuel-asm) are one
                if all(c[0] == "alias" for c in sel) and len({type_str(c[1][3]) for c in sel}) == 1:
                    return sel[0][:2]
            return None

        if quals:
            exact, segs, ok, suffix = self.mods_matching(module, quals)
            for pred in (ok, suffix):
                r = unique(pick(pred))
                if r:
                    return r
            if not segs:
                r = unique(cands)
                if r:
                    return r
            raise SchemaError("cannot resolve `%s` in %s" % ("::".join(path_segs), file))
        # 1. same module or an enclosing module within the same file
        for depth in range(len(module), 0, -1):
            r = unique([c for c in cands if c[2] == module[:depth] and (c[1].file if c[0] == "item" else c[1][4]) == file])
            if r:
                return r
        finfo = self.db.files[file]
        # 2. explicit imports
        for umod, segs, alias in finfo.uses:
            if (alias or segs[-1]) == name and segs[-1] != "*":
                target = segs[-1]
                sub_items, sub_aliases = self.candidates(target)
                sub = [("item", it, it.module) for it in sub_items] + [("alias", a, a[0]) for a in sub_aliases]
                # `use crate::X` / `use fuel_types::X`: only candidates of that crate
                crate_of = module[0] if segs[0] in ("crate", "self", "super") else (segs[0] if segs[0] in CRATES.values() else None)
                if crate_of:
                    sub = [c for c in sub if c[2][0] == crate_of]
                exact, qs, ok, suffix = self.mods_matching(umod, segs[:-1])
                for pred in (ok, suffix):
                    sel = [c for c in sub if pred(c[2])]
                    if len(sel) == 1:
                        return sel[0][:2]
                if len(sub) == 1:
                    return sub[0][:2]
                if sub and all(c[0] == "alias" for c in sub) and len({type_str(c[1][3]) for c in sub}) == 1:
                    return sub[0][:2]
        # 3. glob imports
        for umod, segs, alias in finfo.uses:
            if segs[-1] == "*":
                exact, qs, ok, suffix = self.mods_matching(umod, segs[:-1])
                for pred in (ok, suffix):
                    r = unique(pick(pred))
                    if r:
                        return r
        # 4. unique in the whole workspace
        r = unique(cands)
        if r:
            return r
        raise SchemaError("ambiguous type `%s` in %s: %s" % (name, file, ", ".join("::".join(c[2]) for c in cands)))

    # ---- types
    def ty(self, t, module, file, subst, where, under_skip=False):
        """Rust type AST -> Coq term (string)"""
        try:
            return self.ty_inner(t, module, file, subst, where)
        except SchemaError:
            if under_skip:
                return '(TOpaque "%s")' % type_str(t).replace('"', "'")
            raise

    def ty_inner(self, t, module, file, subst, where):
        if t[0] == "array":
            if t[1] == ("path", [("u8", [])]):
                ln = t[2]
                if len(ln) == 1 and ln[0] in subst and isinstance(subst[ln[0]], int):
                    return "(TBytesN %d)" % subst[ln[0]]
                return "(TBytesN %d)" % parse_int(ln, where)
            raise SchemaError("%s: arrays [T; N] with T <> u8 are not in the schema universe: %s" % (where, type_str(t)))
        if t[0] == "unit":
            return "(struct_ None [])"
        if t[0] != "path":
            raise SchemaError("%s: unsupported type %s" % (where, type_str(t)))
        segs = t[1]
        # generic parameter / associated type of a generic parameter
        if segs[0][0] in subst and not segs[0][1]:
            arg = subst[segs[0][0]]
            if isinstance(arg, tuple) and arg and arg[0] == "coq":
                if len(segs) != 1:
                    raise SchemaError("%s: unsupported projection %s" % (where, type_str(t)))
                return arg[1]
            if len(segs) == 1:
                return self.ty_inner(arg[0], arg[1], arg[2], {}, where)
            if len(segs) == 2 and not segs[1][1]:
                assoc = self.assoc_type(arg[0], segs[1][0], where, arg[2])
                return self.ty_inner(assoc[0], assoc[1], assoc[2], {}, where)
            raise SchemaError("%s: unsupported projection %s" % (where, type_str(t)))
        name, args = segs[-1]
        if len(segs) == 1 and name in PRIMS and not args:
            return "(TUInt %d)" % PRIMS[name]
        if name == "Vec" and len(args) == 1:
            if args[0] == ("path", [("u8", [])]):
                return "TByteVec"
            return "(TVec %s)" % self.ty_inner(args[0], module, file, subst, where)
        if name == "Empty" and len(args) == 1:
            self.need_empty = True
            return "(TEmpty %s)" % self.ty_inner(args[0], module, file, subst, where)
        if name in ("Option", "Box", "PhantomData", "HashMap", "BTreeMap"):
            raise SchemaError("%s: type %s has no canonical impl" % (where, type_str(t)))
        kind, target = self.resolve([s for s, _ in segs], module, file)
        if kind == "alias":
            amod, aname, gens, aty, afile = target
            if gens or args:
                raise SchemaError("%s: generic type alias %s not supported" % (where, aname))
            if aty[0] == "path" and aty[1][-1][1]:
                self.alias_name.setdefault(type_key(aty), aname)
            return self.ty_inner(aty, amod, afile, {}, where)
        return self.item(target, [(a, module, file) if not self.is_param(a, subst) else subst[a[1][0][0]] for a in args], where)

    @staticmethod
    def is_param(a, subst):
        return a[0] == "path" and len(a[1]) == 1 and not a[1][0][1] and a[1][0][0] in subst

    def assoc_type(self, arg_ty, assoc, where, arg_file=None):
        key = type_key(arg_ty)
        found = []
        for module, header, table, file in self.db.impls:
            if "for" not in header:
                continue
            k = header.index("for")
            try:
                target = parse_type(header[k + 1:])
            except SchemaError:
                continue
            if type_key(target) == key and assoc in table:
                found.append((table[assoc], module, file))
        if len(found) > 1 and arg_file:          # `Full` exists for coins and for messages: same file wins
            found = [f for f in found if f[2] == arg_file] or found
        if len(found) != 1:
            raise SchemaError("%s: cannot find a unique `impl .. for %s { type %s = ..; }` (%d found)" % (where, key, assoc, len(found)))
        return found[0]

    def special(self, it):
        return None

    def item(self, it, args, where):
        """schema of a (possibly generic) derive item; returns the Coq constant name"""
        inst_key = it.qual() + ("<" + ",".join(type_key(a[0]) for a in args) + ">" if args else "")
        if inst_key in self.done:
            return self.done[inst_key]
        if inst_key in self.in_progress:
            raise SchemaError("recursive type %s" % inst_key)
        if not canonical_derive(self.db, it):
            raise SchemaError("%s: type %s does not derive the canonical traits (hand-written impl?)" % (where, it.qual()))
        if len(args) != len(it.generics):
            raise SchemaError("%s: wrong number of type arguments for %s" % (where, it.qual()))
        self.in_progress.add(inst_key)
        subst = dict(zip(it.generics, args))
        short_key = it.name + ("<" + ",".join(type_key(a[0]) for a in args) + ">" if args else "")
        base = self.alias_name.get(short_key) if args else it.name
        if base is None:
            base = re.sub(r"\W+", "_", short_key).strip("_")
        cname = "S_" + base
        if not args and len([x for x in self.db.items if x.name == it.name and canonical_derive_safe(self.db, x)]) > 1:
            # `Contract` exists in input::contract, output::contract and the crate root:
            # qualify by the nearest enclosing module whose name differs from the type's
            quals = [m for m in it.module if m != it.name.lower()]
            cname = "S_%s_%s" % (quals[-1], base)
        skip0, prefix = canonical_attrs(it.attrs, it.qual())
        if skip0:
            raise SchemaError("canonical(skip) on an item: " + it.qual())
        comment = "%s  (%s)" % (inst_key, it.file)
        if it.kind == "struct":
            pterm = "None"
            if prefix is not None:
                pterm = "(Some %d)" % self.prefix_value(prefix, it)
            fterms = []
            for f in it.fields:
                en = [cfg_enabled(a) for a in f.attrs]
                if any(e is False for e in en):
                    continue
                skip, fp = canonical_attrs(f.attrs, it.qual() + "." + f.name)
                if fp is not None:
                    raise SchemaError("canonical(prefix) on a field: %s.%s" % (it.qual(), f.name))
                fty = self.ty(f.ty, it.module, it.file, subst, it.qual() + "." + f.name, under_skip=skip)
                fterms.append('%s "%s" %s' % ("Fskip" if skip else "F", f.name, fty))
            names = [x.split('"')[1] for x in fterms]
            if len(set(names)) != len(names):
                raise SchemaError("duplicate field after cfg evaluation in " + it.qual())
            if it.tuple and len(fterms) == 1 and prefix is None and fterms[0].startswith("F "):
                term = fterms[0].split('"', 2)[2].strip()      # newtype: the field's schema
                comment += "  [newtype: codec of its only field]"
            else:
                term = "struct_ %s [%s]" % (pterm, "; ".join(fterms))
        else:
            if prefix is not None:
                raise SchemaError("canonical(prefix) on an enum: " + it.qual())
            vterms, nxt = [], 0
            for vname, disc, vfields, vtuple, vattrs in it.variants:
                vskip, _ = canonical_attrs(vattrs, it.qual() + "::" + vname)
                if vskip:
                    raise SchemaError("canonical(skip) on a variant: %s::%s" % (it.qual(), vname))
                if disc is not None:
                    nxt = parse_int(disc, it.qual() + "::" + vname)
                fterms = []
                for f in vfields:
                    if any(cfg_enabled(a) is False for a in f.attrs):
                        continue
                    skip, _ = canonical_attrs(f.attrs, "%s::%s.%s" % (it.qual(), vname, f.name))
                    fty = self.ty(f.ty, it.module, it.file, subst, "%s::%s.%s" % (it.qual(), vname, f.name), under_skip=skip)
                    fterms.append('%s "%s" %s' % ("Fskip" if skip else "F", f.name, fty))
                vterms.append('("%s", %d, [%s])' % (vname, nxt, "; ".join(fterms)))
                nxt += 1
            if not vterms:
                raise SchemaError("empty enum " + it.qual())
            term = "enum_ [\n    %s]" % ";\n    ".join(vterms)
        self.in_progress.discard(inst_key)
        self.defs.append((cname, term, comment))
        self.done[inst_key] = cname
        return cname

    def prefix_value(self, prefix, it):
        """`TransactionRepr::Script` -> its discriminant"""
        if len(prefix) == 3 and prefix[1] == "::":
            kind, target = self.resolve([prefix[0]], it.module, it.file)
            if kind == "item" and target.kind == "enum":
                for name, d in self.enum_discs(target):
                    if name == prefix[2]:
                        return d
        if len(prefix) == 1:
            return parse_int(prefix, it.qual())
        raise SchemaError("unsupported prefix expression in %s: %s" % (it.qual(), " ".join(prefix)))

    @staticmethod
    def enum_discs(it):
        out, nxt = [], 0
        for vname, disc, vfields, vtuple, vattrs in it.variants:
            if disc is not None:
                nxt = parse_int(disc, it.qual() + "::" + vname)
            out.append((vname, nxt)); nxt += 1
        return out

    # ---- macro-generated newtypes of fuel-types
    def macro_newtypes(self):
        for (file, mname), body in sorted(self.db.macros.items()):
            if mname not in ("key", "key_with_big_array"):
                continue
            text = " ".join(body)
            if "fuel_types :: canonical :: Serialize" not in text or "fuel_types :: canonical :: Deserialize" not in text:
                raise SchemaError("macro %s in %s no longer derives the canonical traits" % (mname, file))
            m = re.search(r"pub struct \$i \( (.*?) \) ;", text)
            if not m:
                raise SchemaError("macro %s in %s: cannot find `pub struct $i(..);`" % (mname, file))
            shape = m.group(1)
            if re.search(r"# \[ canonical", text):
                raise SchemaError("macro %s in %s: canonical attributes inside the macro are not supported" % (mname, file))
            for module, ifile, iname, args in self.db.invocations:
                if ifile != file or iname != mname:
                    continue
                parts = split_top(args)
                if len(parts) != 2 or len(parts[0]) != 1:
                    raise SchemaError("unsupported %s! invocation in %s: %s" % (mname, file, " ".join(args)))
                name = parts[0][0]
                if shape == "[ u8 ; $s ]":
                    term = "TBytesN %d" % parse_int(parts[1], name)
                elif shape == "$t":
                    if len(parts[1]) != 1 or parts[1][0] not in PRIMS:
                        raise SchemaError("unsupported numeric newtype %s(%s)" % (name, " ".join(parts[1])))
                    term = "TUInt %d" % PRIMS[parts[1][0]]
                else:
                    raise SchemaError("macro %s in %s: unsupported struct shape `%s`" % (mname, file, shape))
                it = Item("struct", name, module, file)
                it.macro_term = term
                self.db.items.append(it)
                self.done[it.qual()] = "S_" + name
                self.defs.append(("S_" + name, term, "%s!(%s)  (%s)  [newtype: codec of its only field]" % (mname, " ".join(args), file)))


def norm_block(src, start_re, what):
    """whitespace-normalised text of the brace block that follows the first match of start_re"""
    m = re.search(start_re, src)
    if not m:
        raise SchemaError("hand-modelled block not found: " + what)
    i = src.index("{", m.start())
    depth, j = 0, i
    while True:
        if src[j] == "{":
            depth += 1
        elif src[j] == "}":
            depth -= 1
            if depth == 0:
                break
        j += 1
    return re.sub(r"\s+", " ", src[m.start():j + 1]).strip()


HAND_BLOCKS = [
    # (key, file, regex)
    ("Input::Serialize", "fuel-tx/src/transaction/types/input.rs", r"impl Serialize for Input\b"),
    ("Input::Deserialize", "fuel-tx/src/transaction/types/input.rs", r"impl Deserialize for Input\b"),
    ("Empty::Serialize", "fuel-tx/src/transaction/types/input.rs", r"impl<Type: Serialize \+ Default> Serialize for Empty<Type>"),
    ("Empty::Deserialize", "fuel-tx/src/transaction/types/input.rs", r"impl<Type: Deserialize> Deserialize for Empty<Type>"),
    ("CoinFull::into", "fuel-tx/src/transaction/types/input/coin.rs", r"impl Coin<Full>"),
    ("FullMessage::into", "fuel-tx/src/transaction/types/input/message.rs", r"impl FullMessage\b"),
    ("Transaction::Serialize", "fuel-tx/src/transaction.rs", r"impl Serialize for Transaction\b"),
    ("Transaction::Deserialize", "fuel-tx/src/transaction.rs", r"impl Deserialize for Transaction\b"),
    ("Policies::Serialize", "fuel-tx/src/transaction/policies.rs", r"impl Serialize for Policies\b"),
    ("Policies::Deserialize", "fuel-tx/src/transaction/policies.rs", r"impl Deserialize for Policies\b"),
    ("PoliciesBits", "fuel-tx/src/transaction/policies.rs", r"bitflags::bitflags!"),
]


def hand_pins(db):
    pins = {}
    for key, file, rx in HAND_BLOCKS:
        if file not in db.raw:
            raise SchemaError("file with a hand-modelled impl is missing: " + file)
        pins[key] = hashlib.sha256(norm_block(db.raw[file], rx, key).encode()).hexdigest()[:16]
    # canonical.rs without its test module
    src = db.raw["fuel-types/src/canonical.rs"]
    k = src.find("#[cfg(test)]")
    core = src[:k] if k >= 0 else src
    # the value of VEC_DECODE_LIMIT is a parameter of the model (emitted as vec_decode_limit)
    core = re.sub(r"(pub const VEC_DECODE_LIMIT\s*:\s*usize\s*=)[^;]+;", r"\1 <value>;", core)
    core = re.sub(r"\s+", " ", core).strip()
    pins["canonical.rs"] = hashlib.sha256(core.encode()).hexdigest()[:16]
    # the derive itself (the generic TStruct/TEnum semantics is a hand model of this code)
    for f in ("serialize.rs", "deserialize.rs", "attribute.rs"):
        p = os.path.join(db.repo, "fuel-derive", "src", "canonical", f)
        txt = re.sub(r"\s+", " ", strip_comments(open(p).read())).strip()
        pins["fuel-derive/" + f] = hashlib.sha256(txt.encode()).hexdigest()[:16]
    return pins


EXPECTED_PINS = {
    "CoinFull::into": "f644fb5162d7aa1e",
    "Empty::Deserialize": "99157c12ca437b43",
    "Empty::Serialize": "c00c3651f9dc9615",
    "FullMessage::into": "66a00e13f93d3478",
    "Input::Deserialize": "2cb2da9e0f0065e1",
    "Input::Serialize": "0bbf9552c6cb29ad",
    "Policies::Deserialize": "0e6e51c65ad18641",
    "Policies::Serialize": "69004cff8b4dc747",
    "PoliciesBits": "aa55238c0a30df08",
    "Transaction::Deserialize": "d413b8774acb1a4e",
    "Transaction::Serialize": "ebd6f19fc1f81dd0",
    "canonical.rs": "1aba030c9caa51b7",
    "fuel-derive/attribute.rs": "910954efa118bc34",
    "fuel-derive/deserialize.rs": "849d66f007b59902",
    "fuel-derive/serialize.rs": "972d040d60725e8e",
}

INPUT_VARIANTS = ["CoinSigned", "CoinPredicate", "Contract", "MessageCoinSigned", "MessageCoinPredicate",
                  "MessageDataSigned", "MessageDataPredicate"]


def generate(repo, check_pins=True):
    db = load(repo)
    db.repo = repo
    tr = Translator(db)
    tr.macro_newtypes()

    def find_item(qual_suffix):
        sel = [it for it in db.items if it.qual().endswith(qual_suffix)]
        if len(sel) != 1:
            raise SchemaError("expected exactly one item %s, found %d" % (qual_suffix, len(sel)))
        return sel[0]

    def schema_of(type_text, file):
        finfo = db.files[file]
        return tr.ty(parse_type(lex(type_text)), finfo.module, file, {}, "root " + type_text)

    # every non-generic derive item (so that an unsupported construct anywhere is reported)
    for it in list(db.items):
        if getattr(it, "macro_term", None) or it.generics:
            continue
        if canonical_derive(db, it):
            tr.item(it, [], "item " + it.qual())

    # ---- Input: hand-written impl; components from the enum declaration
    inp = find_item("types::input::Input")
    if canonical_derive(db, inp):
        raise SchemaError("Input now derives the canonical traits: the hand model TInput no longer applies")
    names = [v[0] for v in inp.variants]
    if names != INPUT_VARIANTS:
        raise SchemaError("enum Input changed its variants: %s" % names)
    comps = []
    for vname, disc, vfields, vtuple, vattrs in inp.variants:
        if not vtuple or len(vfields) != 1:
            raise SchemaError("Input::%s is not a one-field tuple variant" % vname)
        comps.append(tr.ty(vfields[0].ty, inp.module, inp.file, {}, "Input::" + vname))
    coin_full = schema_of("CoinFull", "fuel-tx/src/transaction/types/input/coin.rs")
    msg_full = schema_of("FullMessage", "fuel-tx/src/transaction/types/input/message.rs")
    repr_ = find_item("input::repr::InputRepr")
    if Translator.enum_discs(repr_) != [("Coin", 0), ("Contract", 1), ("Message", 2)]:
        raise SchemaError("InputRepr discriminants changed: %s" % Translator.enum_discs(repr_))
    tr.defs.append(("S_Input", "TInput %s %s %s %s %s %s %s %s %s" % (
        coin_full, comps[0], comps[1], comps[2], msg_full, comps[3], comps[4], comps[5], comps[6]),
        "hand-written impl Serialize/Deserialize for Input (fuel-tx/src/transaction/types/input.rs); "
        "components: CoinFull, %s, FullMessage" % ", ".join(INPUT_VARIANTS)))

    # ---- Policies: hand-written impl
    # (PoliciesBits::all() = bits 0..5 is pinned through the bitflags! block)
    tr.defs.append(("S_Policies", "TPolicies", "hand-written impl for Policies (fuel-tx/src/transaction/policies.rs)"))

    # ---- ChargeableTransaction instantiations need Input/Policies: they were deferred
    tr.done[find_item("types::input::Input").qual()] = "S_Input"
    pol = find_item("policies::Policies")
    tr.done[pol.qual()] = "S_Policies"

    # ---- Transaction: hand-written impl; alternatives from the enum declaration
    txe = find_item("fuel_tx::transaction::Transaction")
    trepr = find_item("transaction::repr::TransactionRepr")
    discs = dict(Translator.enum_discs(trepr))
    alts = []
    for vname, disc, vfields, vtuple, vattrs in txe.variants:
        if not vtuple or len(vfields) != 1 or vname not in discs:
            raise SchemaError("Transaction::%s: unexpected shape" % vname)
        alts.append('("%s", %d, %s)' % (vname, discs[vname], tr.ty(vfields[0].ty, txe.module, txe.file, {}, "Transaction::" + vname)))
    if sorted(discs) != sorted(v[0] for v in txe.variants):
        raise SchemaError("Transaction and TransactionRepr have different variants")
    tr.defs.append(("S_Transaction", "peek_ [\n    %s]" % ";\n    ".join(alts),
                    "hand-written impl for Transaction (fuel-tx/src/transaction.rs): TransactionRepr peek + dispatch"))

    # ---- constants
    src = db.raw["fuel-types/src/canonical.rs"]
    m = re.search(r"pub const VEC_DECODE_LIMIT\s*:\s*usize\s*=\s*([^;]+);", src)
    if not m:
        raise SchemaError("VEC_DECODE_LIMIT not found in canonical.rs")
    limit = const_eval(lex(m.group(1)), "VEC_DECODE_LIMIT")
    m = re.search(r"pub const ALIGN\s*:\s*usize\s*=\s*([^;]+);", src)
    if not m or const_eval(lex(m.group(1)), "ALIGN") != 8:
        raise SchemaError("canonical::ALIGN is not 8: the model's alignment is hard-wired to 8")

    pins = hand_pins(db)
    if check_pins:
        bad = ["%s: %s (expected %s)" % (k, v, EXPECTED_PINS.get(k)) for k, v in sorted(pins.items()) if EXPECTED_PINS.get(k) != v]
        if bad:
            raise SchemaError("hand-modelled source text changed (re-validate Codec/CodecModel.v, then update EXPECTED_PINS "
                              "with `python3 tools/gen_schemas.py --print-pins`): " + "; ".join(bad))

    out = ["(* GENERATED by tools/gen_schemas.py from the Rust sources in /repo - DO NOT EDIT.",
           "   One schema per type deriving fuel_types::canonical::{Serialize, Deserialize}; see Codec/Schema.v. *)",
           "From FV Require Import Codec.Schema.",
           "Open Scope N_scope.",
           "Local Open Scope string_scope.",
           "",
           "(* fuel-types/src/canonical.rs: pub const VEC_DECODE_LIMIT *)",
           "Definition vec_decode_limit : N := %d." % limit,
           ""]
    seen = set()
    for cname, term, comment in tr.defs:
        if cname in seen:
            raise SchemaError("duplicate schema name " + cname)
        seen.add(cname)
        out.append("(* %s *)" % comment)
        out.append("Definition %s : ty :=\n  %s.\n" % (cname, term))
    out.append("Definition all_schemas : list (string * ty) := [\n  %s]." % ";\n  ".join('("%s", %s)' % (c[2:], c) for c, _, _ in tr.defs))
    out.append("")
    out.append("(* SHA-256 (first 16 hex digits) of the normalised text of every hand-modelled impl *)")
    out.append("Definition hand_model_pins : list (string * string) := [\n  %s]." % ";\n  ".join('("%s", "%s")' % kv for kv in sorted(pins.items())))
    out.append("")
    return {"Gen/Schemas.v": "\n".join(out)}


if __name__ == "__main__":
    repo = os.environ.get("VERIF_REPO", "/repo")
    if "--print-pins" in sys.argv:
        db = load(repo); db.repo = repo
        print("EXPECTED_PINS = {")
        for k, v in sorted(hand_pins(db).items()):
            print('    "%s": "%s",' % (k, v))
        print("}")
        sys.exit(0)
    files = generate(repo, check_pins="--no-pins" not in sys.argv)
    for rel, content in files.items():
        sys.stdout.write(content)
