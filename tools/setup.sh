#!/bin/bash
# MANIFEST.setup_cmd: build the framework offline from files on disk only.
set -u
cd "$(dirname "$0")/.."
export CARGO_NET_OFFLINE=true
# 1. Coq development (full .vo build)
python3 - <<'PY'
import sys; sys.path.insert(0, 'tools')
import vcheck, props
names = sorted({t for p in props.PROPS.values() for t in p.get('translators', [])})
vcheck.run_translators(names)
vcheck.coq_project()
PY
( cd coq && timeout 3000 make -k -j16 2>&1 | tail -20 )
# 2. Rust harness (all binaries) against /repo's current tree, hooks on
cp -n /repo/Cargo.lock harness/Cargo.lock 2>/dev/null || true
( cd harness && timeout 3000 cargo build --release --offline 2>&1 | tail -5 )
exit 0
