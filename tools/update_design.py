#!/usr/bin/env python3
"""Regenerate the generated table of DESIGN.md §9.3 (theorems per property) in place."""
import subprocess, re
p='/verif/DESIGN.md'; s=open(p).read()
tbl=subprocess.run(["python3","/verif/tools/design_table.py"],capture_output=True,text=True).stdout
a=s.index("| id | family / harness | theorems")
b=s.index("### 9.4 Seeded changes")
s=s[:a]+tbl+"\n\n"+s[b:]
open(p,'w').write(s)
print("DESIGN.md §9.3 regenerated")
