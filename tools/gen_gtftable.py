#!/usr/bin/env python3
"""gen_gtftable.py — translator for C05: regenerates coq/Gen/GtfTable.v from

  fuel-asm/src/args.rs            `enum GTFArgs` / `enum GMArgs` (selector <-> number) — emitted as Coq
                                  inductive types, so that a selector added to the source makes the
                                  hand-written model's `match` non-exhaustive (a compile error naming it)
  fuel-asm/src/panic_reason.rs    PanicReason discriminants (only those the two instructions can raise)
  fuel-vm/src/consts.rs           VM_MEMORY_BASE_ASSET_ID_OFFSET, VM_MEMORY_BALANCES_OFFSET
  fuel-tx/src/consts.rs           BALANCE_ENTRY_SIZE
  fuel-tx/.../consensus_parameters.rs   TxParameters::tx_offset (the formula is pattern-matched)
  fuel-tx/src/transaction/repr.rs TransactionRepr discriminants (GTF Type), InputRepr / OutputRepr

and pins (SHA-256 of the normalised text) the hand-modelled functions of fuel-vm:
`GTFInput::get_transaction_field`, `metadata` (GM), `Interpreter::init_inner`,
`RuntimeBalances::to_vm`.  Raises TranslateError on syntax it does not understand."""
import hashlib
import os
import re

import gen_txconsts as TC
from gen_txconsts import TranslateError, strip_comments, norm, match_brace, read


def enum_block(src, name, what):
    m = re.search(r"pub enum %s\s*\{" % name, src)
    if not m:
        raise TranslateError("%s: enum %s not found" % (what, name))
    body = src[m.end():match_brace(src, m.end() - 1) - 1]
    body = re.sub(r"#\[[^\]]*\]", " ", body)
    out = []
    for part in body.split(","):
        part = norm(part)
        if not part:
            continue
        mv = re.fullmatch(r"(\w+) = (0x[0-9a-fA-F_]+|\d+)", part)
        if not mv:
            raise TranslateError("%s: variant `%s` not understood (an explicit discriminant is expected)" % (name, part))
        out.append((mv.group(1), int(mv.group(2).replace("_", ""), 0)))
    if len(set(v for _, v in out)) != len(out) or len(set(n for n, _ in out)) != len(out):
        raise TranslateError("%s: duplicate variant name or discriminant" % name)
    return out


PINNED = [
    ("GTFInput::get_transaction_field", "fuel-vm/src/interpreter/metadata.rs",
     r"pub\(crate\) fn get_transaction_field\( self, result: &mut Word, b: Word, imm: Immediate12, \)", r"impl<Tx> GTFInput<'_, Tx>"),
    ("Interpreter::get_transaction_field", "fuel-vm/src/interpreter/metadata.rs",
     r"pub\(crate\) fn get_transaction_field\( &mut self, ra: RegId, b: Word, imm: Immediate12, \)", None),
    ("metadata", "fuel-vm/src/interpreter/metadata.rs", r"pub\(crate\) fn metadata\( context: &Context,", None),
    ("Interpreter::metadata", "fuel-vm/src/interpreter/metadata.rs", r"pub\(crate\) fn metadata\(&mut self, ra: RegId, imm: Immediate18\)", None),
    ("Interpreter::init_inner", "fuel-vm/src/interpreter/initialization.rs", r"fn init_inner\( &mut self,", None),
    ("RuntimeBalances::to_vm", "fuel-vm/src/interpreter/balances.rs", r"pub fn to_vm<M, S, Tx, Ecal, V>\(self, vm: &mut Interpreter<M, S, Tx, Ecal, V>\)", None),
    ("TxParameters::tx_offset", "fuel-tx/src/transaction/consensus_parameters.rs", r"pub const fn tx_offset\(&self\) -> usize", r"impl TxParameters\b"),
]
EXPECTED_PINS = {
    "GTFInput::get_transaction_field": "34a556148f60db05",
    "Interpreter::get_transaction_field": "1cc716b5edc8d775",
    "Interpreter::init_inner": "7407865c44307198",
    "Interpreter::metadata": "e7001caac681b69e",
    "RuntimeBalances::to_vm": "6b27a3898c0bc1a7",
    "TxParameters::tx_offset": "2ea3f520ad1dea94",
    "metadata": "adf811accc6c3b09",
}


def fn_text_norm(src, header_re, after, what):
    """like gen_txconsts.fn_text, but on whitespace-normalised text (multi-line headers)"""
    s = norm(src)
    if after is not None:
        for m in re.finditer(after, s):
            b = s.find("{", m.end())
            if b < 0:
                continue
            reg = s[b:match_brace(s, b)]
            m2 = re.search(header_re, reg)
            if m2:
                i = reg.index("{", m2.end())
                return reg[m2.start():match_brace(reg, i)]
        raise TranslateError("%s: not found" % what)
    m2 = re.search(header_re, s)
    if not m2:
        raise TranslateError("%s: not found" % what)
    i = s.index("{", m2.end())
    return s[m2.start():match_brace(s, i)]


def pins(repo):
    out, cache = {}, {}
    for key, rel, hdr, after in PINNED:
        if rel not in cache:
            cache[rel] = strip_comments(read(repo, rel))
        out[key] = hashlib.sha256(fn_text_norm(cache[rel], hdr, after, key).encode()).hexdigest()[:16]
    return out


def generate(repo, check_pins=True):
    args = strip_comments(read(repo, "fuel-asm/src/args.rs"))
    gtf = enum_block(args, "GTFArgs", "args.rs")
    gm = enum_block(args, "GMArgs", "args.rs")
    if not re.search(r"_ => Err\(\$crate::PanicReason::InvalidMetadataIdentifier\)", strip_comments(read(repo, "fuel-asm/src/macros.rs"))):
        raise TranslateError("enum_try_from!: the fallback is no longer Err(InvalidMetadataIdentifier)")
    reasons = dict(enum_block(strip_comments(read(repo, "fuel-asm/src/panic_reason.rs")), "PanicReason", "panic_reason.rs"))
    need = ["InputNotFound", "OutputNotFound", "WitnessNotFound", "InvalidMetadataIdentifier", "PolicyIsNotSet", "StorageSlotsNotFound",
            "ProofInUploadNotFound", "OwnerIsUnknown", "CanNotGetGasPriceInPredicate", "ExpectedInternalContext", "ExpectedNestedCaller",
            "TransactionValidity", "OutOfGas", "ReservedRegisterNotWritable", "ContractInstructionNotAllowed"]
    for n in need:
        if n not in reasons:
            raise TranslateError("PanicReason::%s not found" % n)
    env = TC.base_env(repo)
    vmc = strip_comments(read(repo, "fuel-vm/src/consts.rs"))
    consts = []
    for name in ["VM_MEMORY_BASE_ASSET_ID_OFFSET", "VM_MEMORY_BALANCES_OFFSET"]:
        m = re.search(r"pub const %s: usize\s*=\s*([^;]+);" % name, vmc)
        if not m:
            raise TranslateError("fuel-vm consts.rs: %s not found" % name)
        env[name] = TC.eval_expr(m.group(1), env, name)
        consts.append((name, env[name], norm(m.group(1))))
    txc = strip_comments(read(repo, "fuel-tx/src/consts.rs"))
    m = re.search(r"pub const BALANCE_ENTRY_SIZE: usize\s*=\s*([^;]+);", txc)
    if not m:
        raise TranslateError("fuel-tx consts.rs: BALANCE_ENTRY_SIZE not found")
    env["BALANCE_ENTRY_SIZE"] = TC.eval_expr(m.group(1), env, "BALANCE_ENTRY_SIZE")
    consts.append(("BALANCE_ENTRY_SIZE", env["BALANCE_ENTRY_SIZE"], norm(m.group(1))))
    # tx_offset = max_inputs * BALANCE_ENTRY_SIZE + (Bytes32::LEN + WORD_SIZE + AssetId::LEN)
    cp = strip_comments(read(repo, "fuel-tx/src/transaction/consensus_parameters.rs"))
    txo = fn_text_norm(cp, r"pub const fn tx_offset\(&self\) -> usize", r"impl TxParameters\b", "TxParameters::tx_offset")
    mm = re.search(r"\(self\.max_inputs\(\) as usize\)\.checked_mul\(BALANCE_ENTRY_SIZE\).*balances_size\.saturating_add\(\s*([^)]*?),?\s*\)\s*\}$", txo)
    if not mm:
        raise TranslateError("TxParameters::tx_offset: formula not understood: `%s`" % txo)
    fixed = TC.eval_expr(mm.group(1), env, "tx_offset")
    reprs = {}
    for rel, name in [("fuel-tx/src/transaction/repr.rs", "TransactionRepr"), ("fuel-tx/src/transaction/types/input/repr.rs", "InputRepr"),
                      ("fuel-tx/src/transaction/types/output/repr.rs", "OutputRepr")]:
        reprs[name] = enum_block(strip_comments(read(repo, rel)), name, rel)
    p = pins(repo)
    if check_pins:
        for k, v in p.items():
            if EXPECTED_PINS.get(k) != v:
                raise TranslateError("hand-modelled function %s changed (pin %s, expected %s): re-validate coq/Gtf/GtfModel.v "
                                     "against the new text and update EXPECTED_PINS" % (k, v, EXPECTED_PINS.get(k)))
    L = ["(* GENERATED by tools/gen_gtftable.py from the Rust sources in /repo - DO NOT EDIT. *)",
         "From Coq Require Import NArith String List.",
         "Import ListNotations.",
         "Open Scope N_scope.",
         "Local Open Scope string_scope.",
         "",
         "(* fuel-asm/src/args.rs: enum GTFArgs *)",
         "Inductive gtf_arg : Type :=",
         "\n".join("| GTF_%s" % n for n, _ in gtf) + ".",
         "Definition gtf_code (a : gtf_arg) : N :=",
         "  match a with",
         "\n".join("  | GTF_%s => %d" % (n, v) for n, v in gtf),
         "  end.",
         "Definition all_gtf_args : list gtf_arg := [" + "; ".join("GTF_%s" % n for n, _ in gtf) + "].",
         "Definition gtf_name (a : gtf_arg) : string :=",
         "  match a with",
         "\n".join('  | GTF_%s => "%s"' % (n, n) for n, _ in gtf),
         "  end.",
         "",
         "(* fuel-asm/src/args.rs: enum GMArgs *)",
         "Inductive gm_arg : Type :=",
         "\n".join("| GM_%s" % n for n, _ in gm) + ".",
         "Definition gm_code (a : gm_arg) : N :=",
         "  match a with",
         "\n".join("  | GM_%s => %d" % (n, v) for n, v in gm),
         "  end.",
         "Definition all_gm_args : list gm_arg := [" + "; ".join("GM_%s" % n for n, _ in gm) + "].",
         "",
         "(* fuel-asm/src/panic_reason.rs *)"]
    for n in need:
        L.append("Definition P_%s : N := %d." % (n, reasons[n]))
    L.append("")
    L.append("(* VM memory layout *)")
    for n, v, e in consts:
        L.append("Definition %s : N := %d.   (* %s *)" % (n, v, e))
    L.append("(* TxParameters::tx_offset = max_inputs * BALANCE_ENTRY_SIZE + this (tx id + tx size word + base asset id) *)")
    L.append("Definition TX_OFFSET_FIXED : N := %d." % fixed)
    L.append("")
    for name, vs in reprs.items():
        L.append("Definition %s_discriminants : list (string * N) := [%s]." % (name, "; ".join('("%s", %d)' % x for x in vs)))
    L.append("")
    L.append("Definition gtf_model_pins : list (string * string) := [")
    L.append(";\n".join('  ("%s", "%s")' % kv for kv in sorted(p.items())) + "].")
    L.append("")
    rust = ["// GENERATED by tools/gen_gtftable.py - DO NOT EDIT.  GTFArgs / GMArgs selectors (name, code).",
            "pub const GTF_ARGS: [(&str, u16); %d] = [%s];" % (len(gtf), ", ".join('("%s", %d)' % x for x in gtf)),
            "pub const GM_ARGS: [(&str, u32); %d] = [%s];" % (len(gm), ", ".join('("%s", %d)' % x for x in gm)), ""]
    return {"Gen/GtfTable.v": "\n".join(L), "../harness/src/gen/gtf_table.rs": "\n".join(rust)}


if __name__ == "__main__":
    import sys
    if len(sys.argv) > 2 and sys.argv[2] == "--pins":
        for k, v in sorted(pins(sys.argv[1]).items()):
            print('    "%s": "%s",' % (k, v))
    else:
        for k, v in generate(sys.argv[1] if len(sys.argv) > 1 else "/repo", check_pins="--nopins" not in sys.argv).items():
            print("=====", k)
            print(v)
