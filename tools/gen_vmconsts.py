#!/usr/bin/env python3
"""gen_vmconsts.py — translator for C24 / C34: regenerates coq/Gen/VmConsts.v from

  fuel-asm/src/lib.rs                 opcode bytes (impl_instructions!), RegId constants
  fuel-asm/src/panic_reason.rs        PanicReason discriminants
  fuel-vm/src/consts.rs               VM_REGISTER_COUNT, VM_MAX_RAM, MEM_SIZE, balances offset
  fuel-tx/src/consts.rs               BALANCE_ENTRY_SIZE
  fuel-vm/src/call.rs                 Call::LEN, CallFrame offsets (the saturating_add chain)
  fuel-vm/src/interpreter/**.rs       (non-test) every site that writes VM memory WITHOUT an
                                      ownership check, as (file, enclosing fn, primitive)
  fuel-vm/src/interpreter/executors/opcodes_impl.rs
                                      for every `impl Execute for op::X`: the interpreter methods
                                      the handler calls (the route its memory writes take)

Raises on syntax it does not understand (a broken tie, see DESIGN.md section 4)."""
import re, os, glob


class TranslateError(Exception):
    pass


def read(repo, rel):
    return open(os.path.join(repo, rel)).read()


def strip_rust_comments(src):
    src = re.sub(r"/\*.*?\*/", lambda m: "\n" * m.group(0).count("\n"), src, flags=re.S)
    return re.sub(r"//[^\n]*", "", src)


# ------------------------------------------------------------------ opcodes / registers / reasons
def parse_optable(repo):
    src = read(repo, "fuel-asm/src/lib.rs")
    m = re.search(r"impl_instructions!\s*\{(.*?)\n\}", src, re.S)
    if not m:
        raise TranslateError("impl_instructions! block not found")
    ops = []
    for mm in re.finditer(r"(0x[0-9a-fA-F]{2})\s+([A-Z0-9]+)\s+(\w+)\s+\[([^\]]*)\]", m.group(1)):
        byte, name, fn, args = mm.groups()
        tys = [t for _, t in re.findall(r"(\w+)\s*:\s*(\w+)", args)]
        for ty in tys:
            if ty not in ("RegId", "Imm06", "Imm12", "Imm18", "Imm24"):
                raise TranslateError("unknown argument type %s in %s" % (ty, name))
        ops.append((int(byte, 16), name, tys))
    if len(ops) < 100:
        raise TranslateError("only %d opcodes parsed" % len(ops))
    if len(set(b for b, _, _ in ops)) != len(ops):
        raise TranslateError("duplicate opcode byte")
    return ops


def parse_regids(repo):
    src = read(repo, "fuel-asm/src/lib.rs")
    regs = dict((n, int(v, 16)) for n, v in re.findall(r"pub const ([A-Z]+): Self = Self\((0x[0-9A-Fa-f]+)\);", src))
    need = ["ZERO", "ONE", "OF", "PC", "SSP", "SP", "FP", "HP", "ERR", "GGAS", "CGAS", "BAL", "IS", "RET", "RETL", "FLAG", "WRITABLE"]
    for n in need:
        if n not in regs:
            raise TranslateError("RegId::%s not found" % n)
    if sorted(regs[n] for n in need[:16]) != list(range(16)):
        raise TranslateError("system registers are not 0..15")
    return [(n, regs[n]) for n in need]


def parse_reasons(repo):
    src = read(repo, "fuel-asm/src/panic_reason.rs")
    m = re.search(r"pub enum PanicReason \{(.*?)\n    \}", src, re.S)
    if not m:
        raise TranslateError("enum PanicReason not found")
    rs = [(n, int(v, 16)) for n, v in re.findall(r"^\s*([A-Z]\w+)\s*=\s*(0x[0-9a-fA-F]+),", m.group(1), re.M)]
    if len(rs) < 40:
        raise TranslateError("only %d panic reasons parsed" % len(rs))
    return rs


# ------------------------------------------------------------------ constants
def const_expr(src, name):
    m = re.search(r"pub const %s\s*:\s*\w+\s*=\s*([^;]+);" % name, src)
    if not m:
        raise TranslateError("constant %s not found" % name)
    return re.sub(r"\s+", " ", m.group(1).strip())


def parse_consts(repo):
    c = strip_rust_comments(read(repo, "fuel-vm/src/consts.rs"))
    env = {}
    env["VM_REGISTER_COUNT"] = int(const_expr(c, "VM_REGISTER_COUNT"))
    env["VM_REGISTER_SYSTEM_COUNT"] = int(const_expr(c, "VM_REGISTER_SYSTEM_COUNT"))
    if const_expr(c, "WORD_SIZE") != "mem::size_of::<Word>()":
        raise TranslateError("WORD_SIZE is not size_of::<Word>()")
    env["WORD_SIZE"] = 8
    env["FUEL_MAX_MEMORY_SIZE"] = int(const_expr(c, "FUEL_MAX_MEMORY_SIZE"))
    if const_expr(c, "VM_MAX_RAM") != "1024 * 1024 * FUEL_MAX_MEMORY_SIZE":
        raise TranslateError("VM_MAX_RAM formula changed: " + const_expr(c, "VM_MAX_RAM"))
    env["VM_MAX_RAM"] = 1024 * 1024 * env["FUEL_MAX_MEMORY_SIZE"]
    if const_expr(c, "MEM_SIZE") != "VM_MAX_RAM as usize":
        raise TranslateError("MEM_SIZE formula changed")
    env["MEM_SIZE"] = env["VM_MAX_RAM"]
    # array types: Bytes32 / AssetId / ContractId are 32-byte keys
    at = read(repo, "fuel-types/src/array_types.rs")
    for ty in ("AssetId", "ContractId", "Bytes32"):
        if not re.search(r"key(?:_with_big_array)?!\(\s*%s\s*,\s*32\s*\)" % ty, at):
            raise TranslateError("%s::LEN = 32 not confirmed in fuel-types/src/array_types.rs" % ty)
    if const_expr(c, "VM_MEMORY_BASE_ASSET_ID_OFFSET") != "Bytes32::LEN":
        raise TranslateError("VM_MEMORY_BASE_ASSET_ID_OFFSET formula changed")
    if const_expr(c, "VM_MEMORY_BALANCES_OFFSET") != "VM_MEMORY_BASE_ASSET_ID_OFFSET + AssetId::LEN":
        raise TranslateError("VM_MEMORY_BALANCES_OFFSET formula changed")
    env["VM_MEMORY_BALANCES_OFFSET"] = 64
    t = strip_rust_comments(read(repo, "fuel-tx/src/consts.rs"))
    if const_expr(t, "BALANCE_ENTRY_SIZE") != "AssetId::LEN + WORD_SIZE":
        raise TranslateError("BALANCE_ENTRY_SIZE formula changed")
    env["BALANCE_ENTRY_SIZE"] = 40
    return env


def parse_callframe(repo, env):
    src = strip_rust_comments(read(repo, "fuel-vm/src/call.rs"))
    m = re.search(r"pub const LEN: usize = ContractId::LEN \+ 8 \+ 8;", src)
    if not m:
        raise TranslateError("Call::LEN formula changed")
    env["CALL_LEN"] = 48
    # struct field order of CallFrame (canonical serialization order)
    m = re.search(r"pub struct CallFrame \{(.*?)\}", src, re.S)
    if not m:
        raise TranslateError("struct CallFrame not found")
    fields = re.findall(r"(\w+)\s*:\s*([^,\n]+),", m.group(1))
    want = [("to", "ContractId"), ("asset_id", "AssetId"), ("registers", "[Word; VM_REGISTER_COUNT]"),
            ("code_size_padded", "usize"), ("a", "Word"), ("b", "Word")]
    if [(a, b.strip()) for a, b in fields] != want:
        raise TranslateError("CallFrame fields changed: %r" % fields)
    sizes = {"ContractId::LEN": 32, "AssetId::LEN": 32, "WORD_SIZE * VM_REGISTER_COUNT": 8 * env["VM_REGISTER_COUNT"], "WORD_SIZE": 8}
    offs = {}

    def fn_body(name):
        mm = re.search(r"pub const fn %s\(\) -> usize \{\s*(.*?)\s*\}" % name, src, re.S)
        if not mm:
            raise TranslateError("CallFrame::%s not found" % name)
        return re.sub(r"\s+", " ", mm.group(1))

    if fn_body("contract_id_offset") != "0":
        raise TranslateError("contract_id_offset changed")
    offs["contract_id_offset"] = 0
    chain = ["contract_id_offset", "asset_id_offset", "registers_offset", "code_size_offset", "a_offset", "b_offset", "serialized_size"]
    for prev, cur in zip(chain, chain[1:]):
        b = fn_body(cur)
        mm = re.fullmatch(r"Self::%s\(\)\s*\.saturating_add\((.*)\)" % prev, b)
        if not mm or mm.group(1).strip() not in sizes:
            raise TranslateError("CallFrame::%s: unexpected body %r" % (cur, b))
        offs[cur] = offs[prev] + sizes[mm.group(1).strip()]
    return offs


# ------------------------------------------------------------------ unchecked write sites
UNCHECKED = ["write_noownerchecks", "write_bytes_noownerchecks", "grow_stack", "grow_heap_by", "only_allow_stack_write"]


def enclosing_fn(src, pos):
    best = None
    for m in re.finditer(r"\bfn\s+(\w+)", src[:pos]):
        best = m.group(1)
    return best or "?"


def unchecked_sites(repo):
    base = os.path.join(repo, "fuel-vm/src/interpreter")
    out = []
    for path in sorted(glob.glob(os.path.join(base, "**", "*.rs"), recursive=True)):
        rel = os.path.relpath(path, os.path.join(repo, "fuel-vm/src"))
        if re.search(r"(^|/)(tests?|\w*_tests?|impl_tests|allocation_tests|stack_tests)(\.rs|/)", rel) or "/tests/" in rel:
            continue
        src = strip_rust_comments(open(path).read())
        # drop #[cfg(test)] mod blocks that live inline
        src = re.sub(r"#\[cfg\(test\)\]\s*mod\s+\w+\s*\{.*\Z", "", src, flags=re.S)
        for m in re.finditer(r"\b(%s)\s*\(" % "|".join(UNCHECKED), src):
            # skip the definitions themselves
            if re.search(r"fn\s+$", src[max(0, m.start() - 12):m.start()]):
                continue
            out.append((rel, enclosing_fn(src, m.start()), m.group(1)))
    if len(out) < 10:
        raise TranslateError("only %d unchecked-write sites found" % len(out))
    return out


# ------------------------------------------------------------------ handler routes
IGNORE_CALLS = {"gas_charge", "dependent_gas_charge", "gas_costs", "dependent_gas_charge_without_base", "registers", "memory",
                "write_user_register", "write_user_register_legacy", "internal_contract", "ownership_registers"}


def handler_routes(repo, ops):
    src = strip_rust_comments(read(repo, "fuel-vm/src/interpreter/executors/opcodes_impl.rs"))
    parts = re.split(r"(?=impl<M, S, Tx, Ecal, V> Execute<M, S, Tx, Ecal, V> for fuel_asm::op::)", src)
    routes = {}
    for p in parts[1:]:
        name = re.match(r"impl<M, S, Tx, Ecal, V> Execute<M, S, Tx, Ecal, V> for fuel_asm::op::(\w+)", p).group(1)
        calls = []
        for m in re.finditer(r"\binterpreter\s*\.\s*(\w+)\s*\(", p):
            c = m.group(1)
            if c not in IGNORE_CALLS and c not in calls:
                calls.append(c)
        direct = sorted(set(re.findall(r"\b(write_noownerchecks|write_bytes_noownerchecks|write_bytes|memory_mut|as_mut\(\)\s*\.\s*write)\b", p)))
        direct += ["memory.write"] if re.search(r"\bmemory\s*\.\s*write\s*\(", p) else []
        routes[name] = (calls, direct)
    names = [n for _, n, _ in ops]
    missing = [n for n in names if n not in routes]
    if missing:
        raise TranslateError("no Execute handler found for: %s" % ", ".join(missing))
    return [(n, routes[n][0], routes[n][1]) for n in names]


# ------------------------------------------------------------------ emit
def coq_str_list(xs):
    return "[" + "; ".join('"%s"' % x for x in xs) + "]"


def generate(repo):
    ops = parse_optable(repo)
    regs = parse_regids(repo)
    reasons = parse_reasons(repo)
    env = parse_consts(repo)
    offs = parse_callframe(repo, env)
    sites = unchecked_sites(repo)
    routes = handler_routes(repo, ops)
    L = []
    L.append("(* GENERATED by tools/gen_vmconsts.py from fuel-asm/src/lib.rs, fuel-asm/src/panic_reason.rs, fuel-vm/src/consts.rs,")
    L.append("   fuel-tx/src/consts.rs, fuel-vm/src/call.rs, fuel-vm/src/interpreter/**.rs on every check — DO NOT EDIT. *)")
    L.append("From Coq Require Import NArith List String.")
    L.append("Import ListNotations.")
    L.append("Open Scope N_scope.")
    L.append("Open Scope string_scope.")
    L.append("")
    L.append("(* ---- fuel-vm/src/consts.rs, fuel-tx/src/consts.rs *)")
    for k in ["VM_REGISTER_COUNT", "VM_REGISTER_SYSTEM_COUNT", "WORD_SIZE", "VM_MAX_RAM", "MEM_SIZE", "VM_MEMORY_BALANCES_OFFSET", "BALANCE_ENTRY_SIZE", "CALL_LEN"]:
        L.append("Definition %s : N := %d." % (k, env[k]))
    L.append("")
    L.append("(* ---- fuel-vm/src/call.rs: CallFrame layout (to | asset_id | registers | code_size_padded | a | b) *)")
    names = {"contract_id_offset": "CF_TO_OFFSET", "asset_id_offset": "CF_ASSET_OFFSET", "registers_offset": "CF_REGS_OFFSET",
             "code_size_offset": "CF_CODE_SIZE_OFFSET", "a_offset": "CF_A_OFFSET", "b_offset": "CF_B_OFFSET", "serialized_size": "CF_SIZE"}
    for k, v in names.items():
        L.append("Definition %s : N := %d." % (v, offs[k]))
    L.append("")
    L.append("(* ---- fuel-asm RegId *)")
    for n, v in regs:
        L.append("Definition REG_%s : N := %d." % (n, v))
    L.append("")
    L.append("(* ---- fuel-asm PanicReason *)")
    for n, v in reasons:
        L.append("Definition PANIC_%s : N := %d." % (n, v))
    L.append("")
    L.append("(* ---- fuel-asm opcodes *)")
    for b, n, _ in ops:
        L.append("Definition OP_%s : N := %d. (* 0x%02x *)" % (n, b, b))
    L.append("Definition opcode_names : list (N * string) := [")
    L.append(";\n".join('  (%d, "%s")' % (b, n) for b, n, _ in ops))
    L.append("].")
    L.append("")
    L.append("(* ---- every call of a memory primitive that bypasses OwnershipRegisters::verify_ownership, or builds a")
    L.append("   restricted owner (only_allow_stack_write), in non-test code under fuel-vm/src/interpreter:")
    L.append("   (file, enclosing fn, primitive) *)")
    L.append("Definition unchecked_write_sites : list (string * string * string) := [")
    L.append(";\n".join('  ("%s", "%s", "%s")' % s for s in sites))
    L.append("].")
    L.append("")
    L.append("(* ---- per opcode: interpreter methods its Execute handler calls (gas/register helpers omitted), and memory")
    L.append("   primitives used directly inside the handler body *)")
    L.append("Definition handler_routes : list (string * list string * list string) := [")
    L.append(";\n".join('  ("%s", %s, %s)' % (n, coq_str_list(c), coq_str_list(d)) for n, c, d in routes))
    L.append("].")
    L.append("")
    return {"Gen/VmConsts.v": "\n".join(L)}


if __name__ == "__main__":
    import sys
    repo = sys.argv[1] if len(sys.argv) > 1 else "/repo"
    for rel, content in generate(repo).items():
        p = os.path.join(os.path.dirname(os.path.dirname(os.path.abspath(__file__))), "coq", rel)
        old = open(p).read() if os.path.exists(p) else None
        if old != content:
            open(p, "w").write(content)
        print(rel, len(content), "bytes", "(unchanged)" if old == content else "(written)")
