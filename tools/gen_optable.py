#!/usr/bin/env python3
"""gen_optable.py — translator for the instruction-encoding family (C08; OpTable is shared).

Re-reads the Rust source on every run and regenerates

  coq/Gen/OpTable.v     every row of `impl_instructions! { ... }` in fuel-asm/src/lib.rs
                        (opcode byte, NAME, shorthand constructor, argument shape) and the
                        interpreter's dispatch `match opcode { Opcode::X => execute_op!(Y) }`
                        of fuel-vm/src/interpreter/executors/instruction.rs;
  coq/Gen/PackTable.v   shift / cast / mask of every argument position (pack.rs, unpack.rs, the
                        `new` functions of RegId/Imm06/Imm12/Imm18/Imm24 in lib.rs) and, per
                        argument shape, which pack / unpack function and which reserved-bits rule
                        the arms of `op_new!`, `op_unpack!`, `op_reserved_part!` (macros.rs) use;
  harness/src/gen/asm_optable.rs   the same opcode rows as a Rust macro, so that the harness
                        binary `asm` dispatches over exactly the opcodes of the current tree.

The parsers accept exactly the idioms present in those files.  Anything else raises
`Unsupported` (a broken tie, handled by vcheck as such) — nothing is skipped silently.
"""
import os, re, sys


class Unsupported(Exception):
    pass


ARGTYS = ["RegId", "Imm06", "Imm12", "Imm18", "Imm24"]


# ------------------------------------------------------------------ generic helpers
def strip_comments(src):
    """remove // line comments and /* */ comments (string literals are respected)"""
    out, i, n = [], 0, len(src)
    while i < n:
        c = src[i]
        if c == '"':
            j = i + 1
            while j < n and src[j] != '"':
                j += 2 if src[j] == "\\" else 1
            out.append(src[i:j + 1]); i = j + 1
        elif src.startswith("//", i):
            j = src.find("\n", i)
            i = n if j < 0 else j
        elif src.startswith("/*", i):
            j = src.find("*/", i)
            if j < 0:
                raise Unsupported("unterminated block comment")
            i = j + 2
        else:
            out.append(c); i += 1
    return "".join(out)


OPEN = {"(": ")", "[": "]", "{": "}"}


def match_bracket(src, i):
    """src[i] is an opening bracket; returns index of the matching closing bracket"""
    if src[i] not in OPEN:
        raise Unsupported("expected a bracket at %d: %r" % (i, src[i:i + 20]))
    stack = []
    n = len(src)
    while i < n:
        c = src[i]
        if c == '"':
            i += 1
            while i < n and src[i] != '"':
                i += 2 if src[i] == "\\" else 1
        elif c in OPEN:
            stack.append(OPEN[c])
        elif c in ")]}":
            if not stack or stack.pop() != c:
                raise Unsupported("unbalanced bracket %r" % c)
            if not stack:
                return i
        i += 1
    raise Unsupported("unterminated bracket")


def norm(s):
    """canonical spacing: tokens separated by single blanks, no blanks around punctuation"""
    s = re.sub(r"\s+", " ", s).strip()
    s = re.sub(r"\s*([()\[\]{},;:|&<>=!.*])\s*", r"\1", s)
    return s


def read(repo, rel):
    p = os.path.join(repo, rel)
    if not os.path.exists(p):
        raise Unsupported("missing source file " + rel)
    return open(p).read()


# ------------------------------------------------------------------ lib.rs: the opcode table
ROW_RE = re.compile(
    r'\s*"(?:[^"\\]|\\.)*"\s+(0[xX][0-9a-fA-F]+)\s+([A-Z][A-Z0-9_]*)\s+([a-z_][a-z0-9_]*)\s+\[([^\[\]]*)\]')
FIELD_RE = re.compile(r"\s*([a-z_][a-z0-9_]*)\s*:\s*([A-Za-z0-9_]+)")


def parse_optable(lib_src):
    src = strip_comments(lib_src)
    ms = list(re.finditer(r"(?m)^impl_instructions!\s*\{", src))
    if len(ms) != 1:
        raise Unsupported("expected exactly one `impl_instructions! {` invocation in lib.rs, found %d" % len(ms))
    a = ms[0].end() - 1
    b = match_bracket(src, a)
    body = src[a + 1:b]
    rows, pos = [], 0
    while body[pos:].strip():
        m = ROW_RE.match(body, pos)
        if not m:
            raise Unsupported("impl_instructions!: cannot parse row at: %r" % body[pos:pos + 80].strip())
        byte, name, ctor, fields = int(m.group(1), 16), m.group(2), m.group(3), m.group(4)
        shape, fnames, fpos = [], [], 0
        while fields[fpos:].strip():
            fm = FIELD_RE.match(fields, fpos)
            if not fm:
                raise Unsupported("impl_instructions!: cannot parse fields of %s: %r" % (name, fields))
            if fm.group(2) not in ARGTYS:
                raise Unsupported("impl_instructions!: unknown argument type %s in %s" % (fm.group(2), name))
            fnames.append(fm.group(1)); shape.append(fm.group(2)); fpos = fm.end()
        if not 0 <= byte <= 0xFFFFFFFF:
            raise Unsupported("opcode literal out of range in %s" % name)
        rows.append(dict(byte=byte, name=name, ctor=ctor, shape=shape, fnames=fnames))
        pos = m.end()
    if not rows:
        raise Unsupported("impl_instructions!: empty table")
    return rows


# ------------------------------------------------------------------ lib.rs: RegId/ImmXX::new masks
def int_lit(s):
    s = s.replace("_", "")
    if re.fullmatch(r"0[bB][01]+", s):
        return int(s[2:], 2)
    if re.fullmatch(r"0[xX][0-9a-fA-F]+", s):
        return int(s[2:], 16)
    if re.fullmatch(r"[0-9]+", s):
        return int(s)
    raise Unsupported("not an integer literal: %r" % s)


def impl_blocks(src, ty):
    for m in re.finditer(r"(?m)^impl\s+%s\s*\{" % re.escape(ty), src):
        a = m.end() - 1
        yield src[a + 1:match_bracket(src, a)]


def parse_type_masks(lib_src):
    """T::new(u: uN) -> Self { Self(u & MASK) } with MASK a literal or Self::MAX.0;
       T::new_checked(u) = (new(u).0 == u).then_some(..)"""
    src = strip_comments(lib_src)
    res = {}
    for ty in ARGTYS:
        m = re.search(r"pub\s+struct\s+%s\s*\(\s*(u8|u16|u32)\s*\)\s*;" % ty, src)
        if not m:
            raise Unsupported("lib.rs: cannot find `pub struct %s(uN);`" % ty)
        repr_bits = int(m.group(1)[1:])
        mask = None
        checked_ok = False
        for blk in impl_blocks(src, ty):
            nb = norm(blk)
            mm = re.search(r"pub const fn new\(u:(u8|u16|u32)\)->Self\{Self\(u&([^)]*)\)\}", nb)
            if mm:
                if int(mm.group(1)[1:]) != repr_bits:
                    raise Unsupported("lib.rs: %s::new takes %s but the struct holds u%d" % (ty, mm.group(1), repr_bits))
                e = mm.group(2)
                if e == "Self::MAX.0":
                    mx = re.search(r"pub const MAX:Self=Self\(([0-9a-zA-Z_]+)\);", nb)
                    if not mx:
                        raise Unsupported("lib.rs: %s::MAX is not a literal" % ty)
                    mask = int_lit(mx.group(1))
                else:
                    mask = int_lit(e)
            mc = re.search(r"pub fn new_checked\(u:(u8|u16|u32)\)->Option<(?:Self|%s)>\{let (\w+)=Self::new\(u\);\(\2\.0==u\)\.then_some\(\2\)\}" % ty, nb)
            if mc:
                checked_ok = True
        if mask is None:
            raise Unsupported("lib.rs: cannot find `%s::new(u) { Self(u & MASK) }`" % ty)
        if not checked_ok:
            raise Unsupported("lib.rs: %s::new_checked is not `(new(u).0 == u).then_some(..)`" % ty)
        res[ty] = dict(mask=mask, repr_bits=repr_bits)
    return res


# ------------------------------------------------------------------ pack.rs / unpack.rs
def split_fns(src, what):
    """[(name, params_text, ret_text, body_text)] for every `fn` item of a file made only of
    `use` items and `fn` items"""
    src = strip_comments(src)
    src = re.sub(r"#!?\[[^\]]*\]", " ", src)            # attributes
    fns, pos = [], 0
    while True:
        rest = src[pos:]
        if not rest.strip():
            break
        m = re.match(r"\s*use\s", rest)
        if m:
            # `use a::{...};`
            j = src.find(";", pos)
            if j < 0:
                raise Unsupported(what + ": unterminated use item")
            pos = j + 1
            continue
        m = re.match(r"\s*(?:pub(?:\([a-z]+\))?\s+)?fn\s+(\w+)\s*", rest)
        if not m:
            raise Unsupported(what + ": unrecognised item at: %r" % rest.strip()[:80])
        name = m.group(1)
        i = pos + m.end()
        j = match_bracket(src, i)
        params = src[i + 1:j]
        m2 = re.match(r"\s*->\s*", src[j + 1:])
        if not m2:
            raise Unsupported(what + ": fn %s has no return type" % name)
        k = src.find("{", j)
        # return type may itself contain brackets: scan to the first `{` at depth 0
        k = j + 1 + m2.end()
        depth = 0
        while k < len(src):
            c = src[k]
            if c in "([":
                depth += 1
            elif c in ")]":
                depth -= 1
            elif c == "{" and depth == 0:
                break
            k += 1
        ret = src[j + 1 + m2.end():k]
        e = match_bracket(src, k)
        fns.append((name, norm(params), norm(ret), norm(src[k + 1:e])))
        pos = e + 1
    return fns


def split_top(s, sep=","):
    """split at separators that are not nested in brackets"""
    parts, depth, cur = [], 0, ""
    for c in s:
        if c in "([{":
            depth += 1
        elif c in ")]}":
            depth -= 1
        if c == sep and depth == 0:
            parts.append(cur); cur = ""
        else:
            cur += c
    if cur.strip():
        parts.append(cur)
    return [p.strip() for p in parts]


def parse_pack(pack_src):
    """returns (field_shift: {field: (type, shift)}, bytes_fns: {bytes_from_X: [fields in parameter order]})"""
    fns = split_fns(pack_src, "pack.rs")
    single, composite, bytes_fns, seen_drop = {}, {}, {}, False
    names = [f[0] for f in fns]
    if len(set(names)) != len(names):
        raise Unsupported("pack.rs: duplicate fn")
    for name, params, ret, body in fns:
        if name == "u8x3_from_u8x4":
            if (params, ret, body) != ("[_,a,b,c]:[u8;4]", "[u8;3]", "[a,b,c]"):
                raise Unsupported("pack.rs: u8x3_from_u8x4 is not `[_, a, b, c] -> [a, b, c]`")
            seen_drop = True
            continue
        ps = []
        for p in split_top(params):
            m = re.fullmatch(r"(\w+):(\w+)", p)
            if not m or m.group(2) not in ARGTYS:
                raise Unsupported("pack.rs: fn %s: parameter %r" % (name, p))
            ps.append((m.group(1), m.group(2)))
        if name.startswith("u32_from_") and ret == "u32":
            if len(ps) == 1:
                v = ps[0][0]
                m = (re.fullmatch(r"\(%s\.0 as u32\)<<(\d+)" % v, body) or
                     re.fullmatch(r"%s\.0 as u32()" % v, body) or re.fullmatch(r"%s\.0()" % v, body))
                if m:
                    single[name[len("u32_from_"):]] = (ps[0][1], int(m.group(1) or 0))
                    continue
            composite[name] = (ps, body)
            continue
        if name.startswith("bytes_from_") and ret == "[u8;3]":
            m = re.fullmatch(r"u8x3_from_u8x4\((\w+)\(([\w,]*)\)\.to_be_bytes\(\)\)", body)
            if not m:
                raise Unsupported("pack.rs: fn %s: body %r" % (name, body))
            if m.group(2).split(",") != [p[0] for p in ps]:
                raise Unsupported("pack.rs: fn %s does not forward its parameters in order" % name)
            bytes_fns[name] = (ps, m.group(1))
            continue
        raise Unsupported("pack.rs: unrecognised fn %s(%s)->%s{%s}" % (name, params, ret, body))
    if not seen_drop:
        raise Unsupported("pack.rs: u8x3_from_u8x4 missing")

    def expand(fname, argnames, depth=0):
        """list of (field, argument name) contributed by the call fname(argnames)"""
        if depth > 8:
            raise Unsupported("pack.rs: recursion in " + fname)
        f = fname[len("u32_from_"):] if fname.startswith("u32_from_") else None
        if f in single and fname not in composite:
            if len(argnames) != 1:
                raise Unsupported("pack.rs: call of %s with %d arguments" % (fname, len(argnames)))
            return [(f, argnames[0])]
        if fname not in composite:
            raise Unsupported("pack.rs: unknown function " + fname)
        ps, body = composite[fname]
        if len(ps) != len(argnames):
            raise Unsupported("pack.rs: arity mismatch calling " + fname)
        env = dict(zip([p[0] for p in ps], argnames))
        out = []
        for call in split_top(body, "|"):
            m = re.fullmatch(r"(\w+)\(([\w,]*)\)", call)
            if not m:
                raise Unsupported("pack.rs: fn %s: operand %r is not a call" % (fname, call))
            inner = [a for a in m.group(2).split(",") if a]
            for a in inner:
                if a not in env:
                    raise Unsupported("pack.rs: fn %s: unknown variable %s" % (fname, a))
            out += expand(m.group(1), [env[a] for a in inner], depth + 1)
        return out

    res = {}
    for name, (ps, callee) in bytes_fns.items():
        contrib = expand(callee, [p[0] for p in ps])
        by_arg = {}
        for f, a in contrib:
            if a in by_arg:
                raise Unsupported("pack.rs: %s uses parameter %s twice" % (name, a))
            by_arg[a] = f
        fields = []
        for pn, pt in ps:
            if pn not in by_arg:
                raise Unsupported("pack.rs: %s ignores parameter %s" % (name, pn))
            if single[by_arg[pn]][0] != pt:
                raise Unsupported("pack.rs: %s passes a %s to u32_from_%s" % (name, pt, by_arg[pn]))
            fields.append(by_arg[pn])
        res[name] = fields
    return single, res


def parse_unpack(unpack_src):
    """returns (field: (type, shift, cast_bits)), composite: {X_from_bytes: [fields]}"""
    fns = split_fns(unpack_src, "unpack.rs")
    names = [f[0] for f in fns]
    if len(set(names)) != len(names):
        raise Unsupported("unpack.rs: duplicate fn")
    single_u32, single_bytes, composite, seen_pad = {}, {}, {}, False
    for name, params, ret, body in fns:
        if name == "u8x4_from_u8x3":
            if (params, ret, body) != ("[a,b,c]:[u8;3]", "[u8;4]", "[0,a,b,c]"):
                raise Unsupported("unpack.rs: u8x4_from_u8x3 is not `[a, b, c] -> [0, a, b, c]`")
            seen_pad = True
            continue
        if name.endswith("_from_u32") and params == "u:u32" and ret in ARGTYS:
            m = re.fullmatch(r"(\w+)::new\((.*)\)", body)
            if not m or m.group(1) != ret:
                raise Unsupported("unpack.rs: fn %s: body %r" % (name, body))
            e = m.group(2)
            mm = (re.fullmatch(r"\(u>>(\d+)\)as u(8|16|32)", e) or re.fullmatch(r"u() as u(8|16|32)", e)
                  or re.fullmatch(r"u()()", e))
            if not mm:
                raise Unsupported("unpack.rs: fn %s: argument %r" % (name, e))
            single_u32[name[:-len("_from_u32")]] = (ret, int(mm.group(1) or 0), int(mm.group(2) or 32))
            continue
        if name.endswith("_from_bytes") and params == "bs:[u8;3]":
            m = re.fullmatch(r"(\w+)_from_u32\(u32::from_be_bytes\(u8x4_from_u8x3\(bs\)\)\)", body)
            if m:
                if m.group(1) + "_from_bytes" != name or ret not in ARGTYS:
                    raise Unsupported("unpack.rs: fn %s calls %s_from_u32" % (name, m.group(1)))
                single_bytes[m.group(1)] = ret
                continue
            m = re.fullmatch(r"\(((?:\w+_from_bytes\(bs\),?)+)\)", body)
            if m and ret.startswith("(") and ret.endswith(")"):
                fields = [c[:-len("_from_bytes(bs)")] for c in m.group(1).rstrip(",").split(",")]
                composite[name] = (fields, split_top(ret[1:-1]))
                continue
        raise Unsupported("unpack.rs: unrecognised fn %s(%s)->%s{%s}" % (name, params, ret, body))
    if not seen_pad:
        raise Unsupported("unpack.rs: u8x4_from_u8x3 missing")
    if set(single_u32) != set(single_bytes):
        raise Unsupported("unpack.rs: X_from_u32 / X_from_bytes sets differ")
    for f, t in single_bytes.items():
        if single_u32[f][0] != t:
            raise Unsupported("unpack.rs: %s_from_bytes / %s_from_u32 return types differ" % (f, f))
    res = {}
    for name, (fields, rets) in composite.items():
        for f, t in zip(fields, rets):
            if f not in single_u32 or single_u32[f][0] != t:
                raise Unsupported("unpack.rs: %s: component %s is not a %s" % (name, f, t))
        if len(fields) != len(rets):
            raise Unsupported("unpack.rs: %s: tuple arity" % name)
        res[name] = fields
    for f in single_u32:
        res[f + "_from_bytes"] = [f]
    return single_u32, res


# ------------------------------------------------------------------ macros.rs
def macro_arms(src, name):
    """[(pattern_text, body_text)] of `macro_rules! name { (pat) => { body }; ... }` (normalised)"""
    m = re.search(r"macro_rules!\s*%s\s*\{" % re.escape(name), src)
    if not m:
        raise Unsupported("macros.rs: macro %s not found" % name)
    a = m.end() - 1
    b = match_bracket(src, a)
    body, pos, arms = src[a + 1:b], 0, []
    while body[pos:].strip():
        mm = re.match(r"\s*\(", body[pos:])
        if not mm:
            raise Unsupported("macros.rs: %s: arm does not start with `(`: %r" % (name, body[pos:pos + 60]))
        i = pos + mm.end() - 1
        j = match_bracket(body, i)
        m2 = re.match(r"\s*=>\s*\{", body[j + 1:])
        if not m2:
            raise Unsupported("macros.rs: %s: expected `=> {`" % name)
        k = j + 1 + m2.end() - 1
        e = match_bracket(body, k)
        arms.append((norm(body[i + 1:j]), norm(body[k + 1:e])))
        m3 = re.match(r"\s*;?", body[e + 1:])
        pos = e + 1 + m3.end()
    return arms


def strip_typescript(body):
    """drop `#[cfg(feature="typescript")]` items (wasm bindings; not part of the native build)"""
    while True:
        m = re.search(r'#\[cfg\(feature="typescript"\)\]', body)
        if not m:
            return body
        # the item that follows: optional further attributes, then `impl X {..}` or `const _:()={..};`
        i = m.end()
        while True:
            ma = re.match(r"#\[", body[i:])
            if not ma:
                break
            i = match_bracket(body, i + 1) + 1
        k = body.find("{", i)
        if k < 0:
            raise Unsupported("macros.rs: typescript item without a block")
        e = match_bracket(body, k)
        if body[e + 1:e + 2] == ";":
            e += 1
        body = body[:m.start()] + body[e + 1:]


def parse_macros(macros_src, pack_fns, unpack_fns):
    src = strip_comments(macros_src)
    rows = {}

    def row(shape):
        return rows.setdefault(tuple(shape), {})

    # op_new!: ($Op:ident $ra:ident:RegId ...) => { impl $Op { pub fn new(..) -> Self { Self(pack::F($ra, ..)) } } }
    for pat, body in macro_arms(src, "op_new"):
        toks = pat.split(" ")
        if toks[0] != "$Op:ident":
            raise Unsupported("macros.rs: op_new arm pattern %r" % pat)
        vars_, shape = [], []
        for t in toks[1:]:
            m = re.fullmatch(r"\$(\w+):ident:(\w+)", t)
            if not m or m.group(2) not in ARGTYS:
                raise Unsupported("macros.rs: op_new arm pattern token %r" % t)
            vars_.append(m.group(1)); shape.append(m.group(2))
        body = re.sub(r"#\[allow\([\w:,]*\)\]", "", strip_typescript(body))
        params = ",".join("$%s:%s" % (v, t) for v, t in zip(vars_, shape))
        if shape:
            m = re.fullmatch(r"impl \$Op\{pub fn new\(%s\)->Self\{Self\(pack::(\w+)\(([$\w,]*)\)\)\}\}" % re.escape(params), body)
            if not m:
                raise Unsupported("macros.rs: op_new arm for %s: body %r" % (shape, body))
            if m.group(2).split(",") != ["$" + v for v in vars_]:
                raise Unsupported("macros.rs: op_new arm for %s does not forward its arguments in order" % shape)
            if m.group(1) not in pack_fns:
                raise Unsupported("macros.rs: op_new uses unknown pack::%s" % m.group(1))
            row(shape)["new"] = pack_fns[m.group(1)]
            row(shape)["new_fn"] = m.group(1)
        else:
            if not re.fullmatch(r"impl \$Op\{pub fn new\(\)->Self\{Self\(\[0;3\]\)\}\}", body):
                raise Unsupported("macros.rs: op_new arm for []: body %r" % body)
            row(shape)["new"] = []
            row(shape)["new_fn"] = "[0; 3]"
    # op_unpack!: (RegId RegId) => { pub fn unpack(self) -> (RegId, RegId) { unpack::F(self.0) } }
    for pat, body in macro_arms(src, "op_unpack"):
        shape = [t for t in pat.split(" ") if t]
        if any(t not in ARGTYS for t in shape):
            raise Unsupported("macros.rs: op_unpack arm pattern %r" % pat)
        if shape:
            ret = shape[0] if len(shape) == 1 else "(" + ",".join(shape) + ")"
            m = re.fullmatch(r"pub fn unpack\(self\)->%s\{unpack::(\w+)\(self\.0\)\}" % re.escape(ret), body)
            if not m:
                raise Unsupported("macros.rs: op_unpack arm for %s: body %r" % (shape, body))
            if m.group(1) not in unpack_fns:
                raise Unsupported("macros.rs: op_unpack uses unknown unpack::%s" % m.group(1))
            row(shape)["unpack"] = unpack_fns[m.group(1)]
            row(shape)["unpack_fn"] = m.group(1)
        else:
            if body != "":
                raise Unsupported("macros.rs: op_unpack arm for []: body %r" % body)
            row(shape)["unpack"] = []
            row(shape)["unpack_fn"] = "(none)"
    # op_reserved_part!
    for pat, body in macro_arms(src, "op_reserved_part"):
        shape = [t for t in pat.split(" ") if t]
        if any(t not in ARGTYS for t in shape):
            raise Unsupported("macros.rs: op_reserved_part arm pattern %r" % pat)
        m = re.fullmatch(r"pub\(crate\)fn reserved_part_is_zero\(self\)->bool\{(.*)\}", body)
        if not m:
            raise Unsupported("macros.rs: op_reserved_part arm for %s: %r" % (shape, body))
        e = m.group(1)
        if e == "true":
            rule = ("ResTrue", None, "true")
        elif e == "self.0==[0;3]":
            rule = ("ResBytesZero", None, "self.0 == [0; 3]")
        else:
            mm = re.fullmatch(r"let\(((?:_,)*)(\w+)\)=unpack::(\w+)\(self\.0\);\2\.0==0", e)
            if not mm:
                raise Unsupported("macros.rs: op_reserved_part arm for %s: body %r" % (shape, e))
            fn = mm.group(3)
            if fn not in unpack_fns:
                raise Unsupported("macros.rs: op_reserved_part uses unknown unpack::%s" % fn)
            arity = mm.group(1).count("_") + 1
            if arity != len(unpack_fns[fn]):
                raise Unsupported("macros.rs: op_reserved_part: tuple pattern arity for unpack::%s" % fn)
            rule = ("ResFieldZero", unpack_fns[fn][-1], "unpack::%s(..).last == 0" % fn)
        row(shape)["reserved"] = rule
    for shape, r in rows.items():
        for k in ("new", "unpack", "reserved"):
            if k not in r:
                raise Unsupported("macros.rs: shape %s has no %s arm" % (list(shape), k))
    # the glue in impl_instructions!: every op uses the three macros on its field list, the
    # reserved check guards both decoders, and conversion to bytes prepends the opcode
    n = norm(src)
    for needle, what in [
        ("op_new!($Op $($fname:$field)*);", "impl_op: op_new!"),
        ("op_unpack!($($field)*);", "impl_op: op_unpack!"),
        ("op_reserved_part!($($field)*);", "impl_op: op_reserved_part!"),
        ("pub fn from_raw_args(args:[u8;3])->Result<Self,InvalidOpcode>{let op=Self(args);if!op.reserved_part_is_zero(){return Err(InvalidOpcode);}Ok(op)}",
         "from_raw_args"),
        ("fn try_from([op,a,b,c]:[u8;4])->Result<Self,Self::Error>{let op=match op{$($ix=>{let op=op::$Op([a,b,c]);if!op.reserved_part_is_zero(){return Err(InvalidOpcode);}Self::$Op(op)},)*_=>return Err(InvalidOpcode),};Ok(op)}",
         "Instruction::try_from([u8; 4])"),
        ("fn try_from(u:u8)->Result<Self,Self::Error>{match u{$($ix=>Ok(Opcode::$Op),)*_=>Err(InvalidOpcode),}}", "Opcode::try_from(u8)"),
        ("impl From<$Op>for[u8;4]{fn from($Op([a,b,c]):$Op)->Self{[$Op::OPCODE as u8,a,b,c]}}", "From<$Op> for [u8; 4]"),
        ("pub const OPCODE:Opcode=Opcode::$Op;", "OPCODE const"),
        ("$Op=$ix,", "Opcode enum discriminants"),
        ("impl From<Instruction>for[u8;4]{fn from(inst:Instruction)->Self{match inst{$(Instruction::$Op(op)=>op.into(),)*}}}", "From<Instruction> for [u8; 4]"),
    ]:
        if needle not in n:
            raise Unsupported("macros.rs: expected idiom not found (%s)" % what)
    return rows


def check_lib_glue(lib_src):
    n = norm(strip_comments(lib_src))
    for needle, what in [
        ("impl From<Instruction>for RawInstruction{fn from(inst:Instruction)->Self{RawInstruction::from_be_bytes(inst.into())}}", "u32::from(Instruction)"),
        ("fn try_from(u:RawInstruction)->Result<Self,Self::Error>{Self::try_from(u.to_be_bytes())}", "Instruction::try_from(u32)"),
        ("pub type RawInstruction=u32;", "RawInstruction"),
        ("pub fn to_bytes(self)->[u8;4]{self.into()}", "Instruction::to_bytes"),
        ("impl CheckRegId for u8{fn check(self)->RegId{RegId::new_checked(self).expect(", "CheckRegId for u8"),
    ]:
        if needle not in n:
            raise Unsupported("lib.rs: expected idiom not found (%s)" % what)
    for t, ut in [("imm06", "u8"), ("imm12", "u16"), ("imm18", "u32"), ("imm24", "u32")]:
        T = "Imm" + t[3:]
        if ("fn check_%s(u:%s)->%s{%s::new_checked(u).unwrap_or_else(" % (t, ut, T, T)) not in n:
            raise Unsupported("lib.rs: check_%s is not new_checked + panic" % t)


# ------------------------------------------------------------------ interpreter dispatch
def parse_dispatch(instr_src):
    src = strip_comments(instr_src)
    n = norm(src)
    for needle, what in [
        ("let opcode=Opcode::try_from(raw[0]).map_err(|_|RuntimeError::from(PanicReason::InvalidInstruction))?;", "Opcode::try_from(raw[0])"),
        ("execute_instruction(self,opcode,[raw[1],raw[2],raw[3]])", "raw args = bytes 1..3"),
        ("macro_rules!execute_op{($op:ident)=>{fuel_asm::op::$op::from_raw_args(raw_args).map_err(|_|RuntimeError::from(PanicReason::InvalidInstruction))?.execute(interpreter)};}", "execute_op!"),
        ("let raw=raw.into();let raw=raw.to_be_bytes();", "instruction(): to_be_bytes"),
    ]:
        if needle not in n:
            raise Unsupported("instruction.rs: expected idiom not found (%s)" % what)
    m = re.search(r"\bmatch\s+opcode\s*\{", src)
    if not m or len(re.findall(r"\bmatch\s+opcode\s*\{", src)) != 1:
        raise Unsupported("instruction.rs: expected exactly one `match opcode {`")
    a = m.end() - 1
    body = src[a + 1:match_bracket(src, a)]
    arms, pos = [], 0
    while body[pos:].strip():
        mm = re.match(r"\s*Opcode::(\w+)\s*=>\s*execute_op!\(\s*(\w+)\s*\)\s*,", body[pos:])
        if not mm:
            raise Unsupported("instruction.rs: dispatch arm: %r" % body[pos:pos + 60].strip())
        arms.append((mm.group(1), mm.group(2)))
        pos += mm.end()
    return arms


# ------------------------------------------------------------------ emit
HEADER = "(* GENERATED by tools/gen_optable.py from %s on every check — DO NOT EDIT. *)\n"


def coq_list(items, indent="  ", per_line=1):
    if not items:
        return "[]"
    return "[\n" + ";\n".join(indent + x for x in items) + "\n]"


def emit_optable(rows, dispatch):
    o = [HEADER % "fuel-asm/src/lib.rs (impl_instructions!) and fuel-vm/src/interpreter/executors/instruction.rs (match opcode)"]
    o.append("From Coq Require Import NArith List String.\nImport ListNotations.\nOpen Scope N_scope.\nOpen Scope string_scope.\n")
    o.append("(* argument kinds of an instruction row *)\nInductive argty : Set := RegId | Imm06 | Imm12 | Imm18 | Imm24.\n")
    o.append("(* one row: `DOC 0xNN NAME ctor [field: Ty ...]` *)\n"
             "Record opentry : Set := { op_byte : N; op_name : string; op_ctor : string; op_shape : list argty }.\n")
    items = []
    for r in rows:
        items.append('{| op_byte := %d (* 0x%02x *); op_name := "%s"; op_ctor := "%s"; op_shape := [%s] |}'
                     % (r["byte"], r["byte"], r["name"], r["ctor"], "; ".join(r["shape"])))
    o.append("Definition optable : list opentry := %s.\n" % coq_list(items))
    o.append("(* execute_instruction: `Opcode::X => execute_op!(Y)`  (X, Y) in source order *)")
    o.append("Definition interp_dispatch : list (string * string) := %s.\n"
             % coq_list(['("%s", "%s")' % a for a in dispatch]))
    return "\n".join(o)


def emit_packtable(fields, pk_single, un_single, masks, shape_rows):
    o = [HEADER % "fuel-asm/src/pack.rs, unpack.rs, macros.rs (op_new!/op_unpack!/op_reserved_part!) and lib.rs (RegId/ImmNN::new)"]
    o.append("From Coq Require Import NArith List String.\nFrom FV Require Import Gen.OpTable.\nImport ListNotations.\nOpen Scope N_scope.\n")
    o.append("(* argument positions: one per `u32_from_<f>` (pack.rs) / `<f>_from_u32` (unpack.rs) *)")
    o.append("Inductive fld : Set := %s.\n" % " | ".join("F_" + f for f in fields))
    o.append("Definition all_flds : list fld := [%s].\n" % "; ".join("F_" + f for f in fields))

    def fn(name, ty, val, comment):
        o.append("(* %s *)" % comment)
        o.append("Definition %s (f : fld) : %s :=\n  match f with\n%s\n  end.\n"
                 % (name, ty, "\n".join("  | F_%s => %s" % (f, val(f)) for f in fields)))
    fn("fld_type", "argty", lambda f: un_single[f][0], "type produced by <f>_from_u32 and consumed by u32_from_<f>")
    fn("pack_shift", "N", lambda f: pk_single[f][1], "pack.rs: u32_from_<f>(x) = (x.0 as u32) << k   (k = 0 when there is no shift)")
    fn("unpack_shift", "N", lambda f: un_single[f][1], "unpack.rs: <f>_from_u32(u) = T::new((u >> k) as uN)")
    fn("unpack_cast_bits", "N", lambda f: un_single[f][2], "unpack.rs: width N of the `as uN` cast (32 when there is none)")
    o.append("(* lib.rs: T::new(u) = T(u & mask) *)")
    o.append("Definition type_mask (t : argty) : N :=\n  match t with\n%s\n  end.\n"
             % "\n".join("  | %s => %d" % (t, masks[t]["mask"]) for t in ARGTYS))
    o.append("(* lib.rs: width of the integer held by `pub struct T(uN)` (= parameter type of T::new) *)")
    o.append("Definition type_repr_bits (t : argty) : N :=\n  match t with\n%s\n  end.\n"
             % "\n".join("  | %s => %d" % (t, masks[t]["repr_bits"]) for t in ARGTYS))
    o.append("(* macros.rs, op_reserved_part!: `true` | `self.0 == [0; 3]` | `let (_, .., imm) = unpack::F(self.0); imm.0 == 0`\n"
             "   (for the last form: the position the bound component comes from) *)")
    o.append("Inductive reserved_rule : Set := ResTrue | ResBytesZero | ResFieldZero (f : fld).\n")
    o.append("(* per argument shape: positions written by `new` (op_new! -> pack::bytes_from_*, in parameter order),\n"
             "   positions read by `unpack` (op_unpack! -> unpack::*_from_bytes, in tuple order), reserved rule *)")
    o.append("Record shape_row : Set := { sr_shape : list argty; sr_new : list fld; sr_unpack : list fld; sr_reserved : reserved_rule }.\n")
    items = []
    for shape, r in shape_rows:
        rule, f, _ = r["reserved"]
        rs = rule if f is None else "%s F_%s" % (rule, f)
        items.append("(* new: pack::%s, unpack: unpack::%s *)\n  {| sr_shape := [%s]; sr_new := [%s]; sr_unpack := [%s]; sr_reserved := %s |}"
                     % (r["new_fn"], r["unpack_fn"], "; ".join(shape), "; ".join("F_" + x for x in r["new"]),
                        "; ".join("F_" + x for x in r["unpack"]), rs))
    o.append("Definition shape_table : list shape_row := %s.\n" % coq_list(items))
    return "\n".join(o)


def emit_rust(rows):
    o = ["// @generated by /verif/tools/gen_optable.py from /repo/fuel-asm/src/lib.rs on every check — DO NOT EDIT.",
         "// The rows of `impl_instructions!`, handed to a callback macro: asm_optable!(m) expands to m! { rows }.",
         "macro_rules! asm_optable {", "    ($m:ident) => {", "        $m! {"]
    for r in rows:
        o.append("            0x%02x %s %s [%s]" % (r["byte"], r["name"], r["ctor"], " ".join(r["shape"])))
    o += ["        }", "    };", "}", ""]
    return "\n".join(o)


def generate(repo):
    lib = read(repo, "fuel-asm/src/lib.rs")
    rows = parse_optable(lib)
    masks = parse_type_masks(lib)
    check_lib_glue(lib)
    pk_single, pack_fns = parse_pack(read(repo, "fuel-asm/src/pack.rs"))
    un_single, unpack_fns = parse_unpack(read(repo, "fuel-asm/src/unpack.rs"))
    if set(pk_single) != set(un_single):
        raise Unsupported("pack.rs and unpack.rs define different argument positions: %s vs %s"
                          % (sorted(pk_single), sorted(un_single)))
    for f in pk_single:
        if pk_single[f][0] != un_single[f][0]:
            raise Unsupported("position %s: pack.rs takes a %s, unpack.rs returns a %s" % (f, pk_single[f][0], un_single[f][0]))
    # stable order: as the <f>_from_u32 functions would be laid out MSB first is not known here;
    # keep registers then immediates by name
    fields = sorted(pk_single, key=lambda f: (not f.startswith("r"), f))
    shape_rows_d = parse_macros(read(repo, "fuel-asm/src/macros.rs"), pack_fns, unpack_fns)
    shape_rows = sorted(shape_rows_d.items(), key=lambda kv: (len(kv[0]), [ARGTYS.index(t) for t in kv[0]]))
    for r in rows:
        if tuple(r["shape"]) not in shape_rows_d:
            raise Unsupported("opcode %s has shape %s for which macros.rs has no arm" % (r["name"], r["shape"]))
    dispatch = parse_dispatch(read(repo, "fuel-vm/src/interpreter/executors/instruction.rs"))
    return {
        "Gen/OpTable.v": emit_optable(rows, dispatch),
        "Gen/PackTable.v": emit_packtable(fields, pk_single, un_single, masks, shape_rows),
        "../harness/src/gen/asm_optable.rs": emit_rust(rows),
    }


if __name__ == "__main__":
    repo = sys.argv[1] if len(sys.argv) > 1 else "/repo"
    verif = os.path.dirname(os.path.dirname(os.path.abspath(__file__)))
    for rel, content in generate(repo).items():
        p = os.path.normpath(os.path.join(verif, "coq", rel))
        os.makedirs(os.path.dirname(p), exist_ok=True)
        if not os.path.exists(p) or open(p).read() != content:
            open(p, "w").write(content)
            print("wrote", p)
        else:
            print("unchanged", p)
