#!/usr/bin/env python3
"""Regenerate /verif/MANIFEST.json from tools/props.py (+ tools/not_applicable.json)."""
import json, os, sys
VERIF = os.path.dirname(os.path.dirname(os.path.abspath(__file__)))
sys.path.insert(0, os.path.join(VERIF, "tools"))
import props

ids = [json.loads(l)["id"] for l in open(os.path.join(VERIF, "properties.jsonl"))]
checks = []
for pid in ids:
    if pid not in props.PROPS:
        continue
    P = props.PROPS[pid]
    checks.append({
        "property_id": pid,
        "quick_cmd": "./check %s quick" % pid,
        "thorough_cmd": "./check %s thorough" % pid,
        "evidence_file": "/verif/evidence/%s.json" % pid,
        "replay_cmd_template": "./check %s quick --replay {path}" % pid,
        "engine": "coq-" + P["family"],
        "level_claimed": {"category": "proof", "text": P["level_text"], "design_ref": P.get("design_ref", "")},
        "level_note": P["level_note"],
        "technique": P["technique"],
    })
na_path = os.path.join(VERIF, "tools", "not_applicable.json")
na = json.load(open(na_path)) if os.path.exists(na_path) else {}
not_applicable = []
for pid in ids:
    if pid not in props.PROPS:
        not_applicable.append({"property_id": pid, "reason": na.get(pid, "not yet covered by the Coq development; no check is claimed for it (work in progress, see DESIGN.md)")})
engines = {}
for pid in ids:
    if pid in props.PROPS:
        f = props.PROPS[pid]["family"]
        engines.setdefault(f, []).append(pid)
manifest = {
    "version": 1,
    "setup_cmd": "bash tools/setup.sh",
    "hooks": {
        "guard": "cargo feature `verif-hooks` of fuel-crypto (off by default; nothing in the workspace enables it)",
        "enable": "the harness crate /verif/harness depends on /repo/fuel-crypto with features = [..., \"verif-hooks\"] (path dependencies on /repo's crates; rebuilt from the current tree on every check)",
        "baseline_off_cmd": "cd /repo && cargo test --workspace --no-fail-fast --offline",
        "source_commits": json.load(open(os.path.join(VERIF, "tools", "hook_commits.json"))) if os.path.exists(os.path.join(VERIF, "tools", "hook_commits.json")) else [],
        "add_only": True,
    },
    "engines": [{"name": "coq-" + f, "path": "/verif/coq", "serves_properties": ps,
                 "kind_free_text": "Coq 8.16 development (model + theorems) with a Rust correspondence harness (harness/src/bin/%s.rs)" % props.PROPS[ps[0]]["harness"]}
                for f, ps in sorted(engines.items())],
    "checks": checks,
    "notes": "Technique: machine-checked proof in Coq 8.16.1 of theorems about Gallina models; models tied to /repo on every run by translators (coq/Gen) and by a differential correspondence run (harness vs vm_compute). See DESIGN.md.",
    "not_applicable": not_applicable,
}
json.dump(manifest, open(os.path.join(VERIF, "MANIFEST.json"), "w"), indent=1)
print("MANIFEST.json: %d checks, %d not claimed" % (len(checks), len(not_applicable)))
