#!/usr/bin/env python3
"""gen_idsconsts.py — translator for C15: regenerates coq/Gen/IdsConsts.v from

  fuel-tx/src/contract.rs           LEAF_SIZE, PADDING_BYTE, MULTIPLE (chunking of contract code)
  fuel-types/src/array_types.rs     ContractId::SEED (prefix of contract ids and predicate owners)

and checks the *shape* of the three hashing functions (which values are fed to the hasher, in
which order), so that a reordering / dropped field in Contract::id or Input::predicate_owner
changes the generated file and breaks `Ids/IdsProofs.v`.

Raises on syntax it does not understand (a broken tie, see DESIGN.md section 4)."""
import re, os


class TranslateError(Exception):
    pass


def read(repo, rel):
    return open(os.path.join(repo, rel)).read()


def const_usize(src, name):
    m = re.search(r"const\s+%s\s*:\s*(?:usize|u8)\s*=\s*([^;]+);" % name, src)
    if not m:
        raise TranslateError("constant %s not found" % name)
    expr = m.group(1).strip()
    expr = re.sub(r"(\d+)(?:u8|usize|u64)", r"\1", expr)
    if not re.fullmatch(r"[0-9x_a-fA-F\s\*\+]+", expr):
        raise TranslateError("constant %s has an expression I do not understand: %s" % (name, expr))
    return int(eval(expr.replace("_", ""), {"__builtins__": {}}))


def hasher_inputs(src, fn_name):
    """The ordered list of `hasher.input(X)` arguments inside `fn fn_name`."""
    m = re.search(r"pub\s+fn\s+%s\b" % fn_name, src)
    if not m:
        raise TranslateError("fn %s not found" % fn_name)
    # body = up to the matching closing brace of the function
    i = src.index("{", src.index(")", m.end()))
    # skip a possible where-clause: find the first '{' after the signature's return type
    sig_end = re.search(r"\)\s*->\s*\w+\s*(?:where[^{]*)?\{", src[m.end():])
    if not sig_end:
        raise TranslateError("cannot find the body of fn %s" % fn_name)
    i = m.end() + sig_end.end() - 1
    depth, j = 0, i
    while j < len(src):
        if src[j] == "{":
            depth += 1
        elif src[j] == "}":
            depth -= 1
            if depth == 0:
                break
        j += 1
    body = src[i:j]
    ins = re.findall(r"hasher\.input\(\s*&?\s*([\w:]+)\s*\)", body)
    if not ins:
        raise TranslateError("no hasher.input calls in fn %s" % fn_name)
    if not re.search(r"hasher\.digest\(\)", body):
        raise TranslateError("fn %s does not finish with hasher.digest()" % fn_name)
    return ins, body


def generate(repo):
    contract = read(repo, "fuel-tx/src/contract.rs")
    leaf = const_usize(contract, "LEAF_SIZE")
    pad = const_usize(contract, "PADDING_BYTE")
    mult = const_usize(contract, "MULTIPLE")
    arr = read(repo, "fuel-types/src/array_types.rs")
    m = re.search(r"impl\s+ContractId\s*\{[^}]*?pub\s+const\s+SEED\s*:\s*\[u8;\s*4\]\s*=\s*(0x[0-9a-fA-F_]+)_u32\.to_be_bytes\(\)\s*;", arr, re.S)
    if not m:
        raise TranslateError("ContractId::SEED not found / not of the form 0x…_u32.to_be_bytes()")
    seed = int(m.group(1).replace("_", ""), 16)
    seed_bytes = [(seed >> s) & 0xFF for s in (24, 16, 8, 0)]

    id_ins, _ = hasher_inputs(contract, "id")
    inp = read(repo, "fuel-tx/src/transaction/types/input.rs")
    po_ins, po_body = hasher_inputs(inp, "predicate_owner")
    if not re.search(r"let\s+root\s*=\s*Contract::root_from_code\(\s*predicate\s*\)\s*;", po_body):
        raise TranslateError("predicate_owner no longer computes `root` as Contract::root_from_code(predicate)")
    known = {"ContractId::SEED": "HSeed", "salt": "HSalt", "root": "HRoot", "state_root": "HStateRoot"}
    for x in id_ins + po_ins:
        if x not in known:
            raise TranslateError("unknown hasher input %s" % x)

    # root_from_code: the chunking loop must have the shape the model mirrors
    rf = re.search(r"pub\s+fn\s+root_from_code.*?tree\.root\(\)\.into\(\)", contract, re.S)
    if not rf:
        raise TranslateError("root_from_code not found")
    body = rf.group(0)
    for needle in (r"\.chunks\(LEAF_SIZE\)", r"len\s*==\s*LEAF_SIZE\s*\|\|\s*len\s*%\s*MULTIPLE\s*==\s*0",
                   r"len\.next_multiple_of\(MULTIPLE\)", r"\[PADDING_BYTE;\s*LEAF_SIZE\]",
                   r"padded_leaf\[0\.\.len\]\.clone_from_slice\(leaf\)", r"padded_leaf\[\.\.padding_size\]"):
        if not re.search(needle, body):
            raise TranslateError("root_from_code: expected fragment /%s/ not found" % needle)

    # initial_state_root: keys hashed by MerkleTreeKey::new, values passed raw to root_from_set
    isr = re.search(r"pub\s+fn\s+initial_state_root.*?root\.into\(\)", contract, re.S)
    if not isr:
        raise TranslateError("initial_state_root not found")
    for needle in (r"\(\*slot\.key\(\),\s*slot\.value\(\)\)", r"MerkleTreeKey::new\(key\),\s*data",
                   r"SparseMerkleTree::root_from_set\(storage_slots\)"):
        if not re.search(needle, isr.group(0)):
            raise TranslateError("initial_state_root: expected fragment /%s/ not found" % needle)

    out = []
    out.append("(* Gen/IdsConsts.v — GENERATED by tools/gen_idsconsts.py from fuel-tx/src/contract.rs,")
    out.append("   fuel-tx/src/transaction/types/input.rs and fuel-types/src/array_types.rs.  Do not edit. *)")
    out.append("From Coq Require Import NArith List.")
    out.append("Import ListNotations.")
    out.append("Open Scope N_scope.")
    out.append("")
    out.append("Definition LEAF_SIZE : N := %d." % leaf)
    out.append("Definition PADDING_BYTE : N := %d." % pad)
    out.append("Definition MULTIPLE : N := %d." % mult)
    out.append("Definition CONTRACT_ID_SEED : list N := [%s]." % "; ".join(str(b) for b in seed_bytes))
    out.append("")
    out.append("(* what is fed to the hasher, in order *)")
    out.append("Inductive hash_input := HSeed | HSalt | HRoot | HStateRoot.")
    out.append("Definition CONTRACT_ID_INPUTS : list hash_input := [%s]." % "; ".join(known[x] for x in id_ins))
    out.append("Definition PREDICATE_OWNER_INPUTS : list hash_input := [%s]." % "; ".join(known[x] for x in po_ins))
    out.append("")
    return {"Gen/IdsConsts.v": "\n".join(out)}


if __name__ == "__main__":
    import sys
    for k, v in generate(sys.argv[1] if len(sys.argv) > 1 else "/repo").items():
        print("(* ---- %s ---- *)" % k)
        print(v)
