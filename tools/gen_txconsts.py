#!/usr/bin/env python3
"""gen_txconsts.py — translator for C04 (and C05): regenerates coq/Gen/TxConsts.v from

  fuel-types/src/bytes.rs, array_types.rs        WORD_SIZE, <Key>::LEN
  fuel-tx/src/tx_pointer.rs, utxo_id.rs, storage.rs   TxPointer::LEN, UtxoId::LEN, StorageSlot::SLOT_SIZE
  fuel-tx/.../input/consts.rs, output/consts.rs  INPUT_* / OUTPUT_* layout constants (named constants,
                                                 evaluated; the defining expressions are kept as comments)
  fuel-tx/.../input/repr.rs, output/repr.rs      the `*_offset` decision tables of InputRepr / OutputRepr
                                                 (function -> variant -> Some(CONST) | None), `from_input`,
                                                 `from_output`
  script.rs create.rs upload.rs blob.rs upgrade.rs mint.rs
                                                 every `fn *_static() -> usize` of `mod field` (chains of
                                                 `Self::prev().saturating_add(<constant expression>)`)

and PINS (SHA-256 of the whitespace-normalised, comment-free text) every offset function that is
modelled by hand in coq/Offsets/OffsetModel.v; a change of one of them makes generate() raise,
i.e. the tie is reported broken and the model has to be re-validated against the new text.

Raises TranslateError on syntax it does not understand."""
import hashlib
import os
import re


class TranslateError(Exception):
    pass


TY = "fuel-tx/src/transaction/types/"


def read(repo, rel):
    p = os.path.join(repo, rel)
    if not os.path.exists(p):
        raise TranslateError("source file %s not found" % rel)
    return open(p).read()


def strip_comments(src):
    src = re.sub(r"/\*.*?\*/", " ", src, flags=re.S)
    return re.sub(r"//[^\n]*", "", src)


def norm(s):
    return re.sub(r"\s+", " ", s).strip()


def match_brace(src, i):
    d = 0
    for j in range(i, len(src)):
        if src[j] == "{":
            d += 1
        elif src[j] == "}":
            d -= 1
            if d == 0:
                return j + 1
    raise TranslateError("unbalanced braces")


# --------------------------------------------------------------------------- constant expressions
TOK = re.compile(r"\s*(?:(\d[\d_]*)|([A-Za-z_]\w*(?:::[A-Za-z_]\w*)*)|([+*()]))")


def eval_expr(expr, env, what):
    toks, i = [], 0
    expr = expr.strip()
    while i < len(expr):
        m = TOK.match(expr, i)
        if not m:
            raise TranslateError("%s: cannot lex constant expression `%s`" % (what, expr))
        if m.group(1):
            toks.append(("n", int(m.group(1).replace("_", ""))))
        elif m.group(2):
            name = m.group(2)
            if name not in env:
                raise TranslateError("%s: unknown constant %s in `%s`" % (what, name, expr))
            toks.append(("n", env[name]))
        else:
            toks.append(("p", m.group(3)))
        i = m.end()
    pos = [0]

    def peek():
        return toks[pos[0]] if pos[0] < len(toks) else ("e", None)

    def atom():
        t = peek()
        pos[0] += 1
        if t[0] == "n":
            return t[1]
        if t == ("p", "("):
            v = summ()
            if peek() != ("p", ")"):
                raise TranslateError("%s: unbalanced `%s`" % (what, expr))
            pos[0] += 1
            return v
        raise TranslateError("%s: unexpected token in `%s`" % (what, expr))

    def prod():
        v = atom()
        while peek() == ("p", "*"):
            pos[0] += 1
            v *= atom()
        return v

    def summ():
        v = prod()
        while peek() == ("p", "+"):
            pos[0] += 1
            v += prod()
        return v
    v = summ()
    if pos[0] != len(toks):
        raise TranslateError("%s: trailing tokens in `%s`" % (what, expr))
    return v


def base_env(repo):
    env = {}
    b = strip_comments(read(repo, "fuel-types/src/bytes.rs"))
    if not re.search(r"pub const WORD_SIZE: usize = core::mem::size_of::<Word>\(\);", b):
        raise TranslateError("WORD_SIZE is no longer size_of::<Word>()")
    lib = strip_comments(read(repo, "fuel-types/src/lib.rs")) + strip_comments(read(repo, "fuel-types/src/numeric_types.rs"))
    if not re.search(r"pub type Word = u64;", strip_comments(read(repo, "fuel-asm/src/lib.rs")) + lib):
        raise TranslateError("`pub type Word = u64` not found")
    env["WORD_SIZE"] = 8
    a = strip_comments(read(repo, "fuel-types/src/array_types.rs"))
    for m in re.finditer(r"key(?:_with_big_array)?!\(\s*(\w+)\s*,\s*(\d+)\s*\)", a):
        env[m.group(1) + "::LEN"] = int(m.group(2))
    if not re.search(r"pub const LEN: usize = \$s;", a):
        raise TranslateError("array_types.rs: `pub const LEN: usize = $s` not found in the key! macro")
    for rel, ty, name in [("fuel-tx/src/tx_pointer.rs", "TxPointer", "LEN"),
                          (TY + "utxo_id.rs", "UtxoId", "LEN"),
                          (TY + "storage.rs", "StorageSlot", "SLOT_SIZE")]:
        s = strip_comments(read(repo, rel))
        m = re.search(r"pub const %s: usize = ([^;]+);" % name, s)
        if not m:
            raise TranslateError("%s::%s not found" % (ty, name))
        env["%s::%s" % (ty, name)] = eval_expr(m.group(1), env, "%s::%s" % (ty, name))
    return env


def consts_file(repo, rel, env):
    src = strip_comments(read(repo, rel))
    out = []
    for m in re.finditer(r"pub\(super\) const (\w+): usize\s*=\s*([^;]+);", src):
        v = eval_expr(m.group(2), env, m.group(1))
        env[m.group(1)] = v
        out.append((m.group(1), v, norm(m.group(2))))
    if not out:
        raise TranslateError("%s: no constants found" % rel)
    rest = re.sub(r"pub\(super\) const \w+: usize\s*=\s*[^;]+;", "", src)
    rest = re.sub(r"use [^;]+;", "", rest)
    if rest.strip():
        raise TranslateError("%s: text I do not understand: `%s`" % (rel, norm(rest)[:100]))
    return out


# --------------------------------------------------------------------------- repr tables
def enum_variants(src, name):
    m = re.search(r"pub enum %s\s*\{" % name, src)
    if not m:
        raise TranslateError("enum %s not found" % name)
    body = src[m.end():match_brace(src, m.end() - 1) - 1]
    vs = []
    for part in body.split(","):
        part = norm(part)
        if not part:
            continue
        mv = re.fullmatch(r"(\w+)(?: = (0x[0-9a-fA-F]+|\d+))?", part)
        if not mv:
            raise TranslateError("enum %s: variant `%s` not understood" % (name, part))
        vs.append(mv.group(1))
    return vs


def repr_table(src, enum, env):
    variants = enum_variants(src, enum)
    m = re.search(r"impl %s\s*\{" % enum, src)
    if not m:
        raise TranslateError("impl %s not found" % enum)
    body = src[m.end():match_brace(src, m.end() - 1) - 1]
    fns, frm = [], None
    i = 0
    while True:
        mf = re.compile(r"pub const fn (\w+)\(([^)]*)\) -> ([\w<>]+)\s*\{").search(body, i)
        if not mf:
            break
        e = match_brace(body, mf.end() - 1)
        fbody = norm(body[mf.end():e - 1])
        i = e
        name, args, ret = mf.group(1), norm(mf.group(2)), mf.group(3)
        mm = re.fullmatch(r"match (\w+) \{(.*)\}", fbody)
        if not mm:
            raise TranslateError("%s::%s: body is not a single match: `%s`" % (enum, name, fbody[:80]))
        arms = parse_arms(mm.group(2), "%s::%s" % (enum, name))
        if ret == "Option<usize>" and args == "&self":
            row, seen = {}, set()
            for pats, rhs in arms:
                if rhs == "None":
                    val = None
                else:
                    mr = re.fullmatch(r"Some\((\w+)\)", rhs)
                    if not mr or mr.group(1) not in env:
                        raise TranslateError("%s::%s: arm value `%s` not understood" % (enum, name, rhs))
                    val = (mr.group(1), env[mr.group(1)])
                if pats == ["_"]:
                    targets = [v for v in variants if v not in seen]
                else:
                    targets = []
                    for p in pats:
                        mp = re.fullmatch(r"(?:Self|%s)::(\w+)" % enum, p)
                        if not mp or mp.group(1) not in variants:
                            raise TranslateError("%s::%s: pattern `%s` not understood" % (enum, name, p))
                        targets.append(mp.group(1))
                for t in targets:
                    if t in seen:
                        raise TranslateError("%s::%s: variant %s matched twice" % (enum, name, t))
                    seen.add(t)
                    row[t] = val
            if set(row) != set(variants):
                raise TranslateError("%s::%s: match is not exhaustive over %s" % (enum, name, variants))
            fns.append((name, [(v, row[v]) for v in variants]))
        elif ret == "Self":
            frm = []
            for pats, rhs in arms:
                mr = re.fullmatch(r"(?:Self|%s)::(\w+)" % enum, rhs)
                if not mr:
                    raise TranslateError("%s::%s: arm value `%s` not understood" % (enum, name, rhs))
                for p in pats:
                    mp = re.fullmatch(r"(\w+)::(\w+)(?:\(_\)| \{ \.\. \})", p)
                    if not mp:
                        raise TranslateError("%s::%s: pattern `%s` not understood" % (enum, name, p))
                    frm.append((mp.group(2), mr.group(1)))
        else:
            raise TranslateError("%s::%s: unexpected signature (%s) -> %s" % (enum, name, args, ret))
    if not fns or frm is None:
        raise TranslateError("impl %s: no offset functions / no from_* found" % enum)
    return variants, fns, frm


def parse_arms(s, what):
    arms, i, n = [], 0, len(s)
    while i < n:
        while i < n and s[i] in " ,":
            i += 1
        if i >= n:
            break
        j = s.find("=>", i)
        if j < 0:
            raise TranslateError("%s: arm without =>: `%s`" % (what, s[i:i + 50]))
        pats = [norm(p) for p in s[i:j].split("|")]
        k = j + 2
        while s[k] == " ":
            k += 1
        if s[k] == "{":
            e = match_brace(s, k)
            rhs = norm(s[k + 1:e - 1])
            i = e
        else:
            d, e = 0, k
            while e < n and not (s[e] == "," and d == 0):
                d += s[e] in "({["
                d -= s[e] in ")}]"
                e += 1
            rhs = norm(s[k:e])
            i = e
        arms.append((pats, rhs))
    return arms


# --------------------------------------------------------------------------- static offset chains
def static_chain(repo, rel, kind, env):
    src = strip_comments(read(repo, rel))
    m = re.search(r"\bmod field\s*\{", src)
    if not m:
        raise TranslateError("%s: `mod field` not found" % rel)
    body = src[m.end():match_brace(src, m.end() - 1) - 1]
    out, local = [], {}
    for mf in re.finditer(r"fn (\w+)\(\) -> usize\s*\{", body):
        e = match_brace(body, mf.end() - 1)
        fb = norm(body[mf.end():e - 1])
        name = mf.group(1)
        if fb in env:
            val = env[fb]
        else:
            mm = re.fullmatch(r"Self::(\w+)\(\)\s*\.saturating_add\((.*?),?\s*\)", fb)
            if not mm or mm.group(1) not in local:
                raise TranslateError("%s::%s: body not understood: `%s`" % (kind, name, fb))
            val = local[mm.group(1)] + eval_expr(mm.group(2), env, "%s::%s" % (kind, name))
        local[name] = val
        out.append((name, val, fb))
    if not out:
        raise TranslateError("%s: no static offset function found" % rel)
    return out


# --------------------------------------------------------------------------- pins
PINNED = [
    # (key, file, regex of the fn header (first match inside `after`), regex naming the enclosing block or None)
    ("bytes::padded_len_usize", "fuel-types/src/bytes.rs", r"pub const fn padded_len_usize\(len: usize\) -> Option<usize>", None),
    ("bytes::padded_len", "fuel-types/src/bytes.rs", r"pub const fn padded_len\(bytes: &\[u8\]\) -> Option<usize>", None),
    ("Script::script_data_offset", TY + "script.rs", r"fn script_data_offset\(&self\) -> usize", r"impl ScriptData for Script"),
    ("Script::body_offset_end", TY + "script.rs", r"fn body_offset_end\(&self\) -> usize", r"impl ChargeableBody<ScriptBody> for Script"),
    ("Create::storage_slots_offset_at", TY + "create.rs", r"fn storage_slots_offset_at\(&self, idx: usize\) -> Option<usize>", r"impl StorageSlots for Create"),
    ("Create::body_offset_end", TY + "create.rs", r"fn body_offset_end\(&self\) -> usize", r"impl ChargeableBody<CreateBody> for Create"),
    ("Upload::proof_set_offset_at", TY + "upload.rs", r"fn proof_set_offset_at\(&self, idx: usize\) -> Option<usize>", r"impl ProofSet for Upload"),
    ("Upload::body_offset_end", TY + "upload.rs", r"fn body_offset_end\(&self\) -> usize", r"impl ChargeableBody<UploadBody> for Upload"),
    ("Blob::body_offset_end", TY + "blob.rs", r"fn body_offset_end\(&self\) -> usize", r"impl field::ChargeableBody<BlobBody> for Blob"),
    ("Upgrade::body_offset_end", TY + "upgrade.rs", r"fn body_offset_end\(&self\) -> usize", r"impl ChargeableBody<UpgradeBody> for Upgrade"),
    ("Mint::input_contract_offset", TY + "mint.rs", r"fn input_contract_offset\(&self\) -> usize", r"impl InputContract for Mint"),
    ("Mint::output_contract_offset", TY + "mint.rs", r"fn output_contract_offset\(&self\) -> usize", r"impl OutputContract for Mint"),
    ("Mint::mint_amount_offset", TY + "mint.rs", r"fn mint_amount_offset\(&self\) -> usize", r"impl MintAmount for Mint"),
    ("Mint::mint_asset_id_offset", TY + "mint.rs", r"fn mint_asset_id_offset\(&self\) -> usize", r"impl MintAssetId for Mint"),
    ("Mint::gas_price_offset", TY + "mint.rs", r"fn gas_price_offset\(&self\) -> usize", r"impl MintGasPrice for Mint"),
    ("Chargeable::policies_offset", TY + "chargeable_transaction.rs", r"fn policies_offset\(&self\) -> usize", r"impl<Body, MetadataBody> PoliciesField for ChargeableTransaction<Body, MetadataBody>"),
    ("Chargeable::inputs_offset", TY + "chargeable_transaction.rs", r"fn inputs_offset\(&self\) -> usize", r"impl<Body, MetadataBody> Inputs for ChargeableTransaction<Body, MetadataBody>"),
    ("Chargeable::inputs_offset_at", TY + "chargeable_transaction.rs", r"fn inputs_offset_at\(&self, idx: usize\) -> Option<usize>", r"impl<Body, MetadataBody> Inputs for ChargeableTransaction<Body, MetadataBody>"),
    ("Chargeable::inputs_predicate_offset_at", TY + "chargeable_transaction.rs", r"fn inputs_predicate_offset_at\(&self, idx: usize\) -> Option<\(usize, usize\)>", r"impl<Body, MetadataBody> Inputs for ChargeableTransaction<Body, MetadataBody>"),
    ("Chargeable::outputs_offset", TY + "chargeable_transaction.rs", r"fn outputs_offset\(&self\) -> usize", r"impl<Body, MetadataBody> Outputs for ChargeableTransaction<Body, MetadataBody>"),
    ("Chargeable::outputs_offset_at", TY + "chargeable_transaction.rs", r"fn outputs_offset_at\(&self, idx: usize\) -> Option<usize>", r"impl<Body, MetadataBody> Outputs for ChargeableTransaction<Body, MetadataBody>"),
    ("Chargeable::witnesses_offset", TY + "chargeable_transaction.rs", r"fn witnesses_offset\(&self\) -> usize", r"impl<Body, MetadataBody> Witnesses for ChargeableTransaction<Body, MetadataBody>"),
    ("Chargeable::witnesses_offset_at", TY + "chargeable_transaction.rs", r"fn witnesses_offset_at\(&self, idx: usize\) -> Option<usize>", r"impl<Body, MetadataBody> Witnesses for ChargeableTransaction<Body, MetadataBody>"),
    ("CommonMetadata::compute", "fuel-tx/src/transaction/metadata.rs", r"pub fn compute<Tx>\(tx: &Tx, chain_id: &ChainId\) -> Result<Self, ValidityError>", r"impl CommonMetadata"),
    ("Input::predicate_offset", TY + "input.rs", r"pub fn predicate_offset\(&self\) -> Option<usize>", r"impl Input\b"),
    ("Input::predicate_data_offset", TY + "input.rs", r"pub fn predicate_data_offset\(&self\) -> Option<usize>", r"impl Input\b"),
    ("Input::predicate_len", TY + "input.rs", r"pub fn predicate_len\(&self\) -> Option<usize>", r"impl Input\b"),
    ("Input::predicate_data_len", TY + "input.rs", r"pub fn predicate_data_len\(&self\) -> Option<usize>", r"impl Input\b"),
    ("Input::input_data_len", TY + "input.rs", r"pub fn input_data_len\(&self\) -> Option<usize>", r"impl Input\b"),
    ("Input::coin_predicate_offset", TY + "input.rs", r"pub const fn coin_predicate_offset\(\) -> usize", r"impl Input\b"),
    ("Input::message_data_offset", TY + "input.rs", r"pub const fn message_data_offset\(\) -> usize", r"impl Input\b"),
    ("Script::precompute", TY + "script.rs", r"fn precompute\(&mut self, chain_id: &ChainId\) -> Result<\(\), ValidityError>", r"impl crate::Cacheable for Script"),
]


def fn_text(src, header_re, after, what):
    region = src
    if after is not None:
        # an impl header may occur several times (`impl Input {` blocks): search each
        for m in re.finditer(after, src):
            b = src.find("{", m.end())
            if b < 0:
                continue
            reg = src[b:match_brace(src, b)]
            m2 = re.search(header_re, reg)
            if m2:
                i = reg.index("{", m2.end())
                return norm(reg[m2.start():match_brace(reg, i)])
        raise TranslateError("%s: not found" % what)
    m2 = re.search(header_re, region)
    if not m2:
        raise TranslateError("%s: not found" % what)
    i = region.index("{", m2.end())
    return norm(region[m2.start():match_brace(region, i)])


def pins(repo):
    out = {}
    cache = {}
    for key, rel, hdr, after in PINNED:
        if rel not in cache:
            cache[rel] = strip_comments(read(repo, rel))
        txt = fn_text(cache[rel], hdr, after, key)
        out[key] = hashlib.sha256(txt.encode()).hexdigest()[:16]
    return out


EXPECTED_PINS = {
    "Blob::body_offset_end": "51c11f1daad1f098",
    "Chargeable::inputs_offset": "389ce7394c7531fd",
    "Chargeable::inputs_offset_at": "ecaf9593de332826",
    "Chargeable::inputs_predicate_offset_at": "b1ae1f8ed4f2f13a",
    "Chargeable::outputs_offset": "3cbeedeec13042f5",
    "Chargeable::outputs_offset_at": "2802db8089c9aa68",
    "Chargeable::policies_offset": "6ae48445da74b26a",
    "Chargeable::witnesses_offset": "8db126f370dfd83c",
    "Chargeable::witnesses_offset_at": "677195451e42e424",
    "CommonMetadata::compute": "e7e03d5b24905074",
    "Create::body_offset_end": "1d08f3bdfa80d1b8",
    "Create::storage_slots_offset_at": "3cf098550284d5a5",
    "Input::coin_predicate_offset": "9378c1519a7ee1eb",
    "Input::input_data_len": "acafd1b1c27c028e",
    "Input::message_data_offset": "e08330d1c7b67df5",
    "Input::predicate_data_len": "b1d5d7081fe7bc45",
    "Input::predicate_data_offset": "665aac4c6871b29b",
    "Input::predicate_len": "3a1c2df45c33dc92",
    "Input::predicate_offset": "621c3b012f2a43d9",
    "Mint::gas_price_offset": "6f8ef17a21083ebc",
    "Mint::input_contract_offset": "799497a09de9a53e",
    "Mint::mint_amount_offset": "1f06166143e865a6",
    "Mint::mint_asset_id_offset": "872e445a6bb78c72",
    "Mint::output_contract_offset": "e178346ab0e0b271",
    "Script::body_offset_end": "0d5445390ecc9f11",
    "Script::precompute": "a68e4b748816f2d1",
    "Script::script_data_offset": "f2efb5317eccae56",
    "Upgrade::body_offset_end": "dd524ee0a76b2d42",
    "Upload::body_offset_end": "208e75724e86b895",
    "Upload::proof_set_offset_at": "8c54242f5a3a4ce7",
    "bytes::padded_len": "ae192ec6a0d070df",
    "bytes::padded_len_usize": "e4466c9c0f955e75",
}


def generate(repo, check_pins=True):
    env = base_env(repo)
    in_consts = consts_file(repo, TY + "input/consts.rs", env)
    out_consts = consts_file(repo, TY + "output/consts.rs", env)
    in_vars, in_fns, in_from = repr_table(strip_comments(read(repo, TY + "input/repr.rs")), "InputRepr", env)
    out_vars, out_fns, out_from = repr_table(strip_comments(read(repo, TY + "output/repr.rs")), "OutputRepr", env)
    chains = [(k, static_chain(repo, TY + f, k, env)) for k, f in
              [("Script", "script.rs"), ("Create", "create.rs"), ("Mint", "mint.rs"), ("Upgrade", "upgrade.rs"),
               ("Upload", "upload.rs"), ("Blob", "blob.rs")]]
    p = pins(repo)
    if check_pins:
        for k, v in p.items():
            if EXPECTED_PINS.get(k) != v:
                raise TranslateError("hand-modelled offset function %s changed (pin %s, expected %s): re-validate "
                                     "coq/Offsets/OffsetModel.v against the new text and update EXPECTED_PINS" % (k, v, EXPECTED_PINS.get(k)))
    L = ["(* GENERATED by tools/gen_txconsts.py from the Rust sources in /repo - DO NOT EDIT. *)",
         "From Coq Require Import NArith String List.",
         "Import ListNotations.",
         "Open Scope N_scope.",
         "Local Open Scope string_scope.",
         "",
         "(* fuel-types: WORD_SIZE, <Key>::LEN; fuel-tx: TxPointer::LEN, UtxoId::LEN, StorageSlot::SLOT_SIZE *)"]
    for k in ["WORD_SIZE", "Bytes32::LEN", "Address::LEN", "AssetId::LEN", "ContractId::LEN", "Nonce::LEN", "Salt::LEN",
              "BlobId::LEN", "TxId::LEN", "TxPointer::LEN", "UtxoId::LEN", "StorageSlot::SLOT_SIZE"]:
        if k not in env:
            raise TranslateError("constant %s not found" % k)
        L.append("Definition %s : N := %d." % (k.replace("::", "_"), env[k]))
    L.append("")
    L.append("(* input/consts.rs *)")
    for n, v, e in in_consts:
        L.append("Definition %s : N := %d.   (* %s *)" % (n, v, e))
    L.append("")
    L.append("(* output/consts.rs *)")
    for n, v, e in out_consts:
        L.append("Definition %s : N := %d.   (* %s *)" % (n, v, e))
    L.append("")

    def table(name, variants, fns):
        L.append("Definition %s : list (string * list (string * option N)) := [" % name)
        rows = []
        for fn, row in fns:
            cells = "; ".join('("%s", %s)' % (v, "None" if x is None else "Some %s" % x[0]) for v, x in row)
            rows.append('  ("%s", [%s])' % (fn, cells))
        L.append(";\n".join(rows) + "].")
    L.append("(* input/repr.rs: InputRepr::<fn>(&self) -> Option<usize>, per InputRepr variant *)")
    table("input_repr_table", in_vars, in_fns)
    L.append("(* InputRepr::from_input: Input variant -> InputRepr variant *)")
    L.append("Definition input_repr_of : list (string * string) := [%s]." % "; ".join('("%s", "%s")' % x for x in in_from))
    L.append("")
    L.append("(* output/repr.rs *)")
    table("output_repr_table", out_vars, out_fns)
    L.append("Definition output_repr_of : list (string * string) := [%s]." % "; ".join('("%s", "%s")' % x for x in out_from))
    L.append("")
    L.append("(* `fn *_static() -> usize` of `mod field`, per kind (chains of saturating_add of constants, evaluated) *)")
    L.append("Definition static_offsets : list (string * list (string * N)) := [")
    rows = []
    for k, ch in chains:
        rows.append('  ("%s", [%s])' % (k, "; ".join('("%s", %d)' % (n, v) for n, v, _ in ch)))
    L.append(";\n".join(rows) + "].")
    L.append("")
    L.append("(* SHA-256 (first 16 hex digits) of the normalised text of every hand-modelled offset function *)")
    L.append("Definition offset_model_pins : list (string * string) := [")
    L.append(";\n".join('  ("%s", "%s")' % kv for kv in sorted(p.items())) + "].")
    L.append("")
    return {"Gen/TxConsts.v": "\n".join(L)}


if __name__ == "__main__":
    import sys
    if len(sys.argv) > 2 and sys.argv[2] == "--pins":
        for k, v in sorted(pins(sys.argv[1]).items()):
            print('    "%s": "%s",' % (k, v))
    else:
        print(generate(sys.argv[1] if len(sys.argv) > 1 else "/repo", check_pins="--nopins" not in sys.argv)["Gen/TxConsts.v"])
