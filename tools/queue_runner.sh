#!/bin/bash
# queue_runner.sh <queue file> : runs each line of the queue (appended over time) as a command, in order.
Q=$1; N=0
while true; do
  TOTAL=$(wc -l < "$Q" 2>/dev/null || echo 0)
  if [ "$N" -lt "$TOTAL" ]; then
    N=$((N+1)); CMD=$(sed -n "${N}p" "$Q")
    [ "$CMD" = "STOP" ] && exit 0
    bash -c "$CMD"
  else sleep 20; fi
done
