#!/usr/bin/env python3
"""gen_flowtable.py — translator for C25: regenerates coq/Gen/FlowTable.v from

  fuel-asm/src/lib.rs                       opcode bytes and argument shapes (impl_instructions!)
  fuel-vm/src/interpreter/executors/opcodes_impl.rs   every `impl Execute for op::X` handler:
        - the JumpArgs builder chain of the jump handlers (mode / condition / dynamic / fixed / link)
        - the program-counter discipline class of every opcode (jump / call / ret / revert / inc_pc)
  fuel-vm/src/interpreter/flow.rs           JumpMode variants, the `>= VM_MAX_RAM` check, checked_sub
  fuel-vm/src/consts.rs, call.rs            VM_MAX_RAM, CallFrame::serialized_size
  fuel-asm/src/panic_reason.rs              reason bytes used by the flow model

Raises on syntax it does not understand (a broken tie, see DESIGN.md section 4)."""
import re, os


class TranslateError(Exception):
    pass


def read(repo, rel):
    return open(os.path.join(repo, rel)).read()


def parse_optable(repo):
    src = read(repo, "fuel-asm/src/lib.rs")
    m = re.search(r"impl_instructions!\s*\{(.*?)\n\}", src, re.S)
    if not m:
        raise TranslateError("impl_instructions! block not found")
    ops = []
    for mm in re.finditer(r"(0x[0-9a-fA-F]{2})\s+([A-Z0-9]+)\s+(\w+)\s+\[([^\]]*)\]", m.group(1)):
        byte, name, fn, args = mm.groups()
        fields = re.findall(r"(\w+)\s*:\s*(\w+)", args)
        for _, ty in fields:
            if ty not in ("RegId", "Imm06", "Imm12", "Imm18", "Imm24"):
                raise TranslateError("unknown argument type %s in %s" % (ty, name))
        ops.append((int(byte, 16), name, fields))
    if len(ops) < 100:
        raise TranslateError("only %d opcodes parsed" % len(ops))
    return ops


def split_handlers(repo):
    src = read(repo, "fuel-vm/src/interpreter/executors/opcodes_impl.rs")
    parts = re.split(r"(?=impl<M, S, Tx, Ecal, V> Execute<M, S, Tx, Ecal, V> for fuel_asm::op::)", src)
    out = {}
    for p in parts[1:]:
        name = re.match(r"impl<M, S, Tx, Ecal, V> Execute<M, S, Tx, Ecal, V> for fuel_asm::op::(\w+)", p).group(1)
        i = p.find("IoResult<ExecuteState, S::DataError> {")
        if i < 0:
            raise TranslateError("handler body of %s not found" % name)
        out[name] = p[i:]
    return out


FIELD = ["FA", "FB", "FC", "FD"]


def field_map(name, body, shape):
    """variable name -> ('reg', k) | ('imm', width) from `let (..) = self.unpack();`"""
    m = re.search(r"let\s+\(?([\w\s,]+?)\)?\s*=\s*self\.unpack\(\);", body)
    if not m:
        if not shape:
            return {}
        raise TranslateError("%s: unpack() not found" % name)
    names = [x.strip() for x in m.group(1).split(",") if x.strip()]
    if len(names) != len(shape):
        raise TranslateError("%s: unpack arity %d != shape %d" % (name, len(names), len(shape)))
    out = {}
    k = 0
    for n, (_, ty) in zip(names, shape):
        if ty == "RegId":
            out[n] = ("reg", k)
            k += 1
        else:
            out[n] = ("imm", ty[3:])
    return out


def src_of(name, expr, fm):
    expr = re.sub(r"\s+", "", expr)
    m = re.fullmatch(r"interpreter\.registers\[(\w+)\]", expr)
    if m:
        v = fm.get(m.group(1))
        if not v or v[0] != "reg":
            raise TranslateError("%s: %s is not a register field" % (name, m.group(1)))
        return "(SReg %s)" % FIELD[v[1]]
    m = re.fullmatch(r"(\w+)\.into\(\)", expr)
    if m:
        v = fm.get(m.group(1))
        if not v or v[0] != "imm":
            raise TranslateError("%s: %s is not an immediate" % (name, m.group(1)))
        return "(SImm I%s)" % v[1]
    raise TranslateError("%s: cannot understand operand %r" % (name, expr))


def cond_of(name, expr, fm):
    expr = re.sub(r"\s+", "", expr)
    m = re.fullmatch(r"interpreter\.registers\[(\w+)\]!=interpreter\.registers\[(\w+)\]", expr)
    if m:
        a, b = fm[m.group(1)], fm[m.group(2)]
        return "(CNe %s %s)" % (FIELD[a[1]], FIELD[b[1]])
    m = re.fullmatch(r"interpreter\.registers\[(\w+)\]!=0", expr)
    if m:
        return "(CNz %s)" % FIELD[fm[m.group(1)][1]]
    raise TranslateError("%s: cannot understand condition %r" % (name, expr))


def call_arg(body, method):
    """argument text of `.method(` ... `)` with balanced parentheses, or None"""
    i = body.find("." + method + "(")
    if i < 0:
        return None
    j = i + len(method) + 2
    depth, k = 1, j
    while depth:
        if body[k] == "(":
            depth += 1
        elif body[k] == ")":
            depth -= 1
        k += 1
    return body[j:k - 1]


MODES = {"Assign": "Assign", "RelativeIS": "RelIS", "RelativeForwards": "RelFwd", "RelativeBackwards": "RelBwd"}


def check_flow_rs(repo):
    """the parts of JumpArgs::jump the hand-written model mirrors must still look as modelled"""
    src = read(repo, "fuel-vm/src/interpreter/flow.rs")
    m = re.search(r"pub\(crate\) fn jump\(&self, is: Reg<IS>, mut pc: RegMut<PC>\) -> SimpleResult<\(\)> \{(.*?)\n    \}\n", src, re.S)
    if not m:
        raise TranslateError("JumpArgs::jump not found")
    body = re.sub(r"//[^\n]*", "", m.group(1))
    body = re.sub(r"\s+", "", body)
    want = [
        "if!self.condition{inc_pc(pc);returnOk(());}",
        "JumpMode::Assign=>self.dynamic.saturating_add(self.fixed.saturating_mul(Instruction::SIZEasWord)),",
        "JumpMode::RelativeIS=>{letoffset_instructions=self.dynamic.saturating_add(self.fixed);letoffset_bytes=offset_instructions.saturating_mul(Instruction::SIZEasWord);is.saturating_add(offset_bytes)}",
        "JumpMode::RelativeForwards=>{letoffset_instructions=self.dynamic.saturating_add(self.fixed).saturating_add(1);letoffset_bytes=offset_instructions.saturating_mul(Instruction::SIZEasWord);pc.saturating_add(offset_bytes)}",
        "JumpMode::RelativeBackwards=>{letoffset_instructions=self.dynamic.saturating_add(self.fixed).saturating_add(1);letoffset_bytes=offset_instructions.saturating_mul(Instruction::SIZEasWord);pc.checked_sub(offset_bytes).ok_or(PanicReason::MemoryOverflow)?}",
        "iftarget_addr>=VM_MAX_RAM{returnErr(PanicReason::MemoryOverflow.into())}*pc=target_addr;Ok(())",
    ]
    for wnt in want:
        if wnt not in body:
            raise TranslateError("JumpArgs::jump no longer has the modelled shape; missing: " + wnt[:70])
    inc = read(repo, "fuel-vm/src/interpreter/internal.rs")
    if not re.search(r"pub\(crate\) fn inc_pc\(mut pc: RegMut<PC>\) \{\s*\*pc = pc\.saturating_add\(Instruction::SIZE as Word\);\s*\}", inc):
        raise TranslateError("inc_pc no longer `*pc = pc.saturating_add(Instruction::SIZE as Word)`")
    fetch = read(repo, "fuel-vm/src/interpreter/executors/instruction.rs")
    f = re.sub(r"\s+", "", fetch)
    if "ifpc<self.registers[RegId::IS]||pc>=self.registers[RegId::SSP]{returnErr(InterpreterError::PanicInstruction(PanicInstruction::error(PanicReason::MemoryNotExecutable," not in f:
        raise TranslateError("fetch_instruction executable-range check changed")
    if "self.memory().read_bytes(pc).map_err(|reason|{InterpreterError::PanicInstruction(PanicInstruction::error(reason,0," not in f:
        raise TranslateError("fetch_instruction read changed")


def consts(repo):
    c = read(repo, "fuel-vm/src/consts.rs")
    m1 = re.search(r"FUEL_MAX_MEMORY_SIZE: u64 = (\d+);", c)
    m2 = re.search(r"VM_MAX_RAM: u64 = 1024 \* 1024 \* FUEL_MAX_MEMORY_SIZE;", c)
    m3 = re.search(r"VM_REGISTER_COUNT: usize = (\d+);", c)
    if not (m1 and m2 and m3):
        raise TranslateError("consts.rs: VM_MAX_RAM / VM_REGISTER_COUNT not understood")
    max_ram = 1024 * 1024 * int(m1.group(1))
    nreg = int(m3.group(1))
    call = re.sub(r"\s+", "", read(repo, "fuel-vm/src/call.rs"))
    for frag in ["contract_id_offset()->usize{0}", "Self::contract_id_offset().saturating_add(ContractId::LEN)",
                 "Self::asset_id_offset().saturating_add(AssetId::LEN)", "Self::registers_offset().saturating_add(WORD_SIZE*VM_REGISTER_COUNT)",
                 "Self::code_size_offset().saturating_add(WORD_SIZE)", "Self::a_offset().saturating_add(WORD_SIZE)", "Self::b_offset().saturating_add(WORD_SIZE)"]:
        if frag not in call:
            raise TranslateError("call.rs: CallFrame layout changed (%s)" % frag)
    frame = 32 + 32 + 8 * nreg + 8 + 8 + 8
    pr = read(repo, "fuel-asm/src/panic_reason.rs")
    reasons = {}
    for n in ["OutOfGas", "MemoryOverflow", "ReservedRegisterNotWritable", "MemoryNotExecutable", "UninitalizedMemoryAccess", "InvalidInstruction"]:
        m = re.search(r"\b%s = (0x[0-9a-fA-F]+)," % n, pr)
        if not m:
            raise TranslateError("panic reason %s not found" % n)
        reasons[n] = int(m.group(1), 16)
    return max_ram, frame, reasons


def generate(repo):
    ops = parse_optable(repo)
    handlers = split_handlers(repo)
    check_flow_rs(repo)
    max_ram, frame, reasons = consts(repo)
    jumps, classes = [], []
    for byte, name, shape in ops:
        if name not in handlers:
            raise TranslateError("no Execute impl for %s" % name)
        body = handlers[name]
        code = re.sub(r"//[^\n]*", "", body)
        is_jump = "interpreter.jump(" in code
        if is_jump:
            fm = field_map(name, code, shape)
            mm = re.search(r"JumpArgs::new\(JumpMode::(\w+)\)", code)
            if not mm or mm.group(1) not in MODES:
                raise TranslateError("%s: JumpMode not understood" % name)
            cond = call_arg(code, "with_condition")
            dyn = call_arg(code, "to_address")
            fixed = call_arg(code, "plus_fixed")
            link = "None"
            if "write_user_register" in code:
                lm = re.search(r"let ret_addr =\s*interpreter\.registers\[RegId::PC\]\.saturating_add\(Instruction::SIZE as u64\);\s*interpreter\.write_user_register\((\w+), ret_addr\)\?;\s*interpreter\.jump\(", code)
                if not lm:
                    raise TranslateError("%s: link-register idiom not understood" % name)
                link = "(Some %s)" % FIELD[fm[lm.group(1)][1]]
            # the charge must come first
            if not re.search(r"\{\s*interpreter\.gas_charge\(interpreter\.gas_costs\(\)\.\w+\(\)\)\?;", code):
                raise TranslateError("%s: does not start with a gas charge" % name)
            if "inc_pc" in code:
                raise TranslateError("%s: jump handler also calls inc_pc" % name)
            jumps.append((byte, name, MODES[mm.group(1)],
                          cond_of(name, cond, fm) if cond is not None else "CTrue",
                          src_of(name, dyn, fm) if dyn is not None else "SZero",
                          src_of(name, fixed, fm) if fixed is not None else "SZero", link))
            cls = "KJump"
        elif name == "CALL":
            if "prepare_call" not in code:
                raise TranslateError("CALL handler changed")
            cls = "KCall"
        elif name in ("RET", "RETD"):
            if "ExecuteState::Return" not in code:
                raise TranslateError("%s handler changed" % name)
            cls = "KRet"
        elif name == "RVRT":
            if "ExecuteState::Revert" not in code:
                raise TranslateError("RVRT handler changed")
            cls = "KRevert"
        else:
            if "ExecuteState::Proceed" not in code or "ExecuteState::Return" in code or "ExecuteState::Revert" in code:
                raise TranslateError("%s: unexpected ExecuteState" % name)
            cls = "KIncPc"
        classes.append((byte, name, cls))
    if len(jumps) != 12:
        raise TranslateError("expected 12 jump handlers, found %d" % len(jumps))
    L = []
    L.append("(* Gen/FlowTable.v — GENERATED by tools/gen_flowtable.py from fuel-asm/src/lib.rs,")
    L.append("   fuel-vm/src/interpreter/executors/opcodes_impl.rs, flow.rs, internal.rs, instruction.rs,")
    L.append("   consts.rs, call.rs, fuel-asm/src/panic_reason.rs.  DO NOT EDIT. *)")
    L.append("From FV Require Import Base.Bytes Vm.FlowSpec.")
    L.append("Open Scope string_scope.")
    L.append("Open Scope N_scope.")
    L.append("")
    L.append("Definition VM_MAX_RAM_gen : N := %d." % max_ram)
    L.append("Definition CALLFRAME_SIZE : N := %d." % frame)
    for k, v in sorted(reasons.items()):
        L.append("Definition PANIC_%s : N := %d." % (k, v))
    L.append("")
    L.append("(* opcode byte, mnemonic, JumpArgs builder chain of its handler *)")
    L.append("Definition jump_table : list (N * (string * jentry)) := [")
    L.append(";\n".join('  (%d, ("%s", {| j_mode := %s; j_cond := %s; j_dyn := %s; j_fixed := %s; j_link := %s |}))'
                        % (b, n, mo, c, d, f, l) for (b, n, mo, c, d, f, l) in jumps))
    L.append("].")
    L.append("")
    L.append("(* program-counter discipline of every opcode's handler *)")
    L.append("Definition flow_class : list (N * (string * fclass)) := [")
    L.append(";\n".join('  (%d, ("%s", %s))' % c for c in classes))
    L.append("].")
    L.append("")
    return {"Gen/FlowTable.v": "\n".join(L)}


if __name__ == "__main__":
    import sys
    for k, v in generate(sys.argv[1] if len(sys.argv) > 1 else "/repo").items():
        print(v)
