#!/usr/bin/env python3
"""gen_assettable.py — translator for C27/C28: regenerates coq/Gen/AssetTable.v from

  fuel-asm/src/panic_reason.rs                      every panic reason byte (PR_<Name>)
  fuel-vm/src/consts.rs, fuel-tx/src/consts.rs      VM_MEMORY_BALANCES_OFFSET, BALANCE_ENTRY_SIZE
  fuel-vm/src/interpreter/receipts.rs               MAX_RECEIPTS and the two reserved slots of push
  fuel-tx/src/receipt/script_result.rs              ScriptExecutionResult codes
  fuel-tx/src/receipt.rs                            receipt variants in declaration order (discriminants)

and pins (whitespace-normalised fragments) the Rust functions that the hand-written models
Vm/AssetModel.v and Vm/OutcomeModel.v mirror, so that an edit of the mechanism is reported as a
broken tie (DESIGN.md section 4) instead of being silently missed:

  RuntimeBalances::{checked_balance_sub, try_from_iter, to_vm, TryFrom<InitialBalances>}, checked_balance_add is cfg(test)
  balance_increase / balance_decrease, TransferCtx::{transfer, transfer_output}
  coin forwarding of PrepareCallCtx::prepare_call, BurnCtx::burn, MintCtx::mint, MessageOutputCtx::message_output
  replace_variable_output, ExecutableTransaction::update_outputs
  initial_free_balances and its three helpers
  ReceiptsCtx::push, run_program's result / ScriptResult / finalisation tail, append_panic_receipt
  MemoryClient::transact, StateTransition::should_revert, MemoryStorage::{commit, revert}

Raises on anything it does not understand."""
import re, os


class TranslateError(Exception):
    pass


def read(repo, rel):
    return open(os.path.join(repo, rel)).read()


def norm(src):
    src = re.sub(r"//[^\n]*", "", src)
    return re.sub(r"\s+", "", src)


PINS = {
    "fuel-vm/src/interpreter/balances.rs": [
        # checked_balance_sub: state first, then the memory cell at offset + 32; absent/insufficient => None unless value == 0
        "pubfnchecked_balance_sub(&mutself,memory:&mutMemoryInstance,asset:&AssetId,value:Word,)->Option<Word>{self.state.get_mut(asset).and_then(|b|b.checked_sub(value)).map(|balance|Self::set_memory_balance_inner(balance,memory)).map_or((value==0).then_some(0),|r|r.ok())}",
        "fnset_memory_balance_inner(balance:&Balance,memory:&mutMemoryInstance,)->SimpleResult<Word>{letvalue=balance.value();letoffset=balance.offset();letoffset=offset.saturating_add(AssetId::LEN);memory.write_bytes_noownerchecks(offset,value.to_be_bytes())?;Ok(value)}",
        # the only way to increase a free balance is test-only
        "#[cfg(test)]pubfnchecked_balance_add(",
        "iter.into_iter().sorted_by_key(|k|k.0).enumerate().try_fold(HashMap::new(),|mutstate,(i,(asset,balance))|{letoffset=VM_MEMORY_BALANCES_OFFSET.saturating_add(i.saturating_mul(BALANCE_ENTRY_SIZE));state.entry(asset).or_insert_with(||Balance::new(0,offset)).checked_add(balance).ok_or(ValidityError::BalanceOverflow)?;Ok(state)})",
        "letmutbalances:BTreeMap<_,_>=initial_balances.non_retryable.into();ifletSome(retryable_amount)=initial_balances.retryable{letentry=balances.entry(retryable_amount.base_asset_id).or_default();*entry=entry.checked_add(retryable_amount.amount).ok_or(ValidityError::BalanceOverflow)?;}Self::try_from_iter(balances)",
        "self.state.iter().for_each(|(asset,balance)|{letvalue=balance.value();letofs=balance.offset();vm.memory_mut().write_bytes_noownerchecks(ofs,**asset).expect(\"Checkedabove\");vm.memory_mut().write_bytes_noownerchecks(ofs.saturating_add(AssetId::LEN),value.to_be_bytes(),).expect(\"Checkedabove\");});vm.balances=self;",
    ],
    "fuel-vm/src/interpreter/contract.rs": [
        "ifamount==0{returnOk(false)}letbalance=balance(storage,contract,asset_id)?;letbalance=balance.checked_add(amount).ok_or(PanicReason::BalanceOverflow)?;letold_value=storage.contract_asset_id_balance_replace(contract,asset_id,balance).map_err(RuntimeError::Storage)?;Ok(old_value.is_none())",
        "ifamount==0{returnOk(())}letbalance=balance(storage,contract,asset_id)?;letbalance=balance.checked_sub(amount).ok_or(PanicReason::NotEnoughBalance)?;storage.contract_asset_id_balance_insert(contract,asset_id,balance).map_err(RuntimeError::Storage)?;Ok(())",
        "Ok(storage.contract_asset_id_balance(contract,asset_id).map_err(RuntimeError::Storage)?.unwrap_or_default())",
        # TR: inputs check, zero check, debit, credit, (gas), receipt
        "self.verifier.check_contract_in_inputs(self.panic_context,self.input_contracts,&destination,)?;ifamount==0{returnErr(PanicReason::TransferZeroCoins.into())}letinternal_context=matchinternal_contract(self.context,self.fp,self.memory){Ok(source_contract)=>Some(source_contract),Err(PanicReason::ExpectedInternalContext)=>None,Err(e)=>returnErr(e.into()),};ifletSome(source_contract)=internal_context{balance_decrease(self.storage,&source_contract,&asset_id,amount)?;}else{external_asset_id_balance_sub(self.balances,self.memory,&asset_id,amount)?;}letcreated_new_entry=balance_increase(self.storage,&destination,&asset_id,amount)?;",
        "letreceipt=Receipt::transfer(internal_context.unwrap_or_default(),destination,amount,asset_id,*self.pc,*self.is,);self.receipts.push(receipt)?;",
        # TRO
        "letamount=transfer_amount;ifamount==0{returnErr(PanicReason::TransferZeroCoins.into())}letinternal_context=matchinternal_contract(self.context,self.fp,self.memory){Ok(source_contract)=>Some(source_contract),Err(PanicReason::ExpectedInternalContext)=>None,Err(e)=>returnErr(e.into()),};ifletSome(source_contract)=internal_context{balance_decrease(self.storage,&source_contract,&asset_id,amount)?;}else{external_asset_id_balance_sub(self.balances,self.memory,&asset_id,amount)?;}letvariable=Output::variable(to,amount,asset_id);set_variable_output(self.tx,self.memory,self.tx_offset,out_idx,variable)?;letreceipt=Receipt::transfer_out(internal_context.unwrap_or_default(),to,amount,asset_id,*self.pc,*self.is,);self.receipts.push(receipt)?;",
    ],
    "fuel-vm/src/interpreter/internal.rs": [
        "balances.checked_balance_sub(memory,asset_id,value).ok_or(PanicReason::NotEnoughBalance)?;Ok(())",
        "tx.replace_variable_output(idx,variable)?;update_memory_output(tx,memory,tx_offset,idx)",
    ],
    "fuel-vm/src/interpreter/flow.rs": [
        "letamount=self.params.amount_of_coins_to_forward;ifletSome(source_contract)=self.current_contract{balance_decrease(self.storage,&source_contract,&asset_id,amount)?;}else{external_asset_id_balance_sub(self.runtime_balances,self.memory,&asset_id,amount,)?;}self.verifier.check_contract_in_inputs(self.panic_context,self.input_contracts,call.to(),)?;letcreated_new_entry=balance_increase(self.storage,call.to(),&asset_id,self.params.amount_of_coins_to_forward,)?;",
        "letreceipt=Receipt::call(id,*call.to(),self.params.amount_of_coins_to_forward,asset_id,forward_gas_amount,call.a(),call.b(),*self.registers.system_registers.pc,*self.registers.system_registers.is,);self.receipts.push(receipt)?;self.frames.push(frame);",
        # panic receipt: pushing it cannot fail (the reserved slot)
        "self.receipts.push(receipt).expect(\"Appendingapanicreceiptcannotfail\");",
        "letreceipt=Receipt::revert(current_contract.unwrap_or_else(ContractId::zeroed),a,*pc,*is,);receipts.push(receipt)",
    ],
    "fuel-vm/src/interpreter/blockchain.rs": [
        "letcontract_id=internal_contract(self.context,self.fp,self.memory)?;letsub_id=SubAssetId::new(self.memory.read_bytes(b)?);letasset_id=contract_id.asset_id(&sub_id);letbalance=balance(self.storage,&contract_id,&asset_id)?;letbalance=balance.checked_sub(a).ok_or(PanicReason::NotEnoughBalance)?;self.storage.contract_asset_id_balance_insert(&contract_id,&asset_id,balance).map_err(RuntimeError::Storage)?;letreceipt=Receipt::burn(sub_id,contract_id,a,*self.pc,*self.is);self.receipts.push(receipt)?;",
        "letcontract_id=internal_contract(self.context,self.fp,self.memory)?;letsub_id=SubAssetId::new(self.memory.read_bytes(b)?);letasset_id=contract_id.asset_id(&sub_id);letbalance=balance(self.storage,&contract_id,&asset_id)?;letbalance=balance.checked_add(a).ok_or(PanicReason::BalanceOverflow)?;letold_value=self.storage.contract_asset_id_balance_replace(&contract_id,&asset_id,balance).map_err(RuntimeError::Storage)?;",
        "letreceipt=Receipt::mint(sub_id,contract_id,a,*self.pc,*self.is);self.receipts.push(receipt)?;",
        "ifletSome(source_contract)=self.current_contract{balance_decrease(self.storage,&source_contract,&self.base_asset_id,self.amount_coins_to_send,)?;}else{base_asset_balance_sub(&self.base_asset_id,self.balances,self.memory,self.amount_coins_to_send,)?;}lettxid=tx_id(self.memory);letreceipt=Receipt::message_out(&txid,self.receipts.len()asWord,sender,recipient,self.amount_coins_to_send,msg_data,);self.receipts.push(receipt)?;",
    ],
    "fuel-vm/src/interpreter.rs": [
        "if!output.is_variable(){returnErr(PanicReason::ExpectedOutputVariable.into());}self.outputs_mut().get_mut(idx).and_then(|o|matcho{Output::Variable{amount,..}ifamount==&0=>Some(o),_=>None,}).map(|o|mem::replace(o,output)).ok_or(PanicReason::OutputNotFound)?;Ok(())",
        "letgas_refund=self.refund_fee(gas_costs,fee_params,used_gas,gas_price).ok_or(ValidityError::GasCostsCoinsOverflow)?;self.outputs_mut().iter_mut().try_for_each(|o|matcho{Output::Change{asset_id,amount,..}ifrevert&&asset_id==base_asset_id=>initial_balances.non_retryable[base_asset_id].checked_add(gas_refund).map(|v|*amount=v).ok_or(ValidityError::BalanceOverflow),Output::Change{asset_id,amount,..}ifrevert=>{*amount=initial_balances.non_retryable[asset_id];Ok(())}Output::Change{asset_id,amount,..}ifasset_id==base_asset_id=>balances[asset_id].checked_add(gas_refund).map(|v|*amount=v).ok_or(ValidityError::BalanceOverflow),Output::Change{asset_id,amount,..}=>{*amount=balances[asset_id];Ok(())}Output::Variable{amount,..}ifrevert=>{*amount=0;Ok(())}_=>Ok(()),})",
    ],
    "fuel-vm/src/checked_transaction/balances.rs": [
        "let(mutnon_retryable_balances,retryable_balance)=add_up_input_balances(tx,base_asset_id).ok_or(ValidityError::BalanceOverflow)?;letmax_fee=tx.policies().get(PolicyType::MaxFee).ok_or(ValidityError::TransactionMaxFeeNotSet)?;deduct_max_fee_from_base_asset(&mutnon_retryable_balances,base_asset_id,max_fee)?;reduce_free_balances_by_coin_outputs(&mutnon_retryable_balances,tx)?;",
        "letbalance=non_retryable_balances.entry(*asset_id).or_default();*balance=(*balance).checked_add(*amount)?;",
        "letbalance=non_retryable_balances.entry(*base_asset_id).or_default();*balance=(*balance).checked_add(*amount)?;",
        "retryable_balance=retryable_balance.checked_add(*amount)?;",
        "letbase_asset_balance=non_retryable_balances.entry(*base_asset_id).or_default();*base_asset_balance=base_asset_balance.checked_sub(max_fee).ok_or(",
        "letbalance=non_retryable_balances.get_mut(asset_id).ok_or(ValidityError::TransactionOutputCoinAssetIdNotFound(*asset_id),)?;*balance=balance.checked_sub(*amount).ok_or(",
    ],
    "fuel-vm/src/interpreter/receipts.rs": [
        "pubfnpush(&mutself,receipt:Receipt)->SimpleResult<()>{ifself.receipts.len()==Self::MAX_RECEIPTS{returnErr(Bug::new(BugVariant::ReceiptsCtxFull).into())}if(self.receipts.len()==Self::MAX_RECEIPTS-1&&!matches!(receipt,Receipt::ScriptResult{..}))||(self.receipts.len()==Self::MAX_RECEIPTS-2&&!matches!(receipt,Receipt::ScriptResult{..}|Receipt::Panic{..})){returnErr(PanicReason::TooManyReceipts.into())}self.receipts_tree.push(receipt.to_bytes().as_slice());self.receipts.push(receipt);Ok(())}",
        "pubfnroot(&self)->Bytes32{self.receipts_tree.clone().root().into()}",
    ],
    "fuel-vm/src/interpreter/executors/main.rs": [
        "Ok(ExecuteState::Revert(r))=>{break(ScriptExecutionResult::Revert,ProgramState::Revert(r))}Ok(ExecuteState::Return(_)|ExecuteState::ReturnData(_))ifin_call=>{continue}Ok(ExecuteState::Return(r))=>{break(ScriptExecutionResult::Success,ProgramState::Return(r))}Ok(ExecuteState::ReturnData(d))=>{break(ScriptExecutionResult::Success,ProgramState::ReturnData(d),)}Err(e)=>matche.instruction_result(){Some(result)=>{self.append_panic_receipt(result);break(ScriptExecutionResult::Panic,ProgramState::Revert(0));}None=>returnErr(e),},",
        "letgas_used=gas_limit.checked_sub(self.remaining_gas()).ok_or_else(||Bug::new(BugVariant::GlobalGasUnderflow))?;self.receipts.push(Receipt::script_result(result,gas_used))?;",
        "Self::finalize_outputs(&mutself.tx,&gas_costs,&fee_params,&base_asset_id,matches!(state,ProgramState::Revert(_)),gas_used,&self.initial_balances,&self.balances,gas_price,)?;self.update_transaction_outputs()?;",
        "*script.receipts_root_mut()=self.receipts.root();Ok(state)",
    ],
    "fuel-vm/src/memory_client.rs": [
        "self.transactor.transact(tx);ifletOk(state)=self.transactor.result(){ifstate.should_revert(){self.transactor.as_mut().revert();}else{self.transactor.as_mut().commit();}}else{self.transactor.as_mut().revert();}",
    ],
    "fuel-vm/src/state.rs": [
        "pubfnshould_revert(&self)->bool{self.receipts.iter().any(|r|matches!(r,Receipt::Revert{..}|Receipt::Panic{..}))}",
    ],
    "fuel-vm/src/storage/memory.rs": [
        "pubfncommit(&mutself){self.transacted=self.memory.clone();}",
        "pubfnrevert(&mutself){self.memory=self.transacted.clone();}",
    ],
}


def check_pins(repo):
    for rel, frags in PINS.items():
        src = norm(read(repo, rel))
        for f in frags:
            if f not in src:
                raise TranslateError("%s no longer has the modelled shape; missing: %s..." % (rel, f[:90]))


def panic_reasons(repo):
    pr = read(repo, "fuel-asm/src/panic_reason.rs")
    m = re.search(r"pub enum PanicReason \{(.*?)\n    \}", pr, re.S)
    if not m:
        raise TranslateError("enum PanicReason not found")
    out = []
    for mm in re.finditer(r"\b([A-Z]\w+) = (0x[0-9a-fA-F]{2}),", m.group(1)):
        out.append((mm.group(1), int(mm.group(2), 16)))
    names = dict(out)
    for need in ["OutOfGas", "NotEnoughBalance", "ExpectedInternalContext", "OutputNotFound", "ContractNotInInputs",
                 "TransferZeroCoins", "TooManyReceipts", "BalanceOverflow", "ExpectedOutputVariable", "MemoryOverflow",
                 "ContractNotFound", "MessageDataTooLong", "Revert"]:
        if need not in names:
            raise TranslateError("panic reason %s not found" % need)
    if len(set(v for _, v in out)) != len(out):
        raise TranslateError("duplicate panic reason byte")
    return out


def consts(repo):
    c = read(repo, "fuel-vm/src/consts.rs")
    if not re.search(r"pub const VM_MEMORY_BASE_ASSET_ID_OFFSET: usize = Bytes32::LEN;", c):
        raise TranslateError("VM_MEMORY_BASE_ASSET_ID_OFFSET not understood")
    if not re.search(r"pub const VM_MEMORY_BALANCES_OFFSET: usize =\s*VM_MEMORY_BASE_ASSET_ID_OFFSET \+ AssetId::LEN;", c):
        raise TranslateError("VM_MEMORY_BALANCES_OFFSET not understood")
    t = read(repo, "fuel-tx/src/consts.rs")
    if not re.search(r"pub const BALANCE_ENTRY_SIZE: usize = AssetId::LEN \+ WORD_SIZE;", t):
        raise TranslateError("BALANCE_ENTRY_SIZE not understood")
    ty = read(repo, "fuel-types/src/array_types.rs") if os.path.exists(os.path.join(repo, "fuel-types/src/array_types.rs")) else ""
    # AssetId / Bytes32 are 32-byte keys, WORD_SIZE = 8
    for name in ("AssetId", "Bytes32"):
        if ty and not re.search(r"key!\(%s, 32\)|key_with_big_array!\(%s, 32\)" % (name, name), ty):
            raise TranslateError("%s is no longer a 32-byte key" % name)
    r = read(repo, "fuel-vm/src/interpreter/receipts.rs")
    if not re.search(r"pub const MAX_RECEIPTS: usize = u16::MAX as usize;", r):
        raise TranslateError("MAX_RECEIPTS not understood")
    return 32 + 32, 32 + 8, 65535


def script_results(repo):
    s = norm(read(repo, "fuel-tx/src/receipt/script_result.rs"))
    if "ScriptExecutionResult::Success=>0x00,ScriptExecutionResult::Revert=>0x01,ScriptExecutionResult::Panic=>0x02," not in s:
        raise TranslateError("ScriptExecutionResult codes changed")
    return [("Success", 0), ("Revert", 1), ("Panic", 2)]


def receipt_variants(repo):
    src = read(repo, "fuel-tx/src/receipt.rs")
    m = re.search(r"pub enum Receipt \{(.*?)\n\}", src, re.S)
    if not m:
        raise TranslateError("enum Receipt not found")
    names = re.findall(r"(?m)^    ([A-Z]\w+) \{", m.group(1))
    want = ["Call", "Return", "ReturnData", "Panic", "Revert", "Log", "LogData", "Transfer", "TransferOut",
            "ScriptResult", "MessageOut", "Mint", "Burn"]
    if names != want:
        raise TranslateError("receipt variants changed: %s" % names)
    return names


def generate(repo):
    check_pins(repo)
    reasons = panic_reasons(repo)
    bal_off, entry, maxr = consts(repo)
    results = script_results(repo)
    variants = receipt_variants(repo)
    L = []
    L.append("(* Gen/AssetTable.v — GENERATED by tools/gen_assettable.py from fuel-asm/src/panic_reason.rs,")
    L.append("   fuel-vm/src/consts.rs, fuel-tx/src/consts.rs, fuel-vm/src/interpreter/receipts.rs,")
    L.append("   fuel-tx/src/receipt.rs, fuel-tx/src/receipt/script_result.rs (the translator also pins the")
    L.append("   text of the functions mirrored by Vm/AssetModel.v and Vm/OutcomeModel.v).  DO NOT EDIT. *)")
    L.append("From FV Require Import Base.Bytes.")
    L.append("Open Scope N_scope.")
    L.append("")
    for n, v in reasons:
        L.append("Definition PR_%s : N := %d." % (n, v))
    L.append("")
    L.append("Definition VM_MEMORY_BALANCES_OFFSET : N := %d." % bal_off)
    L.append("Definition BALANCE_ENTRY_SIZE : N := %d." % entry)
    L.append("Definition ASSET_ID_LEN : N := 32.")
    L.append("Definition MAX_RECEIPTS : N := %d." % maxr)
    L.append("")
    for n, v in results:
        L.append("Definition SER_%s : N := %d." % (n, v))
    L.append("")
    L.append("(* receipt kinds = position of the variant in `enum Receipt` (its canonical discriminant) *)")
    for i, n in enumerate(variants):
        L.append("Definition RK_%s : N := %d." % (n, i))
    L.append("")
    return {"Gen/AssetTable.v": "\n".join(L)}


if __name__ == "__main__":
    import sys
    for k, v in generate(sys.argv[1] if len(sys.argv) > 1 else "/repo").items():
        print(v)
