#!/usr/bin/env python3
"""Print the prompt given to a fresh sub-agent that seeds a property-breaking change.
   usage: seed_prompt.py Cxx /tmp/seed/Cxx   (the agent gets ONLY the property text + its worktree)"""
import json, sys
pid, wt = sys.argv[1], sys.argv[2]
p = [json.loads(l) for l in open('/verif/properties.jsonl') if json.loads(l)['id'] == pid][0]
print(f"""You are helping to test how good a verification effort for the Rust repository FuelLabs/fuel-vm is. You get ONE semantic property of that code base and your own scratch git worktree of the repository at {wt} (complete workspace at the current commit; it builds and tests OFFLINE: always pass --offline to cargo, there is no network). Work ONLY inside {wt} and your output directory {wt}-out (create it). Do NOT read, list or write anything under /verif, /repo, /root or any other directory under /tmp/seed — your work must be independent of what the verifiers already have.

PROPERTY {pid} — {p['title']}
Statement: {p['statement']}
Quantifier: {p['quantifier']['text']}
Code it is anchored in: {', '.join(p['anchors']['files'])}

TASK: produce up to TWO independent, realistic changes to the repository (bugs a maintainer could plausibly introduce in a refactor or optimisation), each of which BREAKS the property above while the workspace still compiles and the EXISTING test suite still passes. Prefer changes that need something specific to manifest — a particular multi-step sequence of operations, an unusual input or boundary value, a particular size/index combination, two cooperating sites that each look fine alone — NOT changes that ordinary use or the existing tests would expose at once. Do not touch test files, do not add features flags; change only library source (small diffs, a few lines).

For each change k in {{1,2}} deliver in {wt}-out/m<k>/:
  patch.diff  — `git diff` against the worktree HEAD (must apply with `git apply` on a clean checkout);
  demo/       — a demonstration that FAILS with the change applied and PASSES without it: preferably a new integration test file (e.g. <crate>/tests/seed_demo.rs, using only the crate's public API / existing features) plus a `run.sh` that runs it (e.g. `cargo test -p <crate> --offline --test seed_demo`); the demo is NOT part of patch.diff;
  meta.json   — {{"property": "{pid}", "summary": "...", "needs_to_manifest": "...what specific input/sequence is needed...", "files_touched": [...], "tests_run_with_patch": ["cargo test -p ... --offline", ...], "demo_cmd": "..."}}.
You must actually verify: (1) with the patch applied, `cargo test -p <every crate whose sources you touched, and the crates that depend on it that have tests exercising it> --offline` passes (run at least the touched crate's full tests; fuel-vm's full suite takes several minutes — run it if you touched fuel-vm or something fuel-vm's tests depend on); (2) the demo fails with the patch and passes without. If a candidate change makes an existing test fail, discard it and find another. When finished: restore the worktree to a clean HEAD (`git checkout -- . && git clean -fdq` but keep {wt}-out which is outside), and delete the worktree's `target/` directory to free disk. Final answer: for each change one paragraph (what, why tests miss it, how the demo shows it).""")
