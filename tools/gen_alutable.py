#!/usr/bin/env python3
"""gen_alutable.py — translator for properties C21/C22.

Reads (on every check)
  fuel-vm/src/interpreter/executors/opcodes_impl.rs   the `impl Execute for op::X` bodies of the ALU opcodes
  fuel-asm/src/lib.rs                                  impl_instructions! shapes, RegId constants
  fuel-asm/src/args/{narrowint,wideint}.rs             enum discriminants of the immediate decoders
  fuel-asm/src/panic_reason.rs                         PanicReason bytes
  fuel-vm/src/consts.rs                                FUEL_MAX_MEMORY_SIZE
and writes coq/Gen/AluTable.v:  opcode -> (helper kind, operator, operand sources), plus the
constants.  Every handler must be one of the fixed shapes listed in Alu/AluSyntax.v and must
charge gas as its first statement; anything else raises (a broken tie, DESIGN.md section 4).
"""
import os, re, sys

ALU_OPS = """ADD ADDI AND ANDI DIV DIVI EQ EXP EXPI GT LT MLOG MOD MODI MOVE MOVI MROO MUL MULI MLDV NIOP
NOOP NOT OR ORI SLL SLLI SRL SRLI SUB SUBI XOR XORI
WDCM WQCM WDOP WQOP WDML WQML WDDV WQDV WDMD WQMD WDAM WQAM WDMM WQMM""".split()

REASONS = ["OutOfGas", "MemoryOverflow", "ArithmeticOverflow", "MemoryOwnership", "ReservedRegisterNotWritable",
           "InvalidImmediateValue", "ArithmeticError", "UninitalizedMemoryAccess"]
REGS = ["ZERO", "ONE", "OF", "PC", "SSP", "SP", "FP", "HP", "ERR", "GGAS", "CGAS", "BAL", "IS", "RET", "RETL", "FLAG", "WRITABLE"]


class TranslateError(Exception):
    pass


def strip_comments(s):
    s = re.sub(r"//[^\n]*", "", s)
    s = re.sub(r"/\*.*?\*/", "", s, flags=re.S)
    return s


def norm(s):
    s = re.sub(r"\s+", " ", s).strip()
    # canonical spacing around punctuation
    s = re.sub(r"\s*([(),;\[\]{}])\s*", r"\1", s)
    s = re.sub(r",\)", ")", s)           # trailing commas
    s = re.sub(r"\s*\.\s*", ".", s)
    return s


def match_brace(s, i):
    assert s[i] == "{"
    d = 0
    for j in range(i, len(s)):
        if s[j] == "{":
            d += 1
        elif s[j] == "}":
            d -= 1
            if d == 0:
                return j
    raise TranslateError("unbalanced braces")


def op_shapes(lib_rs):
    """NAME -> list of field types from impl_instructions!"""
    shapes = {}
    for m in re.finditer(r"(?m)^\s*0x([0-9a-fA-F]{2})\s+([A-Z0-9]+)\s+\w+\s+\[([^\]]*)\]", lib_rs):
        fields = re.findall(r"\w+\s*:\s*(\w+)", m.group(3))
        shapes[m.group(2)] = (int(m.group(1), 16), fields)
    return shapes


def handler_bodies(src):
    out = {}
    for m in re.finditer(r"impl<M, S, Tx, Ecal, V> Execute<M, S, Tx, Ecal, V>\s+for fuel_asm::op::(\w+)", src):
        name = m.group(1)
        k = src.index("fn execute", m.end())
        k = src.index("{", src.index("->", k))
        e = match_brace(src, k)
        if name in out:
            raise TranslateError("two handlers for " + name)
        out[name] = src[k + 1:e]
    return out


def split_stmts(body):
    """split a normalised body on top-level ';'"""
    out, d, cur = [], 0, ""
    for ch in body:
        if ch in "({[":
            d += 1
        elif ch in ")}]":
            d -= 1
        if ch == ";" and d == 0:
            out.append(cur.strip()); cur = ""
        else:
            cur += ch
    if cur.strip():
        out.append(cur.strip())
    return out


def split_args(s):
    out, d, cur = [], 0, ""
    for ch in s:
        if ch in "({[":
            d += 1
        elif ch in ")}]":
            d -= 1
        if ch == "," and d == 0:
            out.append(cur.strip()); cur = ""
        else:
            cur += ch
    if cur.strip():
        out.append(cur.strip())
    return out


SRC = {"<RB>": "SRegB", "<RC>": "SRegC", "<RD>": "SRegD"}
# an operand expression (after tokenisation of register reads)
OPND = r"(<R[BCD]>(?:\.into\(\))?|Word::from\(<IMM>\)|u32::from\(<IMM>\)|<IMM>\.into\(\))"


def source(e, name):
    e = e.strip()
    if e in SRC:
        return SRC[e]
    m = re.fullmatch(r"(<R[BCD]>)\.into\(\)", e)
    if m:
        return SRC[m.group(1)]
    if e in ("<IMM>.into()", "Word::from(<IMM>)", "u32::from(<IMM>)"):
        return "SImm"
    raise TranslateError("%s: operand expression not understood: %r" % (name, e))


def translate_handler(name, body, shape):
    b = norm(strip_comments(body))
    stmts = split_stmts(b)
    if not stmts or stmts[-1] != "Ok(ExecuteState::Proceed)":
        raise TranslateError("%s: handler does not end in Ok(ExecuteState::Proceed)" % name)
    stmts = stmts[:-1]
    # 1. gas is charged first
    m = re.fullmatch(r"interpreter\.gas_charge\(interpreter\.gas_costs\(\)\.(\w+)\(\)(\.map_err\(PanicReason::from\)\?)?\)\?", stmts[0])
    if not m:
        raise TranslateError("%s: first statement is not a gas charge: %r" % (name, stmts[0]))
    gas_sel = m.group(1)
    stmts = stmts[1:]
    # 2. unpack
    env = {}
    if shape:
        m = re.fullmatch(r"let ?\(?([\w,]+)\)? ?= ?self\.unpack\(\)", stmts[0]) if stmts else None
        if not m:
            raise TranslateError("%s: expected `let (..) = self.unpack()`: %r" % (name, stmts[:1]))
        names = m.group(1).split(",")
        if len(names) != len(shape):
            raise TranslateError("%s: unpack arity %d != shape %s" % (name, len(names), shape))
        regpos = 0
        for n, ty in zip(names, shape):
            if ty == "RegId":
                env[n] = "ABCD"[regpos]; regpos += 1
            elif ty.startswith("Imm"):
                env[n] = "IMM"
            else:
                raise TranslateError("%s: field type %s" % (name, ty))
        stmts = stmts[1:]
    text = ";".join(stmts)
    # tokenise register reads and bare names
    for n, pos in env.items():
        if pos != "IMM":
            text = re.sub(r"interpreter\.registers\[%s\]" % re.escape(n), "<R%s>" % pos, text)
    stmts = text.split(";") if text else []
    stmts = split_stmts(text)
    # sequential let-substitution (later bindings may shadow unpacked names)
    binds = dict((n, "<%s>" % ("IMM" if p == "IMM" else p)) for n, p in env.items())
    decoder = None

    def subst(e):
        for n, v in binds.items():
            e = re.sub(r"(?<![\w<])%s(?![\w>])" % re.escape(n), lambda _m, v=v: v, e)
        return e
    call = None
    for st in stmts:
        m = re.fullmatch(r"let (\w+) ?= ?(.*)", st)
        m2 = re.fullmatch(r"let ?\((\w+),(\w+)\) ?= ?\((.*)\)", st)
        if m2:
            es = split_args(m2.group(3))
            if len(es) != 2:
                raise TranslateError("%s: tuple let: %r" % (name, st))
            v1, v2 = subst(es[0]), subst(es[1])
            binds[m2.group(1)], binds[m2.group(2)] = v1, v2
        elif m:
            rhs = subst(m.group(2))
            md = re.fullmatch(r"(narrowint|wideint)::(\w+)::from_imm\(<IMM>\)\.ok_or\(PanicReason::InvalidImmediateValue\)\?", rhs)
            if md:
                decoder = md.group(1) + "::" + md.group(2)
                binds[m.group(1)] = "<ARGS>"
            else:
                binds[m.group(1)] = rhs
        else:
            if call is not None:
                raise TranslateError("%s: more than one effect statement: %r" % (name, st))
            call = st
    if call is None:
        raise TranslateError("%s: no helper call" % name)
    # closures bind their own names: do not substitute inside `|l, r| {...}`
    clos = re.search(r"\|(\w+),(\w+)\|\{(.*?)\}", call)
    closure = None
    if clos:
        closure = (clos.group(1), clos.group(2), clos.group(3))
        call = call[:clos.start()] + "<CLOSURE>" + call[clos.end():]
    # `if let Ok(c) = ...` binds a fresh name as well
    iflet = re.search(r"if let Ok\((\w+)\) ?= ?(.*?)\.try_into\(\)\{(.*?)\}else\{0\}", call)
    shift = None
    if iflet:
        inner_name = iflet.group(1)
        scrut = subst(iflet.group(2))
        saved = binds.pop(inner_name, None)
        inner = subst(iflet.group(3))
        if saved is not None:
            binds[inner_name] = saved
        mm = re.fullmatch(r"Word::checked_(shl|shr)\((<R[BCD]>),%s\)\.unwrap_or_default\(\)" % re.escape(inner_name), inner)
        if not mm:
            raise TranslateError("%s: shift body not understood: %r" % (name, inner))
        shift = ("E_%s_reg" % mm.group(1), source(mm.group(2), name), source(scrut, name))
        call = call[:iflet.start()] + "<SHIFT>" + call[iflet.end():]
    call = subst(call)
    m = re.fullmatch(r"interpreter\.(\w+)\((.*)\)\?", call)
    if not m:
        raise TranslateError("%s: helper call not understood: %r" % (name, call))
    helper, args = m.group(1), split_args(m.group(2))

    def need(cond, what):
        if not cond:
            raise TranslateError("%s: %s (call %r)" % (name, what, call))

    if helper == "alu_capture_overflow":
        need(len(args) == 4 and args[0] == "<A>", "alu_capture_overflow(a, f, b, c)")
        mf = re.fullmatch(r"u128::(overflowing_add|overflowing_sub|overflowing_mul)", args[1])
        need(mf, "operator")
        kind = "K_capture F_%s %s %s" % (mf.group(1), source(args[2], name), source(args[3], name))
    elif helper == "alu_boolean_overflow":
        need(len(args) == 4 and args[0] == "<A>", "alu_boolean_overflow(a, f, b, c)")
        f = {"alu::exp": "F_alu_exp", "Word::overflowing_pow": "F_overflowing_pow"}.get(args[1])
        need(f, "operator")
        kind = "K_boolean %s %s %s" % (f, source(args[2], name), source(args[3], name))
    elif helper == "alu_error":
        need(len(args) == 5 and args[0] == "<A>", "alu_error(a, f, b, c, cond)")
        if args[1] == "<CLOSURE>":
            l, r, cb = closure
            if re.fullmatch(r"%s\.checked_ilog\(%s\)\.expect\(\"[^\"]*\"\)as Word" % (l, r), cb):
                f = "F_checked_ilog"
            elif re.fullmatch(r"checked_nth_root\(%s,%s\)\.expect\(\"[^\"]*\"\)as Word" % (l, r), cb):
                f = "F_checked_nth_root"
            else:
                raise TranslateError("%s: closure not understood: %r" % (name, cb))
        else:
            f = {"Word::div": "F_div", "Word::wrapping_rem": "F_wrapping_rem"}.get(args[1])
            need(f, "operator")
        sb, sc = source(args[2], name), source(args[3], name)
        mz = re.fullmatch(OPND + r" ?== ?0", args[4])
        ml = re.fullmatch(OPND + r" ?== ?0 ?\|\| ?" + OPND + r" ?<= ?1", args[4])
        if ml:
            cond = "(C_log %s %s)" % (source(ml.group(1), name), source(ml.group(2), name))
        elif mz:
            cond = "(C_is_zero %s)" % source(mz.group(1), name)
        else:
            raise TranslateError("%s: error condition not understood: %r" % (name, args[4]))
        kind = "K_error %s %s %s %s" % (f, sb, sc, cond)
    elif helper == "alu_set":
        need(len(args) == 2 and args[0] == "<A>", "alu_set(a, e)")
        e = args[1]
        if e == "<SHIFT>":
            kind = "K_set (%s %s %s)" % shift
        else:
            mb = re.fullmatch(OPND + r" ?([&|^]) ?" + OPND, e)
            mc = re.fullmatch(r"\(" + OPND + r" ?(==|>|<) ?" + OPND + r"\) ?as Word", e)
            mn = re.fullmatch(r"!" + OPND, e)
            ms = re.fullmatch(r"(<R[BCD]>)\.checked_(shl|shr)\((.+)\)\.unwrap_or_default\(\)", e)
            if ms:
                kind = "K_set (E_%s_imm %s %s)" % (ms.group(2), source(ms.group(1), name), source(ms.group(3), name))
            elif mc:
                kind = "K_set (%s %s %s)" % ({"==": "E_eq", ">": "E_gt", "<": "E_lt"}[mc.group(2)],
                                           source(mc.group(1), name), source(mc.group(3), name))
            elif mb:
                kind = "K_set (%s %s %s)" % ({"&": "E_and", "|": "E_or", "^": "E_xor"}[mb.group(2)],
                                           source(mb.group(1), name), source(mb.group(3), name))
            elif mn:
                kind = "K_set (E_not %s)" % source(mn.group(1), name)
            else:
                kind = "K_set (E_src %s)" % source(e, name)
    elif helper == "alu_clear":
        need(args == [], "alu_clear()")
        kind = "K_clear"
    elif helper == "alu_muldiv":
        need(len(args) == 4 and args[0] == "<A>", "alu_muldiv(a, b, c, d)")
        kind = "K_muldiv %s %s %s" % tuple(source(a, name) for a in args[1:])
    elif helper == "alu_narrowint_op":
        need(len(args) == 4 and args[0] == "<A>" and args[3] == "<ARGS>" and decoder == "narrowint::MathArgs",
             "narrowint::MathArgs::from_imm(imm)?; alu_narrowint_op(a, b, c, args)")
        kind = "K_narrow %s %s" % (source(args[1], name), source(args[2], name))
    else:
        mw = re.fullmatch(r"alu_wideint_(cmp|op|mul|div|muldiv|addmod|mulmod)_(u128|u256)", helper)
        need(mw, "unknown helper " + helper)
        what, w = mw.group(1), {"u128": "W128", "u256": "W256"}[mw.group(2)]
        if what in ("cmp", "op", "mul", "div"):
            want_dec = {"cmp": "wideint::CompareArgs", "op": "wideint::MathArgs", "mul": "wideint::MulArgs", "div": "wideint::DivArgs"}[what]
            first = "<A>" if what == "cmp" else "<RA>"
            need(args == [first, "<RB>", "<RC>", "<ARGS>"] and decoder == want_dec,
                 "%s::from_imm(imm)?; %s(%s, r[b], r[c], args)" % (want_dec, helper, first))
        else:
            need(args == ["<RA>", "<RB>", "<RC>", "<RD>"] and decoder is None, "%s(r[a], r[b], r[c], r[d])" % helper)
        kind = "K_w%s %s" % (what, w)
    return gas_sel, kind


def enum_discriminants(src, enum_name):
    m = re.search(r"pub enum %s\s*\{" % enum_name, src)
    if not m:
        raise TranslateError("enum %s not found" % enum_name)
    e = match_brace(src, m.end() - 1)
    body = strip_comments(src[m.end():e])
    items = re.findall(r"(\w+)\s*=\s*(0x[0-9a-fA-F]+|\d+)\s*,", body)
    if not items:
        raise TranslateError("enum %s: no discriminants" % enum_name)
    return [(n, int(v, 0)) for n, v in items]


def coq_enum_table(fname, ty, prefix, items, expected):
    names = [n for n, _ in items]
    if sorted(names) != sorted(expected):
        raise TranslateError("%s: variants %s differ from the modelled set %s" % (fname, names, expected))
    lines = ["Definition %s (n : N) : option %s :=\n  match n with" % (fname, ty)]
    for n, v in items:
        lines.append("  | %d => Some %s%s" % (v, prefix, n))
    lines.append("  | _ => None\n  end.")
    return "\n".join(lines)


def generate(repo):
    rd = lambda p: open(os.path.join(repo, p)).read()
    impl = rd("fuel-vm/src/interpreter/executors/opcodes_impl.rs")
    lib = rd("fuel-asm/src/lib.rs")
    shapes = op_shapes(strip_comments(lib))
    bodies = handler_bodies(impl)
    out = ["(* GENERATED by tools/gen_alutable.py from the Rust sources — do not edit. *)",
           "From FV Require Import Alu.AluSyntax.", "Open Scope N_scope.", ""]
    rows, gas_rows, byte_rows = [], [], []
    for op in ALU_OPS:
        if op not in bodies:
            raise TranslateError("no `impl Execute for fuel_asm::op::%s`" % op)
        if op not in shapes:
            raise TranslateError("opcode %s not in impl_instructions!" % op)
        byte, shape = shapes[op]
        gas, kind = translate_handler(op, bodies[op], shape)
        rows.append("  | O_%s => %s" % (op, kind))
        gas_rows.append('  | O_%s => "%s"' % (op, gas))
        byte_rows.append("  | O_%s => %d" % (op, byte))
    out.append("(* handler shape of every ALU opcode (opcodes_impl.rs) *)")
    out.append("Definition alu_table (o : alu_op) : kind :=\n  match o with\n" + "\n".join(rows) + "\n  end.\n")
    out.append("(* gas-cost selector charged as the FIRST statement of each handler *)")
    out.append("Definition alu_gas_selector (o : alu_op) : string :=\n  match o with\n" + "\n".join(gas_rows) + "\n  end%string.\n")
    out.append("(* opcode byte (fuel-asm impl_instructions!) *)")
    out.append("Definition alu_opcode_byte (o : alu_op) : N :=\n  match o with\n" + "\n".join(byte_rows) + "\n  end.\n")
    # immediates
    nar = strip_comments(rd("fuel-asm/src/args/narrowint.rs"))
    wid = strip_comments(rd("fuel-asm/src/args/wideint.rs"))
    # wideint.rs and narrowint.rs both define `MathOp`
    out.append("(* fuel-asm/src/args/narrowint.rs: strum::FromRepr tables *)")
    out.append(coq_enum_table("narrow_mathop_from_repr", "narrow_mathop", "NM_", enum_discriminants(nar, "MathOp"),
                              ["ADD", "SUB", "MUL", "EXP", "SLL", "XNOR"]))
    out.append(coq_enum_table("narrow_width_from_repr", "narrow_width", "NW_", enum_discriminants(nar, "OpWidth"),
                              ["U8", "U16", "U32"]))
    out.append("\n(* fuel-asm/src/args/wideint.rs *)")
    out.append(coq_enum_table("compare_mode_from_repr", "compare_mode", "CM_", enum_discriminants(wid, "CompareMode"),
                              ["EQ", "NE", "LT", "GT", "LTE", "GTE", "LZC"]))
    out.append(coq_enum_table("wide_mathop_from_repr", "wide_mathop", "WM_", enum_discriminants(wid, "MathOp"),
                              ["ADD", "SUB", "NOT", "OR", "XOR", "AND", "SHL", "SHR"]))
    # panic reasons
    pr = dict(enum_discriminants(strip_comments(rd("fuel-asm/src/panic_reason.rs")), "PanicReason"))
    rows = []
    for r in REASONS:
        if r not in pr:
            raise TranslateError("PanicReason::%s not found" % r)
        rows.append("  | %s => %d" % (r, pr[r]))
    out.append("\n(* fuel-asm/src/panic_reason.rs *)")
    out.append("Definition reason_code (r : reason) : N :=\n  match r with\n" + "\n".join(rows) + "\n  end.")
    # registers
    out.append("\n(* fuel-asm/src/lib.rs: impl RegId *)")
    for r in REGS:
        m = re.search(r"pub const %s: Self = Self\((0x[0-9a-fA-F]+|\d+)\);" % r, lib)
        if not m:
            raise TranslateError("RegId::%s not found" % r)
        out.append("Definition REG_%s : N := %d." % (r, int(m.group(1), 0)))
    # flags
    for f in ["UNSAFEMATH", "WRAPPING"]:
        m = re.search(r"const %s = (0x[0-9a-fA-F]+|\d+);" % f, lib)
        if not m:
            raise TranslateError("Flags::%s not found" % f)
        v = int(m.group(1), 0)
        if v & (v - 1) or v == 0:
            raise TranslateError("Flags::%s is not a single bit" % f)
        out.append("Definition FLAG_%s_BIT : N := %d." % (f, v.bit_length() - 1))
    # memory size
    consts = strip_comments(rd("fuel-vm/src/consts.rs"))
    m = re.search(r"pub const FUEL_MAX_MEMORY_SIZE: u64 = (\d+);", consts)
    m2 = re.search(r"pub const VM_MAX_RAM: u64 = 1024 \* 1024 \* FUEL_MAX_MEMORY_SIZE;", consts)
    m3 = re.search(r"pub const MEM_SIZE: usize = VM_MAX_RAM as usize;", consts)
    if not (m and m2 and m3):
        raise TranslateError("consts.rs: VM_MAX_RAM / MEM_SIZE definitions not understood")
    out.append("\n(* fuel-vm/src/consts.rs *)")
    out.append("Definition VM_MAX_RAM : N := %d.\nDefinition MEM_SIZE : N := VM_MAX_RAM." % (1024 * 1024 * int(m.group(1))))
    m = re.search(r"pub const SIZE: usize = (\d+);", strip_comments(rd("fuel-asm/src/lib.rs")))
    isz = None
    if m:
        isz = int(m.group(1))
    else:
        # `size_of::<Instruction>()`: an enum of 3-byte op structs plus its tag; the value 4 is
        # not derivable from syntax alone and is confirmed by every correspondence case (pc' = pc + 4)
        m = re.search(r"pub const SIZE: usize = core::mem::size_of::<Instruction>\(\);", lib)
        if m and re.search(r"pub type RawInstruction = u32;", lib):
            isz = 4
    if isz is None:
        raise TranslateError("Instruction::SIZE not understood")
    out.append("Definition INSTRUCTION_SIZE : N := %d." % isz)
    return {"Gen/AluTable.v": "\n".join(out) + "\n"}


if __name__ == "__main__":
    repo = sys.argv[1] if len(sys.argv) > 1 else "/repo"
    for k, v in generate(repo).items():
        sys.stdout.write(v)
