#!/bin/bash
# Confirm a seeded change in a scratch worktree (never /repo):
#   tools/confirm_seed.sh <dir with patch.diff, demo/, meta.json> <label e.g. C10-m1>
# 1. patch applies to current /repo HEAD   2. existing workspace tests pass with it
# 3. demo FAILS with the patch             4. demo PASSES without it
# On success copies the directory to /verif/seeded/<label>/ and writes confirm.json there.
set -u
SRC=$(readlink -f "$1"); LABEL=$2; WT=${CONFIRM_WT:-/tmp/confirm}
LOG=/tmp/confirm-logs/$LABEL; mkdir -p "$LOG"
if [ ! -d $WT ]; then git -C /repo worktree add --detach $WT HEAD -q; fi
git -C $WT checkout -q --detach $(git -C /repo rev-parse HEAD); git -C $WT checkout -- .; git -C $WT clean -fdq -e target
cd $WT
git apply --check "$SRC/patch.diff" 2>"$LOG/apply.err" || { echo "$LABEL: PATCH DOES NOT APPLY"; cat "$LOG/apply.err"; exit 3; }
git apply "$SRC/patch.diff"
export CARGO_NET_OFFLINE=true
# which crates does the demo need?  run.sh is written for the agent's worktree; we re-implement: copy demo test files
DEMO_CMD=$(python3 -c "import json;print(json.load(open('$SRC/meta.json')).get('demo_cmd',''))")
echo "demo_cmd: $DEMO_CMD" > "$LOG/info.txt"
# 2. existing tests (whole workspace, test-threads limited to avoid the 5 s wall-clock test flaking under load)
( timeout 7200 cargo test --workspace --offline --no-fail-fast -- --test-threads=6 > "$LOG/suite.log" 2>&1 ); SUITE_RC=$?
FAILED=$(grep -E "^test .* FAILED$" "$LOG/suite.log" | sort -u | head -20)
# the only wall-clock-sensitive test of the suite (5 s ntest timeout) flakes when the machine is
# oversubscribed: if it is the ONLY failure, re-run it alone and accept the suite if it passes
FLAKY="tests::predicate::synchronous_estimate_predicates_respects_total_tx_gas_limit"
if [ $SUITE_RC -ne 0 ] && [ "$(echo "$FAILED" | grep -c FAILED)" = "1" ] && echo "$FAILED" | grep -q "$FLAKY"; then
  if ( timeout 1800 cargo test -p fuel-vm --offline --lib -- "$FLAKY" > "$LOG/flaky_rerun.log" 2>&1 ) && \
     ( timeout 3600 cargo test --workspace --offline --no-fail-fast --exclude fuel-vm -- --test-threads=6 > "$LOG/suite_rest.log" 2>&1 ) && \
     ( timeout 1800 cargo test -p fuel-vm --offline --doc > "$LOG/suite_vmdoc.log" 2>&1 ); then
    SUITE_RC=0; FAILED=""; echo "(flaky timeout test failed under load in the full run; passed alone; rest of the workspace re-run separately and passed)"
  fi
fi
# 3. demo with patch
( cd $WT && bash "$SRC/demo/run.sh" $WT > "$LOG/demo_with.log" 2>&1 ); DEMO_WITH=$?
# 4. demo without patch
git apply -R "$SRC/patch.diff"
( cd $WT && bash "$SRC/demo/run.sh" $WT > "$LOG/demo_without.log" 2>&1 ); DEMO_WITHOUT=$?
git -C $WT checkout -- .; git -C $WT clean -fdq -e target
OK=false
if [ $SUITE_RC -eq 0 ] && [ $DEMO_WITH -ne 0 ] && [ $DEMO_WITHOUT -eq 0 ]; then OK=true; fi
echo "$LABEL: suite_rc=$SUITE_RC demo_with_patch_rc=$DEMO_WITH demo_without_patch_rc=$DEMO_WITHOUT confirmed=$OK"
[ -n "$FAILED" ] && echo "failed tests: $FAILED"
if $OK; then
  mkdir -p /verif/seeded/$LABEL; cp -r "$SRC/patch.diff" "$SRC/demo" "$SRC/meta.json" /verif/seeded/$LABEL/
  python3 - <<PY
import json
json.dump({"label":"$LABEL","repo_head":"$(git -C /repo rev-parse --short HEAD)","suite_cmd":"cargo test --workspace --offline --no-fail-fast -- --test-threads=6","suite_rc":$SUITE_RC,
 "demo_with_patch_rc":$DEMO_WITH,"demo_without_patch_rc":$DEMO_WITHOUT,"confirmed":True}, open("/verif/seeded/$LABEL/confirm.json","w"), indent=1)
PY
fi
