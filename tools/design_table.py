#!/usr/bin/env python3
"""Print the as-built per-property table (markdown) from tools/props.d."""
import sys, os, json
sys.path.insert(0, os.path.dirname(os.path.abspath(__file__)))
import props
print("| id | family / harness | theorems (all `Closed under the global context` unless noted) | open statements | translators |")
print("|---|---|---|---|---|")
for pid in sorted(props.PROPS):
    P = props.PROPS[pid]
    th = ", ".join("`%s`" % t for t in P["theorems"])
    op = "; ".join(o.split(":")[0] for o in P.get("open_statements", [])) or "–"
    ax = P.get("allowed_axioms")
    if ax: th += " (axioms allowed: %s)" % ", ".join(ax)
    print("| %s | %s / %s | %d: %s | %s | %s |" % (pid, P["family"], P.get("harness", "-"), len(P["theorems"]), th, op, ", ".join(P.get("translators", [])) or "–"))
