#!/usr/bin/env python3
"""gen_kvtable.py — translator for C30 / C33: regenerates coq/Gen/KvTable.v from

  fuel-asm/src/lib.rs                  opcode bytes + argument shapes (impl_instructions!),
                                       Opcode::is_predicate_allowed (the list of opcodes a predicate may run)
  fuel-asm/src/panic_reason.rs         reason bytes
  fuel-vm/src/interpreter/executors/opcodes_impl.rs
                                       for every storage instruction handler: the ORDER in which it reads the key,
                                       asks for the current contract, reads / writes / clears slots, touches memory
                                       and result registers ("fingerprint": ordered list of recognised atoms)
  fuel-vm/src/interpreter/storage.rs   same for storage_read_slot, storage_slot_len_no_gas, storage_write_slot,
                                       storage_clear_slot_range, storage_read_to_memory, storage_write_from_memory,
                                       storage_update_from_memory, dynamic_storage_*, storage_preload, key_range
  fuel-vm/src/interpreter/{flow,blockchain,contract}.rs
                                       for every function that touches contract code / balances: the order of the
                                       input-contract check relative to the storage accesses
  fuel-vm/src/verification.rs          the Normal verifier's check
  fuel-vm/src/storage/predicate.rs     PredicateStorage: contract tables refuse every operation
  fuel-vm/src/interpreter/executors/instruction.rs   the predicate gate in instruction_inner
  fuel-vm/src/interpreter/initialization.rs          input_contracts := contract inputs; slot cache cleared

The hand-written models (Vm/KvModel.v, Vm/InputsModel.v) state the fingerprints they were written against
(Vm/KvTie.v, Vm/InputsTie.v: `Example ... = [...]. reflexivity.`): a reordered or new check in the Rust code makes
a proof obligation fail.  Raises on syntax it does not understand."""
import re, os


class TranslateError(Exception):
    pass


def read(repo, rel):
    return open(os.path.join(repo, rel)).read()


def strip_comments(src):
    src = re.sub(r"//[^\n]*", "", src)
    src = re.sub(r"/\*.*?\*/", "", src, flags=re.S)
    return src


def parse_optable(repo):
    src = read(repo, "fuel-asm/src/lib.rs")
    m = re.search(r"impl_instructions!\s*\{(.*?)\n\}", src, re.S)
    if not m:
        raise TranslateError("impl_instructions! block not found")
    ops = []
    for mm in re.finditer(r"(0x[0-9a-fA-F]{2})\s+([A-Z0-9]+)\s+(\w+)\s+\[([^\]]*)\]", m.group(1)):
        byte, name, fn, args = mm.groups()
        fields = re.findall(r"(\w+)\s*:\s*(\w+)", args)
        ops.append((int(byte, 16), name, [ty for _, ty in fields]))
    if len(ops) < 100:
        raise TranslateError("only %d opcodes parsed" % len(ops))
    return ops


def predicate_allowed(repo, opnames):
    src = strip_comments(read(repo, "fuel-asm/src/lib.rs"))
    m = re.search(r"pub fn is_predicate_allowed\(&self\) -> bool \{\s*use Opcode::\*;\s*match self \{(.*?)=> true,\s*_ => false,\s*\}\s*\}", src, re.S)
    if not m:
        raise TranslateError("Opcode::is_predicate_allowed no longer has the shape `match self { A | B | .. => true, _ => false }`")
    names = [x.strip() for x in m.group(1).split("|") if x.strip()]
    for n in names:
        if n not in opnames:
            raise TranslateError("is_predicate_allowed names unknown opcode %r" % n)
    return names


def balanced_body(src, start):
    """text of the `{...}` block starting at the first `{` at or after start"""
    i = src.index("{", start)
    depth, k = 0, i
    while True:
        if src[k] == "{":
            depth += 1
        elif src[k] == "}":
            depth -= 1
            if depth == 0:
                return src[i + 1:k]
        k += 1


def fn_body(src, name, which=0):
    """body of the `which`-th `fn name(` / `fn name<` definition in src"""
    ms = list(re.finditer(r"\bfn\s+%s\s*[<(]" % re.escape(name), src))
    if len(ms) <= which:
        raise TranslateError("function %s (#%d) not found" % (name, which))
    # skip the parameter list and return type: the body starts at the first `{` after the matching `)`
    i = src.index("(", ms[which].start())
    depth, k = 0, i
    while True:
        if src[k] == "(":
            depth += 1
        elif src[k] == ")":
            depth -= 1
            if depth == 0:
                break
        k += 1
    # where-clauses may contain `{`? (they do not in this code base); the body is the next balanced block
    return balanced_body(src, k)


def handler_body(src, opname):
    m = re.search(r"impl<M, S, Tx, Ecal, V> Execute<M, S, Tx, Ecal, V> for fuel_asm::op::%s\b" % opname, src)
    if not m:
        raise TranslateError("no Execute impl for %s" % opname)
    j = src.index("fn execute(", m.end())
    return fn_body(src[j:], "execute")


# atoms recognised inside bodies, in priority order (first match at a position wins)
KV_ATOMS = [
    ("gas_charge", r"\.gas_charge\("),
    ("dependent_gas_charge", r"\.dependent_gas_charge\("),
    ("read_key", r"\.read_bytes\("),
    ("to_usize", r"convert::to_usize\("),
    ("internal_contract", r"\.internal_contract\(\)"),
    ("ownership_registers", r"\.ownership_registers\(\)"),
    ("a_eq_b", r"\ba == b\b"),
    ("key_range", r"\bkey_range\("),
    ("too_many_slots", r"PanicReason::TooManySlots"),
    ("storage_out_of_bounds", r"PanicReason::StorageOutOfBounds"),
    ("memory_overflow", r"PanicReason::MemoryOverflow"),
    ("storage_read_slot", r"\.storage_read_slot\b"),
    ("storage_slot_len_no_gas", r"\.storage_slot_len_no_gas\("),
    ("storage_write_slot_from_memory", r"\.storage_write_slot_from_memory\("),
    ("storage_write_slot", r"\.storage_write_slot\("),
    ("storage_clear_slot_range", r"\.storage_clear_slot_range\("),
    ("storage_read_to_memory", r"\.storage_read_to_memory\("),
    ("storage_write_from_memory", r"\.storage_write_from_memory\("),
    ("storage_update_from_memory", r"\.storage_update_from_memory\("),
    ("dynamic_storage_read", r"\.dynamic_storage_read\("),
    ("dynamic_storage_write", r"\.dynamic_storage_write\("),
    ("dynamic_storage_update", r"\.dynamic_storage_update\("),
    ("storage_preload", r"\.storage_preload\("),
    ("cache_get", r"storage_slot_cache\s*\.get\("),
    ("cache_insert", r"storage_slot_cache\s*\.insert\("),
    ("read_alloc", r"::read_alloc\("),
    ("contract_state_insert", r"\.contract_state_insert\("),
    ("contract_state_remove_range", r"\.contract_state_remove_range\("),
    ("max_storage_slot_length", r"max_storage_slot_length"),
    ("checked_add", r"\.checked_add\("),
    ("saturating_add", r"\.saturating_add\("),
    ("u64_max", r"u64::MAX"),
    ("resize", r"\.resize\("),
    ("mem_write", r"memory\s*\.write\("),
    ("mem_read", r"\.read\(src_ptr|memory\s*\.read\("),
    ("copy_from_slice", r"\.copy_from_slice\("),
    ("fill0", r"\.fill\(0\)"),
    ("write_user_register_legacy", r"\.write_user_register_legacy\("),
    ("write_user_register", r"\.write_user_register\("),
    ("set_err", r"registers\[RegId::ERR\]\s*="),
    ("inc_pc", r"\binc_pc\("),
]

IN_ATOMS = [
    ("is_predicate", r"\.is_predicate\(\)"),
    ("read_bytes", r"\.read_bytes\("),
    ("mem_read", r"memory\s*\.read\("),
    ("mem_write", r"memory\s*\.write\(|\.write_noownerchecks\("),
    ("check_contract_in_inputs", r"\.check_contract_in_inputs\("),
    ("contract_size", r"\bcontract_size\("),
    ("blob_size", r"\bblob_size\("),
    ("internal_contract", r"\binternal_contract\("),
    ("current_contract", r"self\.current_contract\b"),
    ("balance_decrease", r"\bbalance_decrease\("),
    ("balance_increase", r"\bbalance_increase\("),
    ("balance_read", r"\bbalance\(\s*self\.storage|\bbalance\(self\.storage"),
    ("balance_insert", r"\.contract_asset_id_balance_insert\("),
    ("balance_replace", r"\.contract_asset_id_balance_replace\("),
    ("external_balance_sub", r"\bexternal_asset_id_balance_sub\(|\bbase_asset_balance_sub\("),
    ("copy_from_storage", r"\bcopy_from_storage_zero_fill::<(\w+)"),
    ("storage_contract", r"\.storage_contract\("),
    ("code_read_exact", r"\.read_exact\("),
    ("transfer_zero_coins", r"PanicReason::TransferZeroCoins"),
    ("frames_push", r"\.frames\s*\.push\("),
    ("frames_pop", r"\.frames\s*\.pop\(\)"),
    ("inc_pc", r"\binc_pc\("),
]


def fingerprint(body, atoms):
    body = strip_comments(body)
    hits = []
    for name, rx in atoms:
        for m in re.finditer(rx, body):
            nm = name
            if name == "copy_from_storage":
                nm = "copy_from_storage_" + m.group(1)
            hits.append((m.start(), -len(m.group(0)), nm))
    hits.sort()
    out, last_end = [], -1
    for pos, neglen, nm in hits:
        if pos < last_end:
            continue  # inside a longer match (e.g. storage_write_slot inside storage_write_slot_from_memory)
        out.append(nm)
        last_end = pos - neglen
    return out


STORAGE_OPS = {
    "SCWQ": ["RegId", "RegId", "RegId"], "SRW": ["RegId", "RegId", "RegId", "Imm06"], "SRWQ": ["RegId"] * 4,
    "SWW": ["RegId"] * 3, "SWWQ": ["RegId"] * 4, "SCLR": ["RegId", "RegId"], "SRDD": ["RegId"] * 4,
    "SRDI": ["RegId", "RegId", "RegId", "Imm06"], "SWRD": ["RegId"] * 3, "SWRI": ["RegId", "RegId", "Imm12"],
    "SUPD": ["RegId"] * 4, "SUPI": ["RegId", "RegId", "RegId", "Imm06"], "SPLD": ["RegId", "RegId"],
}
STORAGE_FNS = ["storage_read_slot", "storage_slot_len_no_gas", "storage_write_slot", "storage_write_slot_from_memory",
               "storage_clear_slot_range", "storage_read_to_memory", "storage_write_from_memory",
               "storage_update_from_memory", "dynamic_storage_read", "dynamic_storage_write", "dynamic_storage_update",
               "storage_preload", "key_range"]
# (file, function, occurrence) whose order of checks the inputs model mirrors
INPUT_FNS = [
    ("fuel-vm/src/interpreter/flow.rs", "prepare_call", 1, "prepare_call"),
    ("fuel-vm/src/interpreter/blockchain.rs", "load_contract_code", 1, "load_contract_code"),
    ("fuel-vm/src/interpreter/blockchain.rs", "load_blob_code", 0, "load_blob_code"),
    ("fuel-vm/src/interpreter/blockchain.rs", "code_copy", 1, "code_copy"),
    ("fuel-vm/src/interpreter/blockchain.rs", "code_root", 1, "code_root"),
    ("fuel-vm/src/interpreter/blockchain.rs", "code_size", 1, "code_size"),
    ("fuel-vm/src/interpreter/blockchain.rs", "burn", 1, "burn"),
    ("fuel-vm/src/interpreter/blockchain.rs", "mint", 1, "mint"),
    ("fuel-vm/src/interpreter/blockchain.rs", "message_output", 1, "message_output"),
    ("fuel-vm/src/interpreter/contract.rs", "contract_balance", 1, "contract_balance"),
    ("fuel-vm/src/interpreter/contract.rs", "transfer", 1, "transfer"),
    ("fuel-vm/src/interpreter/contract.rs", "transfer_output", 1, "transfer_output"),
]


def coq_strs(xs):
    return "[" + "; ".join('"%s"' % x for x in xs) + "]"


def check_fixed_text(repo):
    """pieces of Rust the models rely on verbatim"""
    ver = re.sub(r"\s+", "", strip_comments(read(repo, "fuel-vm/src/verification.rs")))
    if "ifinput_contracts.contains(contract_id){Ok(())}else{*panic_context=PanicContext::ContractId(*contract_id);Err(PanicReason::ContractNotInInputs.into())}" not in ver:
        raise TranslateError("verification.rs: Normal::check_contract_in_inputs changed")
    ins = re.sub(r"\s+", "", strip_comments(read(repo, "fuel-vm/src/interpreter/executors/instruction.rs")))
    if "ifPREDICATE&&!opcode.is_predicate_allowed(){returnErr(PanicReason::ContractInstructionNotAllowed.into())}execute_instruction(self,opcode,[raw[1],raw[2],raw[3]])" not in ins:
        raise TranslateError("instruction.rs: the predicate gate of instruction_inner changed")
    ini = re.sub(r"\s+", "", strip_comments(read(repo, "fuel-vm/src/interpreter/initialization.rs")))
    if "self.input_contracts=self.tx.inputs().iter().filter_map(|i|matchi{Input::Contract(contract)=>Some(contract.contract_id),_=>None,}).collect();" not in ini:
        raise TranslateError("initialization.rs: input_contracts is no longer the set of contract inputs")
    if "self.storage_slot_cache.clear();" not in ini:
        raise TranslateError("initialization.rs: the slot cache is no longer cleared per transaction")
    internal = re.sub(r"\s+", "", strip_comments(read(repo, "fuel-vm/src/interpreter/internal.rs")))
    if "ifcontext.is_internal(){Ok(Some(ContractId::new(memory.read_bytes(*fp)?)))}else{Ok(None)}" not in internal:
        raise TranslateError("internal.rs: current_contract changed")
    if "current_contract(context,fp,memory)?.ok_or(PanicReason::ExpectedInternalContext)" not in internal:
        raise TranslateError("internal.rs: internal_contract changed")
    for fn, legacy in (("write_user_register_legacy", True), ("write_user_register", False)):
        body = re.sub(r"\s+", "", fn_body(strip_comments(read(repo, "fuel-vm/src/interpreter/internal.rs")), fn))
        want = "ifreg<RegId::WRITABLE{returnErr(PanicReason::ReservedRegisterNotWritable.into());}self.registers[reg]=val;Ok(())"
        if not legacy:
            want = "ifreg==RegId::ZERO{returnOk(());}" + want
        if body != want:
            raise TranslateError("internal.rs: %s changed" % fn)
    mem = re.sub(r"\s+", "", strip_comments(read(repo, "fuel-vm/src/storage/memory.rs")))
    if "foriin0..range{ifi!=0{current_key.increase().unwrap();}current_key.to_big_endian(key_bytes.as_mut());self.storage_as_mut::<ContractsState>().remove(&(contract,&key_bytes).into())?;}" not in mem:
        raise TranslateError("storage/memory.rs: contract_state_remove_range changed")


def predicate_storage(repo):
    """every operation of PredicateStorage on a contract table must refuse"""
    src = strip_comments(read(repo, "fuel-vm/src/storage/predicate.rs"))
    tables = re.findall(r"impl NoStorage for (\w+) \{\}", src)
    for t in ("ContractsState", "ContractsRawCode", "ContractsAssets"):
        if t not in tables:
            raise TranslateError("predicate.rs: %s is no longer a NoStorage table" % t)
    refused = []
    # generic impls over `Type: Mappable + NoStorage` (StorageInspect) and `Type: Mappable` (StorageMutate)
    blocks = re.split(r"(?=\nimpl<)", src)
    for b in blocks:
        h = re.match(r"\nimpl<[^>]*>\s+(\w+)<(\w+)>\s+for PredicateStorage<D>", b)
        if not h:
            continue
        trait, table = h.group(1), h.group(2)
        if table == "BlobData":
            continue
        if table == "Type" and trait == "StorageInspect" and "NoStorage" not in b.split("{")[0]:
            raise TranslateError("predicate.rs: generic StorageInspect impl no longer restricted to NoStorage tables")
        body = balanced_body(b, 0)
        fns = re.findall(r"\bfn\s+(\w+)", body)
        for f in fns:
            fb = re.sub(r"\s+", "", fn_body(body, f))
            if fb != "Err(Self::Error::UnsupportedStorageOperation)":
                raise TranslateError("predicate.rs: %s<%s>::%s does not refuse (%s)" % (trait, table, f, fb[:60]))
            refused.append("%s<%s>::%s" % (trait, table, f))
    body = fn_body(src, "contract_state_remove_range")
    if re.sub(r"\s+", "", body) != "Err(Self::DataError::UnsupportedStorageOperation)":
        raise TranslateError("predicate.rs: contract_state_remove_range does not refuse")
    refused.append("InterpreterStorage::contract_state_remove_range")
    need = ["StorageInspect<Type>::get", "StorageInspect<Type>::contains_key", "StorageMutate<Type>::replace", "StorageMutate<Type>::take",
            "StorageSize<ContractsRawCode>::size_of_value", "StorageRead<ContractsRawCode>::read_exact", "StorageRead<ContractsRawCode>::read_zerofill",
            "StorageRead<ContractsRawCode>::read_alloc", "StorageWrite<ContractsRawCode>::write_bytes", "StorageWrite<ContractsRawCode>::replace_bytes",
            "StorageWrite<ContractsRawCode>::take_bytes", "StorageSize<ContractsState>::size_of_value", "StorageRead<ContractsState>::read_exact",
            "StorageRead<ContractsState>::read_zerofill", "StorageRead<ContractsState>::read_alloc", "StorageWrite<ContractsState>::write_bytes",
            "StorageWrite<ContractsState>::replace_bytes", "StorageWrite<ContractsState>::take_bytes"]
    for n in need:
        if n not in refused:
            raise TranslateError("predicate.rs: refusing impl %s not found" % n)
    return sorted(set(refused))


def generate(repo):
    ops = parse_optable(repo)
    opnames = {n for _, n, _ in ops}
    check_fixed_text(repo)
    allowed = predicate_allowed(repo, opnames)
    refused = predicate_storage(repo)
    pr = read(repo, "fuel-asm/src/panic_reason.rs")
    reasons = re.findall(r"^\s+(\w+) = (0x[0-9a-fA-F]{2}),", pr, re.M)
    if len(reasons) < 60:
        raise TranslateError("panic reasons: only %d parsed" % len(reasons))
    for name, shape in STORAGE_OPS.items():
        got = [s for _, n, s in ops if n == name]
        if not got:
            raise TranslateError("storage opcode %s disappeared" % name)
        if got[0] != shape:
            raise TranslateError("storage opcode %s changed shape: %s" % (name, got[0]))
    # every opcode whose mnemonic starts with S and whose handler calls a storage_* function must be known
    impl = read(repo, "fuel-vm/src/interpreter/executors/opcodes_impl.rs")
    stor = strip_comments(read(repo, "fuel-vm/src/interpreter/storage.rs"))
    uses_storage = []
    for _, n, _ in ops:
        hb = strip_comments(handler_body(impl, n))
        if re.search(r"\.(storage_read_slot|storage_write_slot|storage_write_slot_from_memory|storage_clear_slot_range|dynamic_storage_\w+|storage_preload)\b", hb):
            uses_storage.append(n)
    if sorted(uses_storage) != sorted(STORAGE_OPS):
        raise TranslateError("set of handlers calling the slot functions changed: %s" % sorted(uses_storage))

    out = []
    out.append("(* GENERATED by tools/gen_kvtable.py from fuel-asm/src/lib.rs, panic_reason.rs, fuel-vm/src/interpreter/{storage,flow,blockchain,contract,internal,initialization}.rs,")
    out.append("   executors/{opcodes_impl,instruction}.rs, verification.rs, storage/{predicate,memory}.rs on every check — DO NOT EDIT. *)")
    out.append("From Coq Require Import NArith List String.")
    out.append("Import ListNotations.")
    out.append("Local Open Scope N_scope.")
    out.append("Local Open Scope string_scope.")
    out.append("")
    out.append("(* opcode bytes *)")
    for byte, name, _ in ops:
        out.append("Definition OP_%s : N := %d.   (* 0x%02x *)" % (name, byte, byte))
    out.append("Definition all_opcodes : list (N * string) := [")
    out.append(";\n".join('  (%d, "%s")' % (b, n) for b, n, _ in ops))
    out.append("].")
    out.append("")
    out.append("(* panic reason bytes *)")
    for name, val in reasons:
        out.append("Definition PR_%s : N := %d.   (* %s *)" % (name, int(val, 16), val))
    out.append("")
    out.append("(* Opcode::is_predicate_allowed *)")
    out.append("Definition predicate_allowed_ops : list N := [" + "; ".join("OP_" + n for n in allowed) + "].")
    out.append("")
    out.append("(* operations of PredicateStorage that return Err(UnsupportedStorageOperation) (checked body by body) *)")
    out.append("Definition predicate_storage_refuses : list string := " + coq_strs(refused) + ".")
    out.append("")
    out.append("(* opcodes whose handlers call the slot functions of interpreter/storage.rs *)")
    out.append("Definition storage_opcodes : list N := [" + "; ".join("OP_" + n for n in sorted(STORAGE_OPS)) + "].")
    out.append("")
    out.append("(* order of the recognised steps inside each storage handler / slot function *)")
    for name in sorted(STORAGE_OPS):
        out.append("Definition fp_%s : list string := %s." % (name, coq_strs(fingerprint(handler_body(impl, name), KV_ATOMS))))
    for fn in STORAGE_FNS:
        out.append("Definition fp_%s : list string := %s." % (fn, coq_strs(fingerprint(fn_body(stor, fn), KV_ATOMS))))
    out.append("")
    out.append("(* order of the input-contract check relative to the contract-state accesses *)")
    for rel, fn, which, nm in INPUT_FNS:
        out.append("Definition fpi_%s : list string := %s." % (nm, coq_strs(fingerprint(fn_body(strip_comments(read(repo, rel)), fn, which), IN_ATOMS))))
    out.append("")
    return {"Gen/KvTable.v": "\n".join(out)}


if __name__ == "__main__":
    import sys
    for k, v in generate(sys.argv[1] if len(sys.argv) > 1 else "/repo").items():
        print(v)
