#!/usr/bin/env python3
"""Collect results of the seeded-change evaluation into /verif/seeded/results.json and print a
markdown table: which check caught which confirmed change.  Reads the muteval logs given as args."""
import sys, re, json, os, glob
res = {}
for path in sys.argv[1:]:
    if not os.path.exists(path): continue
    cur = None
    for line in open(path):
        m = re.match(r"=== seed (C\d+)-(m\d) vs check (C\d+)", line)
        if m: cur = (m.group(1) + "-" + m.group(2), m.group(3)); res.setdefault(cur, {"violations": 0, "nfif": False}); continue
        if cur is None: continue
        if line.startswith("VIOLATION"):
            res[cur]["violations"] += 1
            if "no-failing-input-found" in line: res[cur]["nfif"] = True
        m = re.match(r"(C\d+) quick: theorems (\d+)/(\d+), cases (\d+).*disagreements (\d+), oracle failures (\d+)", line)
        if m: res[cur].update(theorems="%s/%s" % (m.group(2), m.group(3)), disagreements=int(m.group(5)), oracle_failures=int(m.group(6)))
        m = re.match(r"muteval rc=(\d+)", line)
        if m: res[cur]["rc"] = int(m.group(1))
out = {}
for (label, chk), r in sorted(res.items()):
    out.setdefault(label, {})[chk] = r
meta = {}
for d in sorted(glob.glob("/verif/seeded/C*-m*")):
    label = os.path.basename(d)
    try:
        mj = json.load(open(os.path.join(d, "meta.json"))); cj = json.load(open(os.path.join(d, "confirm.json")))
        meta[label] = {"summary": mj.get("summary", "")[:160].replace("\n", " ").replace("|", "/"), "confirmed": cj.get("confirmed")}
    except Exception: pass
json.dump({"evaluations": out, "confirmed": meta}, open("/verif/seeded/results.json", "w"), indent=1)
print("| seeded change | confirmed | what it does | check(s) run → result |")
print("|---|---|---|---|")
for label in sorted(set(list(out) + list(meta))):
    ev = out.get(label, {})
    cells = []
    for chk, r in ev.items():
        if r.get("rc") == 1 or (r.get("rc") is None and r.get("violations", 0) > 0):
            how = []
            if r.get("theorems") and r["theorems"].split("/")[0] != r["theorems"].split("/")[1]: how.append("proof/translator broke")
            if r.get("disagreements"): how.append("%d model≠impl" % r["disagreements"])
            if r.get("oracle_failures"): how.append("%d oracle" % r["oracle_failures"])
            cells.append("%s: **caught** (%s%s)" % (chk, ", ".join(how) or "tie broke", "; no-failing-input-found" if r.get("nfif") else ""))
        elif r.get("rc") == 0: cells.append("%s: missed" % chk)
        else: cells.append("%s: (not finished)" % chk)
    m = meta.get(label, {})
    print("| %s | %s | %s | %s |" % (label, "yes" if m.get("confirmed") else "pending", m.get("summary", ""), "; ".join(cells) or "–"))
