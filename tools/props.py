"""Loads tools/props.d/Cxx.py (one file per property, each defining PROP = dict(...))."""
import os, glob, importlib.util, sys
sys.path.insert(0, os.path.dirname(os.path.abspath(__file__)))
from props_common import *  # noqa

PROPS = {}
for _p in sorted(glob.glob(os.path.join(os.path.dirname(os.path.abspath(__file__)), "props.d", "C*.py"))):
    _name = os.path.basename(_p)[:-3]
    _spec = importlib.util.spec_from_file_location("props_d_" + _name, _p)
    _m = importlib.util.module_from_spec(_spec)
    _spec.loader.exec_module(_m)
    PROPS[_name] = _m.PROP
