//! C36 — storage reads honour the read contract for every offset and length.
//!
//! Part A: every (value length, offset, buffer length) with each within +-2 of the value length
//!         (plus 0, 2^32 and usize::MAX offsets, missing keys) through the real `StorageRead`
//!         impls of `MemoryStorage` for the three byte tables (contract code, contract state,
//!         blobs); oracle: direct slice arithmetic.
//! Part B: CCP, BLDD, LDC (3 modes), CSIZ, BSIZ executed with boundary arguments on a real
//!         `Interpreter` (AttemptContinue verifier, so that no transaction is needed to list
//!         input contracts); oracle: destination == value[off..off+len] ++ zeros, everything
//!         else unchanged.
use fuel_vm::constraints::reg_key::{Reg, RegMut, HP, SP};
use fuel_vm::fuel_asm::{op, PanicReason, RegId};
use fuel_vm::fuel_storage::{StorageMutate, StorageRead, StorageReadError, StorageSize};
use fuel_vm::fuel_types::{BlobId, Bytes32, ContractId};
use fuel_vm::interpreter::{Interpreter, InterpreterParams, MemoryInstance, NotSupportedEcal};
use fuel_vm::prelude::{InterpreterError, MemoryStorage, Script};
use fuel_vm::storage::{BlobData, ContractsRawCode, ContractsState, ContractsStateKey};
use fuel_vm::verification::AttemptContinue;
use fvh::*;
use serde_json::json;

const MEM: u64 = 64 * 1024 * 1024;

// Byte strings shared by many cases (ids, stored values, untouched memory runs) are defined once in
// the header of the generated Coq files and referred to by name: elaborating literals is what
// dominates the model-side run time.
static INTERN: std::sync::Mutex<Vec<Vec<u8>>> = std::sync::Mutex::new(Vec::new());
fn intern(b: &[u8], force: bool) -> String {
    if b.len() < 12 {
        return coq_bytes(b);
    }
    let mut t = INTERN.lock().unwrap();
    if let Some(i) = t.iter().position(|x| x[..] == b[..]) {
        return format!("b{i}");
    }
    if force {
        t.push(b.to_vec());
        return format!("b{}", t.len() - 1);
    }
    coq_bytes(b)
}
fn intern_defs() -> String {
    let t = INTERN.lock().unwrap();
    let mut s = String::new();
    for (i, b) in t.iter().enumerate() {
        s.push_str(&format!("Definition b{i} : bytes := {}.\n", coq_bytes(b)));
    }
    s
}

// ================================================================== Part A
#[derive(Clone, Debug, PartialEq, Eq)]
enum RR {
    Ok(usize),
    KeyNotFound,
    OutOfBounds,
}
fn rr(r: Result<usize, StorageReadError>) -> RR {
    match r {
        Ok(n) => RR::Ok(n),
        Err(StorageReadError::KeyNotFound) => RR::KeyNotFound,
        Err(StorageReadError::OutOfBounds) => RR::OutOfBounds,
    }
}
fn rr_coq(r: &RR) -> String {
    match r {
        RR::Ok(n) => format!("(inl {n})"),
        RR::KeyNotFound => "(inr KeyNotFound)".into(),
        RR::OutOfBounds => "(inr OutOfBounds)".into(),
    }
}

struct Tables {
    st: MemoryStorage,
    cid: ContractId,
    skey: ContractsStateKey,
    bid: BlobId,
}
impl Tables {
    fn new(rng: &mut Rng, value: Option<&[u8]>) -> Tables {
        let mut st = MemoryStorage::default();
        let cid = ContractId::from(rng.bytes32());
        let skey = ContractsStateKey::new(&cid, &Bytes32::from(rng.bytes32()));
        let bid = BlobId::from(rng.bytes32());
        // other keys are always present, so that a missing key is really a per-key miss
        let other_c = ContractId::from(rng.bytes32());
        StorageMutate::<ContractsRawCode>::insert(&mut st, &other_c, &[1, 2, 3]).unwrap();
        StorageMutate::<ContractsState>::insert(&mut st, &ContractsStateKey::new(&other_c, &Bytes32::zeroed()), &[4, 5]).unwrap();
        StorageMutate::<BlobData>::insert(&mut st, &BlobId::from(rng.bytes32()), &[6]).unwrap();
        if let Some(v) = value {
            StorageMutate::<ContractsRawCode>::insert(&mut st, &cid, v).unwrap();
            StorageMutate::<ContractsState>::insert(&mut st, &skey, v).unwrap();
            StorageMutate::<BlobData>::insert(&mut st, &bid, v).unwrap();
        }
        Tables { st, cid, skey, bid }
    }
    /// (buffer after read_exact, result), (buffer after read_zerofill, result), size, alloc
    fn read(&self, table: u8, off: usize, buf0: &[u8]) -> ((Vec<u8>, RR), (Vec<u8>, RR), Option<usize>, Option<Vec<u8>>) {
        let mut b1 = buf0.to_vec();
        let mut b2 = buf0.to_vec();
        match table {
            0 => {
                let r1 = rr(StorageRead::<ContractsRawCode>::read_exact(&self.st, &self.cid, off, &mut b1).unwrap());
                let r2 = rr(StorageRead::<ContractsRawCode>::read_zerofill(&self.st, &self.cid, off, &mut b2).unwrap());
                let s = StorageSize::<ContractsRawCode>::size_of_value(&self.st, &self.cid).unwrap();
                let a = StorageRead::<ContractsRawCode>::read_alloc(&self.st, &self.cid).unwrap();
                ((b1, r1), (b2, r2), s, a)
            }
            1 => {
                let r1 = rr(StorageRead::<ContractsState>::read_exact(&self.st, &self.skey, off, &mut b1).unwrap());
                let r2 = rr(StorageRead::<ContractsState>::read_zerofill(&self.st, &self.skey, off, &mut b2).unwrap());
                let s = StorageSize::<ContractsState>::size_of_value(&self.st, &self.skey).unwrap();
                let a = StorageRead::<ContractsState>::read_alloc(&self.st, &self.skey).unwrap();
                ((b1, r1), (b2, r2), s, a)
            }
            _ => {
                let r1 = rr(StorageRead::<BlobData>::read_exact(&self.st, &self.bid, off, &mut b1).unwrap());
                let r2 = rr(StorageRead::<BlobData>::read_zerofill(&self.st, &self.bid, off, &mut b2).unwrap());
                let s = StorageSize::<BlobData>::size_of_value(&self.st, &self.bid).unwrap();
                let a = StorageRead::<BlobData>::read_alloc(&self.st, &self.bid).unwrap();
                ((b1, r1), (b2, r2), s, a)
            }
        }
    }
}

fn read_case(out: &mut Out, rng: &mut Rng, table: u8, value: Option<Vec<u8>>, off: usize, blen: usize, class: &str) {
    let t = Tables::new(rng, value.as_deref());
    let buf0: Vec<u8> = (0..blen).map(|i| 0xE0 | (i as u8 & 0x0F)).collect(); // recognisable old contents
    out.oracle_evaluations += 1;
    let replay = json!({"kind":"read","table":table,"value":value.as_ref().map(|v| hexs(v)),"off":off as u64,"buf_len":blen});
    let got = guarded(|| t.read(table, off, &buf0));
    let ((b1, r1), (b2, r2), s, a) = match got {
        Ok(x) => x,
        Err(p) => {
            out.oracle_fail("storage-read-host-panic", &format!("StorageRead panicked: {p}"), replay);
            return;
        }
    };
    // ---- oracle: direct slice arithmetic
    let (e1, e2, es, ea): ((Vec<u8>, RR), (Vec<u8>, RR), Option<usize>, Option<Vec<u8>>) = match &value {
        None => ((buf0.clone(), RR::KeyNotFound), (buf0.clone(), RR::KeyNotFound), None, None),
        Some(v) => {
            let l = v.len();
            let ex = match off.checked_add(blen) {
                Some(end) if end <= l => (v[off..end].to_vec(), RR::Ok(l)),
                _ => (buf0.clone(), RR::OutOfBounds),
            };
            let zf = if off <= l {
                let mut b: Vec<u8> = v[off..].iter().copied().chain(std::iter::repeat(0)).take(blen).collect();
                b.truncate(blen);
                (b, RR::Ok(l))
            } else {
                (buf0.clone(), RR::OutOfBounds)
            };
            (ex, zf, Some(l), Some(v.clone()))
        }
    };
    let tn = ["contract-code", "contract-state", "blob"][table as usize];
    if (b1.clone(), r1.clone()) != e1 {
        out.oracle_fail(&format!("read_exact-{tn}-differs-from-slice-arithmetic"), &format!("read_exact off={off} buf={blen} value_len={:?}: got {:?} buffer {}", value.as_ref().map(|v| v.len()), r1, hexs(&b1)), replay.clone());
    }
    if (b2.clone(), r2.clone()) != e2 {
        out.oracle_fail(&format!("read_zerofill-{tn}-differs-from-slice-arithmetic"), &format!("read_zerofill off={off} buf={blen} value_len={:?}: got {:?} buffer {}", value.as_ref().map(|v| v.len()), r2, hexs(&b2)), replay.clone());
    }
    if s != es || a != ea {
        out.oracle_fail(&format!("size-or-alloc-{tn}-wrong"), "size_of_value/read_alloc differ from the stored value", replay.clone());
    }
    let coq = format!(
        "(CR {{| rc_table := {table}; rc_value := {}; rc_off := {}; rc_buf := {}; rc_exact := ({}, {}); rc_zerofill := ({}, {}); rc_size := {}; rc_alloc := {} |}})",
        coq_opt(value.as_ref().map(|v| coq_bytes(v))), off as u64, coq_bytes(&buf0),
        coq_bytes(&b1), rr_coq(&r1), coq_bytes(&b2), rr_coq(&r2),
        coq_opt(s.map(|x| format!("{x}"))), coq_opt(a.as_ref().map(|v| coq_bytes(v)))
    );
    let l = value.as_ref().map(|v| v.len() as i64).unwrap_or(-1);
    out.push(Case {
        coq,
        json: json!({"kind":"read","table":tn,"value_len":l,"off":off as u64,"buf_len":blen,"exact":format!("{:?}", r1),"zerofill":format!("{:?}", r2)}),
        key: format!("r:{table}:{l}:{off}:{blen}"),
        nontrivial: value.is_some() && blen > 0,
        class: class.to_string(),
    });
}

fn part_a(args: &Args, out: &mut Out, rng: &mut Rng) {
    let lens: Vec<usize> = if args.thorough() { vec![0, 1, 2, 3, 5, 7, 8, 9, 16, 31, 32, 33, 64, 100, 255, 256, 257] } else { vec![0, 1, 2, 3, 8, 32, 33] };
    for &l in &lens {
        let value: Vec<u8> = (0..l).map(|_| rng.range(1, 255) as u8).collect();
        let around = |x: usize| -> Vec<usize> {
            let mut v: Vec<usize> = (x.saturating_sub(2)..=x + 2).collect();
            v.push(0);
            v.sort();
            v.dedup();
            v
        };
        for table in 0..3u8 {
            for &off in &around(l) {
                for &blen in &around(l) {
                    read_case(out, rng, table, Some(value.clone()), off, blen, "around-length");
                }
                // offset + buffer == length exactly, one below, one above
                if off <= l {
                    for d in [-1i64, 0, 1] {
                        let b = (l - off) as i64 + d;
                        if b >= 0 {
                            read_case(out, rng, table, Some(value.clone()), off, b as usize, "exact-fit");
                        }
                    }
                }
            }
            for off in [1usize << 32, usize::MAX, usize::MAX - 1, (1usize << 32) - 1] {
                for blen in [0usize, 1, 2] {
                    read_case(out, rng, table, Some(value.clone()), off, blen, "huge-offset");
                }
            }
        }
    }
    for table in 0..3u8 {
        for (off, blen) in [(0usize, 0usize), (0, 4), (3, 4), (usize::MAX, 1)] {
            read_case(out, rng, table, None, off, blen, "missing-key");
        }
    }
}

// ================================================================== Part B
type Vm = Interpreter<MemoryInstance, MemoryStorage, Script, NotSupportedEcal, AttemptContinue>;

#[derive(Clone, Debug)]
enum Setup {
    GrowStack(u64),
    GrowHeap(u64),
    Write(u64, Vec<u8>),
}
#[derive(Clone, Debug)]
enum Instr {
    Ccp { dst: u64, id: u64, off: u64, len: u64 },
    Bldd { dst: u64, id: u64, off: u64, len: u64 },
    Ldc { a: u64, b: u64, c: u64, mode: u8 },
    Csiz { id: u64 },
    Bsiz { id: u64 },
}
#[derive(Clone, Debug)]
struct VmCase {
    setup: Vec<Setup>,
    ssp: u64,
    sp: u64,
    hp: u64,
    fp: u64,
    max_size: u64,
    contracts: Vec<([u8; 32], Vec<u8>)>,
    blobs: Vec<([u8; 32], Vec<u8>)>,
    instr: Instr,
}
#[derive(Clone, Debug, PartialEq, Eq)]
struct Dump {
    ssp: u64,
    sp: u64,
    reg: u64,
    stack: Vec<u8>,
    heap: Vec<u8>, // [hp, MEM)
}

fn vm_kind(r: PanicReason) -> String {
    match r {
        PanicReason::MemoryOverflow => "(VMem MemoryOverflow)".into(),
        PanicReason::MemoryGrowthOverlap => "(VMem MemoryGrowthOverlap)".into(),
        PanicReason::UninitalizedMemoryAccess => "(VMem UninitalizedMemoryAccess)".into(),
        PanicReason::MemoryWriteOverlap => "(VMem MemoryWriteOverlap)".into(),
        PanicReason::MemoryOwnership => "(VMem MemoryOwnership)".into(),
        PanicReason::ExpectedUnallocatedStack => "ExpectedUnallocatedStack".into(),
        PanicReason::ContractMaxSize => "ContractMaxSize".into(),
        PanicReason::ContractNotFound => "ContractNotFound".into(),
        PanicReason::BlobNotFound => "BlobNotFound".into(),
        PanicReason::InvalidImmediateValue => "InvalidImmediateValue".into(),
        other => format!("(Unmodelled_{other:?})"),
    }
}

fn build_vm(c: &VmCase) -> (Vm, u64) {
    let mut st = MemoryStorage::default();
    for (id, code) in &c.contracts {
        StorageMutate::<ContractsRawCode>::insert(&mut st, &ContractId::from(*id), code).unwrap();
    }
    for (id, b) in &c.blobs {
        StorageMutate::<BlobData>::insert(&mut st, &BlobId::from(*id), b).unwrap();
    }
    let params = InterpreterParams { contract_max_size: c.max_size, ..Default::default() };
    let mut vm = Vm::with_storage(MemoryInstance::new(), st, params);
    let mut hp_reg = MEM;
    for s in &c.setup {
        match s {
            Setup::GrowStack(n) => vm.memory_mut().grow_stack(*n).unwrap(),
            Setup::GrowHeap(n) => {
                let sp0 = 0u64;
                vm.memory_mut().grow_heap_by(Reg::<SP>::new(&sp0), RegMut::<HP>::new(&mut hp_reg), *n).unwrap();
            }
            Setup::Write(a, d) => vm.memory_mut().write_noownerchecks(*a, d.len()).unwrap().copy_from_slice(d),
        }
    }
    (vm, hp_reg)
}

fn dump(vm: &Vm, mem_hp: u64) -> Dump {
    let stack = vm.memory().stack_raw().to_vec();
    let heap = vm.memory().read(mem_hp, MEM - mem_hp).unwrap().to_vec();
    Dump { ssp: vm.registers()[RegId::SSP.to_u8() as usize], sp: vm.registers()[RegId::SP.to_u8() as usize], reg: vm.registers()[0x10], stack, heap }
}

fn run_vm(c: &VmCase) -> Result<(Dump, Result<Dump, String>), String> {
    guarded(|| {
        let t0 = std::time::Instant::now();
        let (mut vm, mem_hp) = build_vm(c);
        if std::env::var("SREAD_TIMING").is_ok() { eprintln!("build_vm {:?}", t0.elapsed()); }
        {
            let regs = vm.registers_mut();
            regs[RegId::SSP.to_u8() as usize] = c.ssp;
            regs[RegId::SP.to_u8() as usize] = c.sp;
            regs[RegId::HP.to_u8() as usize] = c.hp;
            regs[RegId::FP.to_u8() as usize] = c.fp;
            regs[RegId::CGAS.to_u8() as usize] = u64::MAX;
            regs[RegId::GGAS.to_u8() as usize] = u64::MAX;
            regs[0x10] = 0;
        }
        let before = dump(&vm, mem_hp);
        if std::env::var("SREAD_TIMING").is_ok() { eprintln!("dump {:?}", t0.elapsed()); }
        let r = {
            let regs = vm.registers_mut();
            match &c.instr {
                Instr::Ccp { dst, id, off, len } | Instr::Bldd { dst, id, off, len } => {
                    regs[0x11] = *dst;
                    regs[0x12] = *id;
                    regs[0x13] = *off;
                    regs[0x14] = *len;
                }
                Instr::Ldc { a, b, c, .. } => {
                    regs[0x11] = *a;
                    regs[0x12] = *b;
                    regs[0x13] = *c;
                }
                Instr::Csiz { id } | Instr::Bsiz { id } => regs[0x11] = *id,
            }
            match &c.instr {
                Instr::Ccp { .. } => vm.instruction::<_, false>(op::ccp(0x11, 0x12, 0x13, 0x14)),
                Instr::Bldd { .. } => vm.instruction::<_, false>(op::bldd(0x11, 0x12, 0x13, 0x14)),
                Instr::Ldc { mode, .. } => vm.instruction::<_, false>(op::ldc(0x11, 0x12, 0x13, *mode)),
                Instr::Csiz { .. } => vm.instruction::<_, false>(op::csiz(0x10, 0x11)),
                Instr::Bsiz { .. } => vm.instruction::<_, false>(op::bsiz(0x10, 0x11)),
            }
        };
        if std::env::var("SREAD_TIMING").is_ok() { eprintln!("instr {:?}", t0.elapsed()); }
        let res = match r {
            Ok(_) => Ok(dump(&vm, mem_hp)),
            Err(InterpreterError::PanicInstruction(p)) => Err(vm_kind(*p.reason())),
            Err(e) => Err(format!("(OtherInterpreterError_{e:?})")),
        };
        (before, res)
    })
}

fn loaded(v: &[u8], off: u64, n: usize) -> Vec<u8> {
    let tail: &[u8] = if (off as u128) <= v.len() as u128 { &v[off as usize..] } else { &[] };
    tail.iter().copied().chain(std::iter::repeat(0)).take(n).collect()
}
fn padded(n: u64) -> Option<u64> {
    if n % 8 == 0 { Some(n) } else { n.checked_add(8 - n % 8) }
}
fn flat_read(d: &Dump, hp: u64, a: u64, n: usize) -> Option<Vec<u8>> {
    let (a, e) = (a as usize, a as usize + n);
    if e <= d.stack.len() {
        Some(d.stack[a..e].to_vec())
    } else if a as u64 >= hp && e as u64 <= MEM {
        let o = a - hp as usize;
        Some(d.heap[o..o + n].to_vec())
    } else {
        None
    }
}

/// reference expectation for a SUCCESSFUL instruction, written from the property text
fn expected_after(c: &VmCase, mem_hp: u64, before: &Dump) -> Option<Dump> {
    let find = |tbl: &Vec<([u8; 32], Vec<u8>)>, id_addr: u64| -> Option<Vec<u8>> {
        let id = flat_read(before, mem_hp, id_addr, 32)?;
        tbl.iter().find(|(k, _)| k[..] == id[..]).map(|(_, v)| v.clone())
    };
    let mut d = before.clone();
    let put = |d: &mut Dump, a: u64, bytes: &[u8]| {
        let a = a as usize;
        if a + bytes.len() <= d.stack.len() {
            d.stack[a..a + bytes.len()].copy_from_slice(bytes);
        } else {
            let o = a - mem_hp as usize;
            d.heap[o..o + bytes.len()].copy_from_slice(bytes);
        }
    };
    match &c.instr {
        Instr::Ccp { dst, id, off, len } => {
            let v = find(&c.contracts, *id)?;
            put(&mut d, *dst, &loaded(&v, *off, *len as usize));
        }
        Instr::Bldd { dst, id, off, len } => {
            let v = find(&c.blobs, *id)?;
            put(&mut d, *dst, &loaded(&v, *off, *len as usize));
        }
        Instr::Csiz { id } => d.reg = find(&c.contracts, *id)?.len() as u64,
        Instr::Bsiz { id } => d.reg = find(&c.blobs, *id)?.len() as u64,
        Instr::Ldc { a, b, c: cc, mode } => {
            if *mode == 2 && *cc == 0 {
                return Some(d);
            }
            let p = padded(*cc)?;
            let new_sp = c.ssp + p;
            if (d.stack.len() as u64) < new_sp {
                d.stack.resize(new_sp as usize, 0);
            }
            // the property: "copy exactly the specified bytes ($rC of them) and zero padding"
            let mut bytes = match mode {
                0 => loaded(&find(&c.contracts, *a)?, *b, *cc as usize),
                1 => loaded(&find(&c.blobs, *a)?, *b, *cc as usize),
                // mode 2 reads its source after the stack has grown: a source inside the freshly
                // allocated (zero) area is accessible
                _ => flat_read(&d, mem_hp, a.checked_add(*b)?, *cc as usize)?,
            };
            bytes.resize(p as usize, 0);
            let s = c.ssp as usize;
            d.stack[s..s + bytes.len()].copy_from_slice(&bytes);
            // $fp->codesize += padded length (the context of a bare interpreter counts as internal)
            let ptr = (c.fp + 576) as usize;
            if ptr + 8 <= d.stack.len() {
                let mut w = [0u8; 8];
                w.copy_from_slice(&d.stack[ptr..ptr + 8]);
                let new = padded(u64::from_be_bytes(w))?.checked_add(p)?;
                d.stack[ptr..ptr + 8].copy_from_slice(&new.to_be_bytes());
            } else {
                return None;
            }
            d.ssp = new_sp;
            d.sp = new_sp;
        }
    }
    Some(d)
}

fn instr_json(i: &Instr) -> serde_json::Value {
    match i {
        Instr::Ccp { dst, id, off, len } => json!({"op":"ccp","dst":dst,"id":id,"off":off,"len":len}),
        Instr::Bldd { dst, id, off, len } => json!({"op":"bldd","dst":dst,"id":id,"off":off,"len":len}),
        Instr::Ldc { a, b, c, mode } => json!({"op":"ldc","a":a,"b":b,"c":c,"mode":mode}),
        Instr::Csiz { id } => json!({"op":"csiz","id":id}),
        Instr::Bsiz { id } => json!({"op":"bsiz","id":id}),
    }
}
fn case_json(c: &VmCase) -> serde_json::Value {
    json!({"kind":"vm",
        "setup": c.setup.iter().map(|s| match s { Setup::GrowStack(n) => json!({"grow_stack":n}), Setup::GrowHeap(n) => json!({"grow_heap":n}), Setup::Write(a,d) => json!({"write":a,"data":hexs(d)}) }).collect::<Vec<_>>(),
        "ssp":c.ssp,"sp":c.sp,"hp":c.hp,"fp":c.fp,"max_size":c.max_size,
        "contracts": c.contracts.iter().map(|(k,v)| json!([hexs(k), hexs(v)])).collect::<Vec<_>>(),
        "blobs": c.blobs.iter().map(|(k,v)| json!([hexs(k), hexs(v)])).collect::<Vec<_>>(),
        "instr": instr_json(&c.instr)})
}
fn case_from_json(v: &serde_json::Value) -> VmCase {
    let u = |x: &serde_json::Value| x.as_u64().unwrap();
    let h = |x: &serde_json::Value| hex::decode(x.as_str().unwrap()).unwrap();
    let tbl = |x: &serde_json::Value| -> Vec<([u8; 32], Vec<u8>)> {
        x.as_array().unwrap().iter().map(|p| {
            let mut k = [0u8; 32];
            k.copy_from_slice(&h(&p[0]));
            (k, h(&p[1]))
        }).collect()
    };
    let setup = v["setup"].as_array().unwrap().iter().map(|s| {
        if !s["grow_stack"].is_null() { Setup::GrowStack(u(&s["grow_stack"])) }
        else if !s["grow_heap"].is_null() { Setup::GrowHeap(u(&s["grow_heap"])) }
        else { Setup::Write(u(&s["write"]), h(&s["data"])) }
    }).collect();
    let i = &v["instr"];
    let instr = match i["op"].as_str().unwrap() {
        "ccp" => Instr::Ccp { dst: u(&i["dst"]), id: u(&i["id"]), off: u(&i["off"]), len: u(&i["len"]) },
        "bldd" => Instr::Bldd { dst: u(&i["dst"]), id: u(&i["id"]), off: u(&i["off"]), len: u(&i["len"]) },
        "ldc" => Instr::Ldc { a: u(&i["a"]), b: u(&i["b"]), c: u(&i["c"]), mode: u(&i["mode"]) as u8 },
        "csiz" => Instr::Csiz { id: u(&i["id"]) },
        _ => Instr::Bsiz { id: u(&i["id"]) },
    };
    VmCase { setup, ssp: u(&v["ssp"]), sp: u(&v["sp"]), hp: u(&v["hp"]), fp: u(&v["fp"]), max_size: u(&v["max_size"]), contracts: tbl(&v["contracts"]), blobs: tbl(&v["blobs"]), instr }
}

/// sparse dump as Coq term `segs [Sg start bytes; ...]`: maximal runs of non-zero bytes
fn sparse(b: &[u8], force: bool) -> String {
    let mut v = vec![];
    let mut i = 0usize;
    while i < b.len() {
        if i + 8 <= b.len() && b[i..i + 8] == [0u8; 8] {
            i += 8;
            continue;
        }
        if b[i] != 0 {
            let st = i;
            while i < b.len() && b[i] != 0 {
                i += 1;
            }
            let run = &b[st..i];
            if run.len() > 8 && run.iter().all(|x| *x == run[0]) {
                v.push(format!("Sg {st} (rep {} {})", run[0], run.len()));
            } else {
                v.push(format!("Sg {st} {}", intern(run, force)));
            }
        } else {
            i += 1;
        }
    }
    format!("(segs {})", coq_list(&v))
}

fn vm_case(out: &mut Out, c: VmCase, class: &str) {
    let t_case = std::time::Instant::now();
    vm_case_inner(out, c, class);
    if std::env::var("SREAD_TIMING").is_ok() {
        *out.dist.entry(format!("ms:{class}")).or_insert(0) += t_case.elapsed().as_millis() as u64;
    }
}
fn vm_case_inner(out: &mut Out, c: VmCase, class: &str) {
    out.oracle_evaluations += 1;
    let replay = case_json(&c);
    let (before, res) = match run_vm(&c) {
        Ok(x) => x,
        Err(p) => {
            // record it as an observation for the model; it is an oracle failure unless it is the
            // unreachable frame-code-size overflow planted by the generator
            if class != "ldc-codesize-overflow" {
                out.oracle_fail("instruction-host-panic", &format!("{:?} panicked the host: {p}", c.instr), replay.clone());
            }
            let (vm0, mem_hp0) = build_vm(&c);
            (dump(&vm0, mem_hp0), Err("(VMem HostPanic)".to_string()))
        }
    };
    let mem_hp = MEM - before.heap.len() as u64;
    let opname = instr_json(&c.instr)["op"].as_str().unwrap().to_string();
    let mode = if let Instr::Ldc { mode, .. } = &c.instr { format!("{mode}") } else { String::new() };
    // ---- oracle
    match &res {
        Ok(after) => match expected_after(&c, mem_hp, &before) {
            Some(e) if e == *after => {}
            Some(e) if matches!(c.instr, Instr::Ldc { mode: 0 | 1, c: n, .. } if n % 8 != 0) && {
                // same as the reference except inside the padding bytes of the loaded region?
                let (n, m) = match &c.instr { Instr::Ldc { c: n, mode, .. } => (*n, *mode), _ => unreachable!() };
                let lo = (c.ssp + n) as usize;
                let hi = (c.ssp + padded(n).unwrap()) as usize;
                let _ = m;
                e.stack.len() == after.stack.len() && e.heap == after.heap && e.ssp == after.ssp && e.sp == after.sp
                    && (0..e.stack.len()).all(|i| e.stack[i] == after.stack[i] || (lo <= i && i < hi))
            } => {
                let m = match &c.instr { Instr::Ldc { mode, .. } => *mode, _ => 0 };
                out.oracle_fail(&format!("ldc-mode{m}-unaligned-length-padding-holds-following-value-bytes-not-zeros"),
                    &format!("{:?} (ssp {}): the bytes between $rC and the word-padded length hold the value's next bytes instead of zeros", c.instr, c.ssp), replay.clone());
            }
            Some(e) => {
                let what = if e.stack != after.stack || e.heap != after.heap { "memory" } else { "registers" };
                let diff = if e.stack.len() != after.stack.len() { format!("stack length {} expected {}", after.stack.len(), e.stack.len()) }
                    else if let Some(i) = (0..e.stack.len()).find(|i| e.stack[*i] != after.stack[*i]) { format!("stack[{i}] = {:#x} expected {:#x}", after.stack[i], e.stack[i]) }
                    else if let Some(i) = (0..e.heap.len()).find(|i| e.heap[*i] != after.heap[*i]) { format!("heap[hp+{i}] = {:#x} expected {:#x}", after.heap[i], e.heap[i]) }
                    else { format!("ssp {} sp {} reg {} expected {} {} {}", after.ssp, after.sp, after.reg, e.ssp, e.sp, e.reg) };
                out.oracle_fail(&format!("{opname}{mode}-{what}-differ-from-slice-plus-zero-padding"),
                    &format!("{:?}: after the instruction {what} differ from value[off..off+len] ++ zeros / unchanged elsewhere: {diff}", c.instr), replay.clone());
            }
            None => out.oracle_fail(&format!("{opname}{mode}-succeeds-where-reference-undefined"), &format!("{:?} succeeded but the id is missing or the source is inaccessible", c.instr), replay.clone()),
        },
        Err(_) => {}
    }
    let exp = match &res {
        Ok(d) => {
            // runs of the memory before the instruction are shared definitions
            let _ = (sparse(&before.stack, true), sparse(&before.heap, true));
            format!("(XOk {} {} {} {} {} {})", d.ssp, d.sp, d.reg, d.stack.len(), sparse(&d.stack, false), sparse(&d.heap, false))
        }
        Err(k) => format!("(XErr {k})"),
    };
    let st = |t: &Vec<([u8; 32], Vec<u8>)>| coq_list(&t.iter().map(|(k, v)| format!("({}, {})", intern(k, true), intern(v, true))).collect::<Vec<_>>());
    let setup = coq_list(&c.setup.iter().map(|s| match s {
        Setup::GrowStack(n) => format!("SGrowStack {n}"),
        Setup::GrowHeap(n) => format!("SGrowHeap 0 {n}"),
        Setup::Write(a, d) if d.len() > 8 && d.iter().all(|x| *x == d[0]) => format!("SWrite {a} (rep {} {})", d[0], d.len()),
        Setup::Write(a, d) => format!("SWrite {a} {}", intern(d, true)),
    }).collect::<Vec<_>>());
    let ins = match &c.instr {
        Instr::Ccp { dst, id, off, len } => format!("(ICcp {dst} {id} {off} {len})"),
        Instr::Bldd { dst, id, off, len } => format!("(IBldd {dst} {id} {off} {len})"),
        Instr::Ldc { a, b, c, mode } => format!("(ILdc {a} {b} {c} {mode})"),
        Instr::Csiz { id } => format!("(ICsiz {id})"),
        Instr::Bsiz { id } => format!("(IBsiz {id})"),
    };
    let coq = format!(
        "(CV {{| vc_setup := {setup}; vc_ssp := {}; vc_sp := {}; vc_hp := {}; vc_fp := {}; vc_max := {}; vc_contracts := {}; vc_blobs := {}; vc_instr := {ins}; vc_expect := {exp} |}})",
        c.ssp, c.sp, c.hp, c.fp, c.max_size, st(&c.contracts), st(&c.blobs)
    );
    let outcome = match &res { Ok(_) => "ok".to_string(), Err(k) => k.clone() };
    out.count(&format!("vm:{opname}{mode}:{outcome}"));
    let mut keyh = 0xcbf29ce484222325u64;
    for b in coq.bytes() {
        keyh = (keyh ^ b as u64).wrapping_mul(0x100000001b3);
    }
    out.push(Case {
        coq,
        json: json!({"kind":"vm","instr":instr_json(&c.instr),"ssp":c.ssp,"sp":c.sp,"hp":c.hp,"outcome":outcome}),
        key: format!("v:{keyh:016x}"),
        nontrivial: res.is_ok(),
        class: class.to_string(),
    });
}

/// the witnesses of the known finding on LDC padding (replayed on every run, every seed): a
/// 16-byte value, offset 0, $rC = 1 / 9: the padding up to the word boundary holds value bytes
fn padding_witnesses(out: &mut Out) {
    let id = [7u8; 32];
    let value: Vec<u8> = (1..=16).collect();
    let setup = vec![Setup::GrowStack(640), Setup::Write(0, id.to_vec())];
    for (mode, c) in [(0u8, 1u64), (1, 1), (0, 9), (1, 9), (0, 8), (1, 16), (0, 17)] {
        let case = VmCase {
            setup: setup.clone(), ssp: 640, sp: 640, hp: MEM, fp: 0, max_size: 1024,
            contracts: vec![(id, value.clone())], blobs: vec![(id, value.clone())],
            instr: Instr::Ldc { a: 0, b: 0, c, mode },
        };
        vm_case(out, case, "ldc-padding-witness");
    }
}

fn part_b(args: &Args, out: &mut Out, rng: &mut Rng) {
    padding_witnesses(out);
    let rounds = args.scale(2, 40);
    for round in 0..rounds {
        // two contracts and two blobs with lengths around word boundaries
        let l1 = *rng.pick(&[0usize, 1, 7, 8, 9, 24, 31, 32, 33, 100]);
        let l2 = *rng.pick(&[5usize, 16, 40, 64, 65]);
        let mk = |rng: &mut Rng, l: usize| -> Vec<u8> { (0..l).map(|_| rng.range(1, 255) as u8).collect() };
        let contracts = vec![(rng.bytes32(), mk(rng, l1)), (rng.bytes32(), mk(rng, l2))];
        let blobs = vec![(rng.bytes32(), mk(rng, l1)), (rng.bytes32(), mk(rng, l2))];
        let missing = rng.bytes32();
        // memory: stack of 1024 (sp = 512 so that [ssp, sp) is owned), heap of 512
        let stack_len = 1024u64;
        let heap_len = 512u64;
        let hp = MEM - heap_len;
        let id_c = 16u64; // contract id 0 at 16, contract id 1 at 48, missing id at 80, blob ids in the heap
        let id_b = hp + 8;
        let mut setup = vec![Setup::GrowStack(stack_len), Setup::GrowHeap(heap_len)];
        setup.push(Setup::Write(id_c, contracts[0].0.to_vec()));
        setup.push(Setup::Write(id_c + 32, contracts[1].0.to_vec()));
        setup.push(Setup::Write(id_c + 64, missing.to_vec()));
        setup.push(Setup::Write(id_b, blobs[0].0.to_vec()));
        setup.push(Setup::Write(id_b + 32, blobs[1].0.to_vec()));
        setup.push(Setup::Write(id_b + 64, missing.to_vec()));
        // dirty destination areas so that zero filling is visible
        for a in [192u64, 256, 320, 384, 448] {
            setup.push(Setup::Write(a, vec![0xEE; 64]));
        }
        setup.push(Setup::Write(hp + 128, vec![0xDD; 64]));
        setup.push(Setup::Write(hp + 192, vec![0xDD; 64]));
        let base = VmCase { setup: setup.clone(), ssp: 128, sp: 512, hp, fp: 0, max_size: 96, contracts: contracts.clone(), blobs: blobs.clone(), instr: Instr::Csiz { id: id_c } };
        let l = l1 as u64;
        let offs = [0u64, 1, l.saturating_sub(1), l, l + 1, l + 9, (1 << 32) - 1, 1 << 32, u64::MAX];
        let lens = [0u64, 1, 7, 8, 9, l.saturating_sub(1), l, l + 1, l + 9, 64];
        // ---- CSIZ / BSIZ
        for id in [id_c, id_c + 32, id_c + 64, 1000, MEM - 31, MEM - 32, u64::MAX] {
            vm_case(out, VmCase { instr: Instr::Csiz { id }, ..base.clone() }, "csiz");
        }
        for id in [id_b, id_b + 32, id_b + 64, 1020, MEM - 32, hp - 1] {
            vm_case(out, VmCase { instr: Instr::Bsiz { id }, ..base.clone() }, "bsiz");
        }
        // ---- CCP / BLDD: all offsets x lengths into an owned stack range and an owned heap range
        for &off in &offs {
            for &len in &lens {
                if round % 3 == 0 || rng.chance(1, 3) {
                    let dst = if rng.bool() { 200 } else { hp + 130 };
                    vm_case(out, VmCase { instr: Instr::Ccp { dst, id: id_c, off, len }, ..base.clone() }, "ccp");
                    vm_case(out, VmCase { instr: Instr::Bldd { dst, id: id_b, off, len }, ..base.clone() }, "bldd");
                }
            }
        }
        // destination boundaries: ownership and accessibility
        for (dst, len) in [(127u64, 8u64), (128, 8), (504, 8), (505, 8), (512, 0), (512, 1), (1016, 8), (1020, 8), (hp - 1, 8), (hp, 8), (MEM - 8, 8), (MEM - 7, 8), (MEM, 0), (MEM + 1, 0), (200, MEM), (200, u64::MAX)] {
            vm_case(out, VmCase { instr: Instr::Ccp { dst, id: id_c + 32, off: 3, len }, ..base.clone() }, "ccp-dst");
            vm_case(out, VmCase { instr: Instr::Bldd { dst, id: id_b + 32, off: 3, len }, ..base.clone() }, "bldd-dst");
        }
        for id in [id_c + 64, 1000, u64::MAX] {
            vm_case(out, VmCase { instr: Instr::Ccp { dst: 200, id, off: 0, len: 8 }, ..base.clone() }, "ccp-id");
        }
        for id in [id_b + 64, 1020, MEM - 16] {
            vm_case(out, VmCase { instr: Instr::Bldd { dst: 200, id, off: 0, len: 8 }, ..base.clone() }, "bldd-id");
        }
        // ---- LDC: ssp == sp; stack high-water above, equal or below the loaded region
        for (ssp, stack_hw) in [(512u64, 1024u64), (1024, 1024), (1000, 1024), (1020, 1024)] {
            let mut s = setup.clone();
            s[0] = Setup::GrowStack(stack_hw);
            let b = VmCase { setup: s, ssp, sp: ssp, ..base.clone() };
            for &off in &[0u64, 1, l.saturating_sub(1), l, l + 1, 1 << 32, u64::MAX] {
                for &len in &[0u64, 1, 7, 8, 9, l, l + 1, l + 8, 88, 89, 96, 97, 104] {
                    if rng.chance(1, 8) {
                        vm_case(out, VmCase { instr: Instr::Ldc { a: id_c, b: off, c: len, mode: 0 }, ..b.clone() }, "ldc0");
                        vm_case(out, VmCase { instr: Instr::Ldc { a: id_b, b: off, c: len, mode: 1 }, ..b.clone() }, "ldc1");
                        // mode 2: source in the stack below ssp / in the heap / overlapping the destination
                        let src = *rng.pick(&[192u64, 300, hp + 128, ssp.saturating_sub(4), ssp]);
                        vm_case(out, VmCase { instr: Instr::Ldc { a: src, b: off.min(40), c: len, mode: 2 }, ..b.clone() }, "ldc2");
                    }
                }
            }
            vm_case(out, VmCase { instr: Instr::Ldc { a: id_c + 64, b: 0, c: 8, mode: 0 }, ..b.clone() }, "ldc0-missing");
            vm_case(out, VmCase { instr: Instr::Ldc { a: id_b + 64, b: 0, c: 8, mode: 1 }, ..b.clone() }, "ldc1-missing");
            vm_case(out, VmCase { instr: Instr::Ldc { a: id_c, b: 0, c: 8, mode: 3 }, ..b.clone() }, "ldc-bad-mode");
            vm_case(out, VmCase { instr: Instr::Ldc { a: id_c, b: 0, c: u64::MAX, mode: 0 }, ..b.clone() }, "ldc0-huge");
            vm_case(out, VmCase { instr: Instr::Ldc { a: id_b, b: 0, c: u64::MAX, mode: 1 }, ..b.clone() }, "ldc1-huge");
            vm_case(out, VmCase { instr: Instr::Ldc { a: 192, b: u64::MAX, c: 8, mode: 2 }, ..b.clone() }, "ldc2-huge");
            vm_case(out, VmCase { instr: Instr::Ldc { a: id_b, b: 0, c: MEM, mode: 1 }, ..b.clone() }, "ldc1-mem");
        }
        // other frame pointers; a frame whose code size cannot be padded (not reachable by a program:
        // the frame lies below $ssp); a frame pointer whose code-size slot is not accessible
        for mode in 0..3u8 {
            let a = [id_c, id_b, 192][mode as usize];
            let mut s = setup.clone();
            s.push(Setup::Write(40 + 576, vec![0xFF; 8]));
            vm_case(out, VmCase { setup: s.clone(), ssp: 512, sp: 512, fp: 40, instr: Instr::Ldc { a, b: 0, c: 8, mode }, ..base.clone() }, "ldc-codesize-overflow");
            s.push(Setup::Write(40 + 576, vec![0xFF, 0xFF, 0xFF, 0xFF, 0xFF, 0xFF, 0xFF, 0xF0]));
            vm_case(out, VmCase { setup: s.clone(), ssp: 512, sp: 512, fp: 40, instr: Instr::Ldc { a, b: 0, c: 8, mode }, ..base.clone() }, "ldc-codesize-overflow");
            s.push(Setup::Write(40 + 576, vec![0, 0, 0, 0, 0, 0, 1, 3]));
            vm_case(out, VmCase { setup: s, ssp: 512, sp: 512, fp: 40, instr: Instr::Ldc { a, b: 0, c: 9, mode }, ..base.clone() }, "ldc-fp");
            for fp in [448u64, 449, 1000, MEM, u64::MAX] {
                vm_case(out, VmCase { ssp: 512, sp: 512, fp, instr: Instr::Ldc { a, b: 0, c: 8, mode }, ..base.clone() }, "ldc-fp");
            }
        }
        // ssp != sp
        vm_case(out, VmCase { instr: Instr::Ldc { a: id_c, b: 0, c: 8, mode: 0 }, ..base.clone() }, "ldc-unallocated");
        vm_case(out, VmCase { instr: Instr::Ldc { a: id_b, b: 0, c: 8, mode: 1 }, ..base.clone() }, "ldc-unallocated");
        vm_case(out, VmCase { instr: Instr::Ldc { a: 192, b: 0, c: 8, mode: 2 }, ..base.clone() }, "ldc-unallocated");
        // blob load that reaches the heap: stack growth must stop at hp
        if round == 0 {
            let mut s = setup.clone();
            s[1] = Setup::GrowHeap(MEM - 1100);
            // ids must be rewritten relative to the new hp
            let hp2 = 1100u64;
            let s2: Vec<Setup> = s.into_iter().filter(|x| !matches!(x, Setup::Write(a, _) if *a >= hp)).collect();
            let mut s2 = s2;
            s2.push(Setup::Write(hp2 + 8, blobs[1].0.to_vec()));
            let b = VmCase { setup: s2, ssp: 1024, sp: 1024, hp: hp2, max_size: 1 << 20, ..base.clone() };
            for len in [72u64, 77] {
                vm_case(out, VmCase { instr: Instr::Ldc { a: hp2 + 8, b: 0, c: len, mode: 1 }, ..b.clone() }, "ldc1-meets-heap");
            }
        }
    }
}

fn main() {
    quiet_panics();
    let args = Args::parse();
    let mut out = Out::new();
    let header = "From FV Require Import Base.Bytes Mem.SVec Mem.MemSpec Mem.MemModel Mem.ReadSpec Mem.ReadModel Run.Mem Run.Sread.\nOpen Scope N_scope.";
    if args.prop != "C36" {
        eprintln!("sread: unknown property {}", args.prop);
        std::process::exit(2);
    }
    let mut rng = Rng::new(args.seed);
    if let Some(p) = &args.replay {
        let v = read_replay(p);
        if v["kind"] == "read" {
            let value = v["value"].as_str().map(|s| hex::decode(s).unwrap());
            read_case(&mut out, &mut rng, v["table"].as_u64().unwrap() as u8, value, v["off"].as_u64().unwrap() as usize, v["buf_len"].as_u64().unwrap() as usize, "replay");
        } else {
            vm_case(&mut out, case_from_json(&v), "replay");
        }
    } else {
        let t0 = std::time::Instant::now();
        part_a(&args, &mut out, &mut rng);
        let t1 = std::time::Instant::now();
        part_b(&args, &mut out, &mut rng);
        out.notes.push(format!("harness seconds: storage-level {:.2}, instruction-level {:.2}", (t1 - t0).as_secs_f64(), t1.elapsed().as_secs_f64()));
    }
    if args.oracle_only {
        out.cases.clear();
    }
    let header = format!("{header}\n{}", intern_defs());
    out.write(&args, &header, "sread_case", "bad_sread");
}
