//! Authorisation family (C20): signature checking (with the recovery cache) and predicate
//! checking / estimation, sequential and through a shuffling `ParallelExecutor`.
//!
//! Real code under test:  `FormatValidityChecks::check_signatures`, `predicates::{check_predicates,
//! check_predicates_async, estimate_predicates}`.  Each case records the transaction in the
//! abstract form of coq/Auth/AuthModel.v together with the ORACLE data measured independently
//! (address recovered from every witness over the transaction id; gas need and outcome of
//! every hand-written predicate program; max_gas base) and the verdicts of the real code.  The
//! Gallina gating model (coq/Run/Auth.v) must reproduce every verdict from the oracle data.
//! Implementation-level oracle: the property statements checked directly (reference
//! "first unauthorised input" verdict; accepted => every signed input verifies; tamper =>
//! rejected; accepted predicates => right owner, true, exact gas; sequential == parallel;
//! estimate => verify).
use fuel_vm::checked_transaction::{CheckPredicateParams, IntoChecked, ParallelExecutor};
use fuel_vm::error::PredicateVerificationFailed;
use fuel_vm::fuel_asm::{op, PanicReason, RegId};
use fuel_vm::fuel_crypto::{Message, PublicKey, SecretKey, Signature};
use fuel_vm::fuel_tx::{
    field::{Inputs, ScriptData, Witnesses},
    policies::Policies,
    Chargeable, ConsensusParameters, FormatValidityChecks, Input, Output, Transaction, TxPointer, UniqueIdentifier, UtxoId, ValidityError, Witness,
};
use fuel_vm::fuel_types::{Address, AssetId, Bytes32, ContractId, Nonce, Word};
use fuel_vm::interpreter::{MemoryInstance, NotSupportedEcal};
use fuel_vm::pool::DummyPool;
use fuel_vm::prelude::{predicates, Script};
use fuel_vm::storage::predicate::EmptyStorage;
use fvh::*;
use serde_json::{json, Value};
use sha2::{Digest, Sha256};
use std::sync::atomic::{AtomicU64, Ordering};
use std::sync::Mutex;

type B32 = [u8; 32];

// ------------------------------------------------------------------ shuffling executor
static SHUFFLE_SEED: AtomicU64 = AtomicU64::new(0);
static LAST_ORDER: Mutex<Vec<usize>> = Mutex::new(Vec::new());

/// Runs the tasks on tokio's blocking pool and DELIVERS the results in a seeded random order
/// (recorded in LAST_ORDER: delivered[k] = tasks[order[k]]).
struct ShuffleExec;
impl ParallelExecutor for ShuffleExec {
    type Task = tokio::task::JoinHandle<(usize, Result<Word, PredicateVerificationFailed>)>;

    fn create_task<F>(func: F) -> Self::Task
    where
        F: FnOnce() -> (usize, Result<Word, PredicateVerificationFailed>) + Send + 'static,
    {
        tokio::task::spawn_blocking(func)
    }

    fn execute_tasks<'async_trait>(
        futures: Vec<Self::Task>,
    ) -> core::pin::Pin<Box<dyn core::future::Future<Output = Vec<(usize, Result<Word, PredicateVerificationFailed>)>> + Send + 'async_trait>> {
        Box::pin(async move {
            let mut res = vec![];
            for f in futures {
                res.push(Some(f.await.expect("predicate task panicked")));
            }
            let mut order: Vec<usize> = (0..res.len()).collect();
            let mut rng = Rng::new(SHUFFLE_SEED.load(Ordering::SeqCst));
            rng.shuffle(&mut order);
            let delivered = order.iter().map(|&k| res[k].take().unwrap()).collect();
            *LAST_ORDER.lock().unwrap() = order;
            delivered
        })
    }
}

// ------------------------------------------------------------------ helpers
fn sha256(b: &[u8]) -> B32 {
    let mut h = Sha256::new();
    h.update(b);
    h.finalize().into()
}
fn key(i: usize) -> SecretKey {
    let mut b = [0u8; 32];
    b[31] = 1 + i as u8;
    b[0] = 0x11;
    b[7] = i as u8 ^ 0x5a;
    SecretKey::try_from(&b[..]).expect("valid secret key")
}
fn key_address(i: usize) -> B32 {
    let pk: PublicKey = key(i).public_key();
    sha256(pk.as_ref())
}
fn coq_input(i: &Input) -> String {
    match i {
        Input::CoinSigned(c) => format!("ISigned {} {}", coq_bytes(c.owner.as_ref()), c.witness_index),
        Input::MessageCoinSigned(m) => format!("ISigned {} {}", coq_bytes(m.recipient.as_ref()), m.witness_index),
        Input::MessageDataSigned(m) => format!("ISigned {} {}", coq_bytes(m.recipient.as_ref()), m.witness_index),
        Input::CoinPredicate(c) => format!("IPredicate {} {} {}", coq_bytes(c.owner.as_ref()), coq_bytes(&c.predicate), c.predicate_gas_used),
        Input::MessageCoinPredicate(m) => format!("IPredicate {} {} {}", coq_bytes(m.recipient.as_ref()), coq_bytes(&m.predicate), m.predicate_gas_used),
        Input::MessageDataPredicate(m) => format!("IPredicate {} {} {}", coq_bytes(m.recipient.as_ref()), coq_bytes(&m.predicate), m.predicate_gas_used),
        Input::Contract(_) => "IContract".to_string(),
    }
}
fn coq_inputs(ins: &[Input]) -> String {
    coq_list(&ins.iter().map(coq_input).collect::<Vec<_>>())
}
fn input_kind_name(i: &Input) -> &'static str {
    match i {
        Input::CoinSigned(_) => "coin-signed",
        Input::MessageCoinSigned(_) => "msgcoin-signed",
        Input::MessageDataSigned(_) => "msgdata-signed",
        Input::CoinPredicate(_) => "coin-predicate",
        Input::MessageCoinPredicate(_) => "msgcoin-predicate",
        Input::MessageDataPredicate(_) => "msgdata-predicate",
        Input::Contract(_) => "contract",
    }
}

fn make_script(inputs: Vec<Input>, n_witnesses: usize, script_data: Vec<u8>) -> Script {
    let mut outputs = vec![];
    for (i, inp) in inputs.iter().enumerate() {
        if matches!(inp, Input::Contract(_)) {
            outputs.push(Output::contract(i as u16, Bytes32::zeroed(), Bytes32::zeroed()));
        }
    }
    outputs.push(Output::change(Address::zeroed(), 0, AssetId::BASE));
    Transaction::script(
        10_000,
        vec![op::ret(RegId::ONE)].into_iter().collect(),
        script_data,
        Policies::new().with_max_fee(0),
        inputs,
        outputs,
        vec![Witness::default(); n_witnesses],
    )
}

// =====================================================================================
// signatures
// =====================================================================================
#[derive(Clone, Debug)]
enum Wit {
    /// a signature of the transaction id by key k
    Sign(usize),
    /// a signature by key k of another message
    SignOther(usize),
    /// a valid signature with one bit flipped
    Flip(usize, usize),
    /// random bytes of a given length
    Junk(usize),
}

struct SigScenario {
    name: &'static str,
    inputs: Vec<Input>,
    wits: Vec<Wit>,
}

fn signed_input(rng: &mut Rng, kind: u64, owner: B32, widx: u16) -> Input {
    let dlen = 1 + rng.below(8) as usize;
    match kind % 3 {
        0 => Input::coin_signed(UtxoId::new(rng.bytes32().into(), rng.below(100) as u16), Address::from(owner), 10 + rng.below(100), AssetId::BASE, TxPointer::default(), widx),
        1 => Input::message_coin_signed(Address::from(rng.bytes32()), Address::from(owner), 10 + rng.below(100), Nonce::from(rng.bytes32()), widx),
        _ => Input::message_data_signed(Address::from(rng.bytes32()), Address::from(owner), 10 + rng.below(100), Nonce::from(rng.bytes32()), widx, rng.bytes(dlen)),
    }
}
fn predicate_input(rng: &mut Rng, kind: u64, owner: B32, code: Vec<u8>, gas: u64) -> Input {
    let dlen = 1 + rng.below(8) as usize;
    let plen = rng.below(6) as usize;
    match kind % 3 {
        0 => Input::coin_predicate(UtxoId::new(rng.bytes32().into(), rng.below(100) as u16), Address::from(owner), 10 + rng.below(100), AssetId::BASE, TxPointer::default(), gas, code, rng.bytes(plen)),
        1 => Input::message_coin_predicate(Address::from(rng.bytes32()), Address::from(owner), 10 + rng.below(100), Nonce::from(rng.bytes32()), gas, code, rng.bytes(plen)),
        _ => Input::message_data_predicate(Address::from(rng.bytes32()), Address::from(owner), 10 + rng.below(100), Nonce::from(rng.bytes32()), gas, rng.bytes(dlen), code, vec![]),
    }
}
fn contract_input(rng: &mut Rng) -> Input {
    Input::contract(UtxoId::new(rng.bytes32().into(), 0), Bytes32::zeroed(), Bytes32::zeroed(), TxPointer::default(), ContractId::from(rng.bytes32()))
}
fn tiny_predicate(rng: &mut Rng) -> Vec<u8> {
    let mut p: Vec<u8> = vec![op::ret(RegId::ONE)].into_iter().collect();
    let extra = 4 * rng.below(3) as usize;
    p.extend(rng.bytes(extra));
    p
}

fn sig_scenario(rng: &mut Rng, which: u64) -> SigScenario {
    let k = rng.bytes32()[0] as u64;
    match which {
        // all valid: each input has its own key and witness
        0 => {
            let n = 1 + rng.below(4) as usize;
            SigScenario { name: "valid-distinct", inputs: (0..n).map(|i| signed_input(rng, k + i as u64, key_address(i), i as u16)).collect(), wits: (0..n).map(Wit::Sign).collect() }
        }
        // shared witnesses: several inputs of one owner point at the same witness (cache hits)
        1 => {
            let n = 2 + rng.below(4) as usize;
            let keys = 1 + rng.below(2) as usize;
            let inputs = (0..n).map(|i| { let kk = rng.below(keys as u64) as usize; signed_input(rng, k + i as u64, key_address(kk), kk as u16) }).collect();
            SigScenario { name: "valid-shared-witness", inputs, wits: (0..keys).map(Wit::Sign).collect() }
        }
        // same key twice in two different witnesses
        2 => SigScenario { name: "valid-duplicate-witness", inputs: vec![signed_input(rng, k, key_address(0), 0), signed_input(rng, k + 1, key_address(0), 1)], wits: vec![Wit::Sign(0), Wit::Sign(0)] },
        // mixed with predicate and contract inputs
        3 => {
            let p = tiny_predicate(rng);
            let owner: B32 = *Input::predicate_owner(&p);
            let g0 = rng.below(50);
            let mut inputs = vec![signed_input(rng, k, key_address(0), 0), predicate_input(rng, k + 1, owner, p, g0), contract_input(rng), signed_input(rng, k + 2, key_address(1), 1)];
            if rng.bool() { inputs.push(signed_input(rng, k + 3, key_address(0), 0)); }
            SigScenario { name: "valid-mixed", inputs, wits: vec![Wit::Sign(0), Wit::Sign(1)] }
        }
        // wrong signature: the witness is signed by another key
        4 => {
            let bad = rng.below(3) as usize;
            let inputs = (0..3).map(|i| signed_input(rng, k + i as u64, key_address(i), i as u16)).collect();
            SigScenario { name: "wrong-key", inputs, wits: (0..3).map(|i| if i == bad { Wit::Sign(7) } else { Wit::Sign(i) }).collect() }
        }
        // swapped witnesses
        5 => SigScenario { name: "swapped-witnesses", inputs: vec![signed_input(rng, k, key_address(0), 0), signed_input(rng, k + 1, key_address(1), 1)], wits: vec![Wit::Sign(1), Wit::Sign(0)] },
        // shared witness used by an input of ANOTHER owner (cache hit with a mismatch), after a good one
        6 => SigScenario { name: "shared-witness-other-owner", inputs: vec![signed_input(rng, k, key_address(0), 0), signed_input(rng, k + 1, key_address(1), 0), signed_input(rng, k + 2, key_address(0), 0)], wits: vec![Wit::Sign(0)] },
        // witness index out of bounds
        7 => {
            let w = 1 + rng.below(3) as u16;
            SigScenario { name: "witness-index-out-of-bounds", inputs: vec![signed_input(rng, k, key_address(0), 0), signed_input(rng, k + 1, key_address(1), w)], wits: vec![Wit::Sign(0)] }
        }
        // junk witnesses of various lengths
        8 => {
            let len = *rng.pick(&[0usize, 1, 63, 64, 64, 65, 128]);
            SigScenario { name: "junk-witness", inputs: vec![signed_input(rng, k, key_address(0), 1), signed_input(rng, k + 1, key_address(0), 0)], wits: vec![Wit::Junk(len), Wit::Sign(0)] }
        }
        // signature over another message / one flipped bit
        9 => {
            let w = if rng.bool() { Wit::SignOther(0) } else { Wit::Flip(0, rng.below(512) as usize) };
            SigScenario { name: "signature-of-other-message-or-flipped", inputs: vec![signed_input(rng, k, key_address(1), 1), signed_input(rng, k + 1, key_address(0), 0)], wits: vec![w, Wit::Sign(1)] }
        }
        // predicate input with a wrong owner, before / after a bad signed input (which error comes first)
        10 => {
            let p = tiny_predicate(rng);
            let mut owner: B32 = *Input::predicate_owner(&p);
            if rng.chance(2, 3) { owner[rng.below(32) as usize] ^= 4; }
            let pi = predicate_input(rng, k, owner, p, 0);
            let bad_sig = signed_input(rng, k + 1, key_address(2), 0);
            let good = signed_input(rng, k + 2, key_address(0), 0);
            let inputs = if rng.bool() { vec![good, pi, bad_sig] } else { vec![good, bad_sig, pi] };
            SigScenario { name: "predicate-owner-and-bad-signature", inputs, wits: vec![Wit::Sign(0)] }
        }
        // no signed input at all
        11 => {
            let p = tiny_predicate(rng);
            let owner: B32 = *Input::predicate_owner(&p);
            SigScenario { name: "no-signed-input", inputs: vec![predicate_input(rng, k, owner, p, 3), contract_input(rng)], wits: if rng.bool() { vec![] } else { vec![Wit::Junk(5)] } }
        }
        // random mixture
        _ => {
            let n = 1 + rng.below(6) as usize;
            let nw = 1 + rng.below(3) as usize;
            let inputs = (0..n)
                .map(|i| {
                    let kk = rng.below(nw as u64) as usize;
                    let owner = if rng.chance(1, 6) { key_address(kk + 1) } else { key_address(kk) };
                    let widx = if rng.chance(1, 10) { nw as u16 } else { kk as u16 };
                    signed_input(rng, k + i as u64, owner, widx)
                })
                .collect();
            let wits = (0..nw).map(|j| match rng.below(10) { 0 => Wit::Junk(64), 1 => Wit::Sign(j + 1), _ => Wit::Sign(j) }).collect();
            SigScenario { name: "random-mixture", inputs, wits }
        }
    }
}

fn make_witness(w: &Wit, id: &B32, rng: &mut Rng) -> Vec<u8> {
    match w {
        Wit::Sign(k) => Signature::sign(&key(*k), &Message::from_bytes(*id)).as_ref().to_vec(),
        Wit::SignOther(k) => {
            let mut other = *id;
            other[0] ^= 0x80;
            Signature::sign(&key(*k), &Message::from_bytes(other)).as_ref().to_vec()
        }
        Wit::Flip(k, bit) => {
            let mut s = Signature::sign(&key(*k), &Message::from_bytes(*id)).as_ref().to_vec();
            s[bit / 8] ^= 1 << (bit % 8);
            s
        }
        Wit::Junk(len) => rng.bytes(*len),
    }
}

/// address recovered from a witness over `id`, independently of fuel-tx (fuel_crypto + sha2)
fn recovered_address(w: &[u8], id: &B32) -> Option<B32> {
    let bytes: [u8; 64] = w.try_into().ok()?;
    let sig = Signature::from_bytes(bytes);
    let pk = sig.recover(&Message::from_bytes(*id)).ok()?;
    // the recovered key must also verify the signature
    sig.verify(&pk, &Message::from_bytes(*id)).ok()?;
    Some(sha256(pk.as_ref()))
}

/// the property as a reference: the first input that is not authorised decides the error
fn reference_sig_verdict(inputs: &[Input], witnesses: &[Vec<u8>], id: &B32) -> Option<(u64, u64)> {
    for (index, i) in inputs.iter().enumerate() {
        let signed = match i {
            Input::CoinSigned(c) => Some((*c.owner, c.witness_index)),
            Input::MessageCoinSigned(m) => Some((*m.recipient, m.witness_index)),
            Input::MessageDataSigned(m) => Some((*m.recipient, m.witness_index)),
            _ => None,
        };
        if let Some((owner, widx)) = signed {
            match witnesses.get(widx as usize) {
                None => return Some((1, index as u64)),
                Some(w) => match recovered_address(w, id) {
                    Some(a) if a == owner => {}
                    _ => return Some((2, index as u64)),
                },
            }
        }
        let pred = match i {
            Input::CoinPredicate(c) => Some((*c.owner, c.predicate.to_vec())),
            Input::MessageCoinPredicate(m) => Some((*m.recipient, m.predicate.to_vec())),
            Input::MessageDataPredicate(m) => Some((*m.recipient, m.predicate.to_vec())),
            _ => None,
        };
        if let Some((owner, code)) = pred {
            if owner != *Input::predicate_owner(&code) {
                return Some((3, index as u64));
            }
        }
    }
    None
}

fn real_sig_verdict(tx: &Script, params: &ConsensusParameters) -> Result<Option<(u64, u64)>, String> {
    match guarded(|| tx.check_signatures(&params.chain_id())) {
        Err(p) => Err(p),
        Ok(Ok(())) => Ok(None),
        Ok(Err(ValidityError::InputWitnessIndexBounds { index })) => Ok(Some((1, index as u64))),
        Ok(Err(ValidityError::InputInvalidSignature { index })) => Ok(Some((2, index as u64))),
        Ok(Err(ValidityError::InputPredicateOwner { index })) => Ok(Some((3, index as u64))),
        Ok(Err(e)) => Err(format!("unexpected ValidityError {e:?}")),
    }
}

fn emit_sig_case(out: &mut Out, tx: &Script, id: &B32, verdict: Option<(u64, u64)>, name: &str, class: &str, replay: &Value) {
    let ws: Vec<Vec<u8>> = tx.witnesses().iter().map(|w| w.as_ref().to_vec()).collect();
    let rec: Vec<Option<B32>> = ws.iter().map(|w| recovered_address(w, id)).collect();
    let coq = format!(
        "CSig (mkSig {} {} {} {})",
        coq_inputs(tx.inputs()),
        coq_list(&ws.iter().map(|w| coq_bytes(w)).collect::<Vec<_>>()),
        coq_list(&rec.iter().map(|r| coq_opt(r.map(|a| coq_bytes(&a)))).collect::<Vec<_>>()),
        coq_opt(verdict.map(|(k, i)| coq_pair(&k.to_string(), &i.to_string())))
    );
    let kinds: Vec<&str> = tx.inputs().iter().map(input_kind_name).collect();
    out.push(Case {
        coq,
        json: json!({"kind":"sig","scenario":name,"inputs":kinds,"witnesses":ws.len(),"verdict":verdict.map(|(k,i)| json!([k,i])),"replay":replay}),
        key: format!("sig:{}:{:?}:{}", name, verdict, hexs(id)),
        nontrivial: tx.inputs().len() >= 2,
        class: class.to_string(),
    });
}

fn sig_case(out: &mut Out, case_seed: u64, which: u64, with_model: bool) {
    let mut rng = Rng::new(case_seed);
    let params = ConsensusParameters::standard();
    let sc = sig_scenario(&mut rng, which);
    let replay = json!({"kind":"sig","case_seed":case_seed,"scenario":which});
    let mut tx = make_script(sc.inputs.clone(), sc.wits.len(), rng.bytes(8));
    let id: B32 = *tx.id(&params.chain_id());
    let ws: Vec<Vec<u8>> = sc.wits.iter().map(|w| make_witness(w, &id, &mut rng)).collect();
    *tx.witnesses_mut() = ws.iter().map(|w| Witness::from(w.clone())).collect();
    if *tx.id(&params.chain_id()) != id {
        out.oracle_fail("id-depends-on-witnesses", "the transaction id changed when only witnesses were set", replay.clone());
    }
    out.oracle_evaluations += 1;
    let verdict = match real_sig_verdict(&tx, &params) {
        Ok(v) => v,
        Err(p) => {
            out.oracle_fail("check-signatures-panic", &format!("check_signatures panicked / unexpected error: {p}"), replay);
            return;
        }
    };
    let want = reference_sig_verdict(tx.inputs(), &ws, &id);
    if verdict != want {
        out.oracle_fail("check-signatures-mismatch", &format!("check_signatures returned {verdict:?} (kind,index), reference 'first unauthorised input' says {want:?} [{}]", sc.name), replay.clone());
    }
    // accepted => every signed input verifies against the key of its owner (keys are ours)
    if verdict.is_none() {
        for i in tx.inputs() {
            let s = match i {
                Input::CoinSigned(c) => Some((*c.owner, c.witness_index)),
                Input::MessageCoinSigned(m) => Some((*m.recipient, m.witness_index)),
                Input::MessageDataSigned(m) => Some((*m.recipient, m.witness_index)),
                _ => None,
            };
            if let Some((owner, widx)) = s {
                let ok = (0..10).any(|k| {
                    key_address(k) == owner && {
                        let bytes: Result<[u8; 64], _> = ws[widx as usize].clone().try_into();
                        bytes.map(|b| Signature::from_bytes(b).verify(&key(k).public_key(), &Message::from_bytes(id)).is_ok()).unwrap_or(false)
                    }
                });
                if !ok {
                    out.oracle_fail("accepted-unverified-signed-input", "an accepted transaction has a signed input whose witness does not verify under its owner's key", replay.clone());
                }
            }
        }
    }
    if with_model {
        emit_sig_case(out, &tx, &id, verdict, sc.name, &format!("sig-{}", sc.name), &replay);
    } else {
        out.count(&format!("sig-{}-oracle-only", sc.name));
    }
    // tamper with signed content after signing: the id changes and every signed input must fail
    if verdict.is_none() {
        let mut t2 = tx.clone();
        let what = rng.below(3);
        match what {
            0 => t2.script_data_mut().push(1),
            1 => {
                let n = t2.inputs().len();
                let j = rng.below(n as u64) as usize;
                match &mut t2.inputs_mut()[j] {
                    Input::CoinSigned(c) => c.amount += 1,
                    Input::MessageCoinSigned(m) => m.amount += 1,
                    Input::MessageDataSigned(m) => m.data.push(7),
                    Input::CoinPredicate(c) => c.amount += 1,
                    Input::MessageCoinPredicate(m) => m.amount += 1,
                    Input::MessageDataPredicate(m) => m.amount += 1,
                    Input::Contract(c) => c.contract_id = ContractId::from([9u8; 32]),
                }
            }
            _ => {
                use fuel_vm::fuel_tx::field::ScriptGasLimit;
                *t2.script_gas_limit_mut() += 1;
            }
        }
        let id2: B32 = *t2.id(&params.chain_id());
        out.oracle_evaluations += 1;
        let has_signed = t2.inputs().iter().any(|i| i.is_coin_signed() || i.is_message_coin_signed() || i.is_message_data_signed());
        if id2 == id {
            out.oracle_fail("tamper-id-unchanged", "changing signed content did not change the transaction id", replay.clone());
        }
        match real_sig_verdict(&t2, &params) {
            Ok(v2) => {
                if has_signed && v2.is_none() {
                    out.oracle_fail("tampered-accepted", "a transaction modified after signing still passes check_signatures", replay.clone());
                }
                let want2 = reference_sig_verdict(t2.inputs(), &ws, &id2);
                if v2 != want2 {
                    out.oracle_fail("check-signatures-mismatch", &format!("tampered: check_signatures {v2:?}, reference {want2:?}"), replay.clone());
                }
                if with_model {
                    emit_sig_case(out, &t2, &id2, v2, sc.name, "sig-tampered-after-signing", &replay);
                }
            }
            Err(p) => out.oracle_fail("check-signatures-panic", &format!("tampered: {p}"), replay.clone()),
        }
    }
}

// =====================================================================================
// predicates
// =====================================================================================
#[derive(Clone, Copy, Debug, PartialEq)]
enum Outcome {
    True,
    Panic(PanicReason),      // verify_predicate's own Err(Panic(..)): PredicateReturnedNonOne
    PanicInstr(PanicReason), // an instruction panicked
    Loop,                    // never terminates: out of gas for every budget
    GasObserving,            // returns true iff it sees more than 1000 gas (reads $ggas)
}
#[derive(Clone, Debug)]
struct Prog {
    name: &'static str,
    code: Vec<u8>,
    outcome: Outcome,
    /// gas needed to run to the end (measured once by a probe); u64::MAX for Loop
    full_gas: u64,
}

fn programs() -> Vec<Prog> {
    let mk = |name, ops: Vec<fuel_vm::fuel_asm::Instruction>, outcome| Prog { name, code: ops.into_iter().collect(), outcome, full_gas: 0 };
    let mut work = vec![];
    for _ in 0..20 {
        work.push(op::addi(0x10, 0x10, 1));
    }
    work.push(op::ret(RegId::ONE));
    vec![
        mk("true", vec![op::ret(RegId::ONE)], Outcome::True),
        mk("true-3", vec![op::addi(0x10, 0x10, 1), op::addi(0x10, 0x10, 1), op::addi(0x10, 0x10, 1), op::ret(RegId::ONE)], Outcome::True),
        mk("true-20", work, Outcome::True),
        mk("false", vec![op::ret(RegId::ZERO)], Outcome::Panic(PanicReason::PredicateReturnedNonOne)),
        mk("returns-2", vec![op::movi(0x10, 2), op::ret(0x10)], Outcome::Panic(PanicReason::PredicateReturnedNonOne)),
        mk("memory-fault", vec![op::not(0x10, RegId::ZERO), op::lw(0x11, 0x10, 0), op::ret(RegId::ONE)], Outcome::PanicInstr(PanicReason::MemoryOverflow)),
        mk("forbidden-opcode", vec![op::addi(0x10, 0x10, 1), op::rvrt(RegId::ONE)], Outcome::PanicInstr(PanicReason::ContractInstructionNotAllowed)),
        mk("loop", vec![op::ji(0)], Outcome::Loop),
        mk("gas-observing", vec![op::movi(0x10, 1000), op::gt(0x11, RegId::GGAS, 0x10), op::ret(0x11)], Outcome::GasObserving),
    ]
}

fn cpp_standard() -> CheckPredicateParams {
    CheckPredicateParams::from(&ConsensusParameters::standard())
}

#[derive(Clone, Debug, PartialEq)]
enum V {
    Ok(u64),
    Err(u64, u64, u64),
}
impl V {
    fn coq(&self) -> String {
        match self {
            V::Ok(g) => format!("(VOk {g})"),
            V::Err(c, i, r) => format!("(VErr {c} {i} {r})"),
        }
    }
    fn is_ok(&self) -> bool {
        matches!(self, V::Ok(_))
    }
    fn json(&self) -> Value {
        match self {
            V::Ok(g) => json!({"ok":g}),
            V::Err(c, i, r) => json!({"err":[c,i,r]}),
        }
    }
}
fn v_of(r: Result<u64, PredicateVerificationFailed>) -> V {
    use PredicateVerificationFailed as P;
    match r {
        Ok(g) => V::Ok(g),
        Err(P::GasMismatch { index }) => V::Err(1, index as u64, 0),
        Err(P::OutOfGas { index }) => V::Err(2, index as u64, 0),
        Err(P::InvalidOwner { index }) => V::Err(3, index as u64, 0),
        Err(P::False { index }) => V::Err(4, index as u64, 0),
        Err(P::GasNotSpecified { index }) => V::Err(5, index as u64, 0),
        Err(P::TransactionExceedsTotalGasAllowance(g)) => V::Err(6, g, 0),
        Err(P::GasOverflow) => V::Err(7, 0, 0),
        Err(P::Bug(_)) => V::Err(8, 0, 0),
        Err(P::PanicInstruction { index, instruction }) => V::Err(9, index as u64, *instruction.reason() as u8 as u64),
        Err(P::Panic { index, reason }) => V::Err(10, index as u64, reason as u8 as u64),
        Err(P::Storage { index }) => V::Err(11, index as u64, 0),
    }
}

fn seq_check(tx: &Script, cpp: &CheckPredicateParams) -> Result<V, String> {
    let params = ConsensusParameters::standard();
    let checked = tx.clone().into_checked_basic(1u32.into(), &params).map_err(|e| format!("basic: {e:?}"))?;
    guarded(|| v_of(predicates::check_predicates(&checked, cpp, MemoryInstance::new(), &EmptyStorage, NotSupportedEcal).map(|p| p.gas_used())))
}
fn par_check(rt: &tokio::runtime::Runtime, tx: &Script, cpp: &CheckPredicateParams, shuffle_seed: u64) -> Result<(V, Vec<usize>), String> {
    let params = ConsensusParameters::standard();
    let checked = tx.clone().into_checked_basic(1u32.into(), &params).map_err(|e| format!("basic: {e:?}"))?;
    SHUFFLE_SEED.store(shuffle_seed, Ordering::SeqCst);
    LAST_ORDER.lock().unwrap().clear();
    let v = guarded(|| {
        rt.block_on(async { v_of(predicates::check_predicates_async::<Script, NotSupportedEcal, ShuffleExec>(&checked, cpp, &DummyPool, &EmptyStorage, NotSupportedEcal).await.map(|p| p.gas_used())) })
    })?;
    Ok((v, LAST_ORDER.lock().unwrap().clone()))
}
fn estimate(tx: &Script, cpp: &CheckPredicateParams) -> Result<(V, Script), String> {
    let mut t = tx.clone();
    let v = guarded(|| v_of(predicates::estimate_predicates(&mut t, cpp, MemoryInstance::new(), &EmptyStorage, NotSupportedEcal).map(|p| p.gas_used())))?;
    Ok((v, t))
}
fn gas_fields(tx: &Script) -> Vec<u64> {
    tx.inputs().iter().map(|i| i.predicate_gas_used().unwrap_or(0)).collect()
}

/// gas a program needs, measured by estimating a transaction that contains only this predicate
fn probe(progs: &mut [Prog], notes: &mut Vec<String>) {
    let cpp = cpp_standard();
    let mut rng = Rng::new(99);
    for p in progs.iter_mut() {
        if p.outcome == Outcome::Loop {
            p.full_gas = u64::MAX;
            continue;
        }
        let owner: B32 = *Input::predicate_owner(&p.code);
        let tx = make_script(vec![predicate_input(&mut rng, 0, owner, p.code.clone(), 0)], 0, vec![]);
        match estimate(&tx, &cpp) {
            Ok((V::Ok(g), _)) => p.full_gas = g,
            other => notes.push(format!("probe of program {} failed: {:?}", p.name, other.map(|x| x.0))),
        }
        // the outcome written down by construction must be what a lone verification reports
        let tx2 = make_script(vec![predicate_input(&mut rng, 0, owner, p.code.clone(), p.full_gas)], 0, vec![]);
        let v = seq_check(&tx2, &cpp);
        let want = match p.outcome {
            Outcome::True => V::Ok(p.full_gas),
            Outcome::Panic(r) => V::Err(10, 0, r as u8 as u64),
            Outcome::PanicInstr(r) => V::Err(9, 0, r as u8 as u64),
            Outcome::GasObserving => V::Err(10, 0, PanicReason::PredicateReturnedNonOne as u8 as u64),
            Outcome::Loop => V::Err(2, 0, 0),
        };
        if v != Ok(want.clone()) {
            notes.push(format!("probe: program {} verifies to {:?}, expected {:?} by construction", p.name, v, want));
        }
    }
}

#[derive(Clone, Debug)]
struct PredIn {
    prog: usize,
    declared: u64,
    owner_ok: bool,
}
#[derive(Clone, Debug)]
enum PIn {
    Pred(PredIn),
    Signed,
    Contract,
}

fn coq_run_state(p: &Prog) -> Option<String> {
    Some(match p.outcome {
        Outcome::True => "RReturnOne".to_string(),
        Outcome::Panic(r) => format!("(RErrPanic {})", r as u8),
        Outcome::PanicInstr(r) => format!("(RErrPanicInstr {})", r as u8),
        Outcome::Loop => "RErrOutOfGas".to_string(),
        Outcome::GasObserving => return None,
    })
}

#[allow(clippy::too_many_arguments)]
fn pred_case(out: &mut Out, rt: &tokio::runtime::Runtime, progs: &[Prog], case_seed: u64, which: u64, with_model: bool) {
    let mut rng = Rng::new(case_seed);
    let replay = json!({"kind":"pred","case_seed":case_seed,"scenario":which});
    let mut cpp = cpp_standard();
    // the standard per-predicate allowance (100M) makes the non-terminating program run for seconds
    cpp.max_gas_per_predicate = 20_000;
    let good: Vec<usize> = progs.iter().enumerate().filter(|(_, p)| p.outcome == Outcome::True).map(|(i, _)| i).collect();
    let modelled: Vec<usize> = progs.iter().enumerate().filter(|(_, p)| p.outcome != Outcome::GasObserving).map(|(i, _)| i).collect();
    let by_name = |n: &str| progs.iter().position(|p| p.name == n).unwrap();
    let exact = |i: usize| if progs[i].full_gas == u64::MAX { 500 } else { progs[i].full_gas };
    let okp = |i: usize| PIn::Pred(PredIn { prog: i, declared: exact(i), owner_ok: true });
    // ---- the scenario: inputs + parameter tweaks
    let (name, spec): (&str, Vec<PIn>) = match which {
        0 => ("all-true-exact-gas", (0..1 + rng.below(4)).map(|_| okp(*rng.pick(&good))).collect()),
        1 => ("mixed-signed-contract-true", vec![PIn::Signed, okp(*rng.pick(&good)), PIn::Contract, okp(*rng.pick(&good)), PIn::Signed]),
        2 => {
            // one predicate with a wrong declared gas (less / more / zero / a lot more)
            let mut v: Vec<PIn> = (0..1 + rng.below(3)).map(|_| okp(*rng.pick(&good))).collect();
            let i = *rng.pick(&good);
            let g = exact(i);
            let d = *rng.pick(&[g.saturating_sub(1), g + 1, 0, g + 1000, g / 2]);
            let pos = rng.below(v.len() as u64 + 1) as usize;
            v.insert(pos, PIn::Pred(PredIn { prog: i, declared: d, owner_ok: true }));
            ("wrong-declared-gas", v)
        }
        3 => {
            // a failing program among good ones, with its exact gas / too little / too much
            let mut v: Vec<PIn> = (0..rng.below(3)).map(|_| okp(*rng.pick(&good))).collect();
            let i = *rng.pick(&[by_name("false"), by_name("returns-2"), by_name("memory-fault"), by_name("forbidden-opcode"), by_name("loop")]);
            let g = exact(i);
            let d = *rng.pick(&[g, g, g.saturating_sub(1), g + 5]);
            let pos = rng.below(v.len() as u64 + 1) as usize;
            v.insert(pos, PIn::Pred(PredIn { prog: i, declared: d, owner_ok: true }));
            ("failing-predicate", v)
        }
        4 => {
            // wrong owner (alone, or together with other failures: which error is reported)
            let mut v: Vec<PIn> = (0..1 + rng.below(3)).map(|_| okp(*rng.pick(&modelled))).collect();
            let pos = rng.below(v.len() as u64) as usize;
            if let PIn::Pred(p) = &mut v[pos] {
                p.owner_ok = false;
            }
            ("wrong-owner", v)
        }
        5 => {
            // several failures at once: the first in task order is reported sequentially
            let v: Vec<PIn> = (0..2 + rng.below(3))
                .map(|_| {
                    let i = *rng.pick(&modelled);
                    let g = exact(i);
                    PIn::Pred(PredIn { prog: i, declared: *rng.pick(&[g, g, g + 1, g.saturating_sub(1)]), owner_ok: !rng.chance(1, 5) })
                })
                .collect();
            ("several-failures", v)
        }
        6 => {
            // total gas allowance: max_gas_per_tx just below / at / above max_gas
            ("total-gas-allowance", (0..1 + rng.below(3)).map(|_| okp(*rng.pick(&good))).collect())
        }
        7 => {
            // per-predicate allowance smaller than what a program needs (matters for estimation)
            cpp.max_gas_per_predicate = *rng.pick(&[0, 1, exact(by_name("true-20")) - 1, exact(by_name("true-20")), exact(by_name("true-3"))]);
            ("per-predicate-allowance", vec![okp(by_name("true-20")), okp(by_name("true-3")), okp(by_name("true"))])
        }
        8 => {
            // estimation of arbitrary declared values (all programs true)
            ("estimate-from-garbage", (0..1 + rng.below(4)).map(|_| PIn::Pred(PredIn { prog: *rng.pick(&good), declared: rng.below(3) * rng.below(100), owner_ok: true })).collect())
        }
        9 => {
            // the gas-observing predicate (oracle only): estimation succeeds, verification cannot
            ("gas-observing-predicate", vec![okp(*rng.pick(&good)), PIn::Pred(PredIn { prog: by_name("gas-observing"), declared: 0, owner_ok: true })])
        }
        _ => {
            let v: Vec<PIn> = (0..1 + rng.below(5))
                .map(|_| match rng.below(8) {
                    0 => PIn::Signed,
                    1 => PIn::Contract,
                    _ => {
                        let i = *rng.pick(&modelled);
                        let g = exact(i);
                        PIn::Pred(PredIn { prog: i, declared: if rng.chance(3, 4) { g } else { rng.below(2 * g.min(10_000) + 2) }, owner_ok: !rng.chance(1, 10) })
                    }
                })
                .collect();
            ("random-mixture", v)
        }
    };
    // ---- build the transaction
    let k = rng.bytes32()[0] as u64;
    let mut inputs = vec![];
    let mut n_signed = 0;
    let mut spendable = false;
    for (j, s) in spec.iter().enumerate() {
        // message inputs with data are not spendable: make sure one coin / message-coin input exists
        let kind = if spendable { k + j as u64 } else { rng.below(2) };
        inputs.push(match s {
            PIn::Pred(p) => {
                spendable = true;
                let code = progs[p.prog].code.clone();
                let mut owner: B32 = *Input::predicate_owner(&code);
                if !p.owner_ok {
                    owner[rng.below(32) as usize] ^= 0x20;
                }
                predicate_input(&mut rng, kind, owner, code, p.declared)
            }
            PIn::Signed => {
                spendable = true;
                n_signed += 1;
                signed_input(&mut rng, kind, key_address(0), 0)
            }
            PIn::Contract => contract_input(&mut rng),
        });
    }
    let mut tx = make_script(inputs, if n_signed > 0 { 1 } else { 0 }, vec![]);
    if n_signed > 0 {
        let id: B32 = *tx.id(&cpp.chain_id);
        *tx.witnesses_mut() = vec![Witness::from(Signature::sign(&key(0), &Message::from_bytes(id)).as_ref().to_vec())];
    }
    // max_gas = base + sum of declared gas (checked on the zeroed copy)
    let declared_sum: u64 = gas_fields(&tx).iter().sum();
    let mg = tx.max_gas(&cpp.gas_costs, &cpp.fee_params);
    let mut zeroed = tx.clone();
    for i in zeroed.inputs_mut().iter_mut() {
        match i {
            Input::CoinPredicate(c) => c.predicate_gas_used = 0,
            Input::MessageCoinPredicate(m) => m.predicate_gas_used = 0,
            Input::MessageDataPredicate(m) => m.predicate_gas_used = 0,
            _ => {}
        }
    }
    let base = zeroed.max_gas(&cpp.gas_costs, &cpp.fee_params);
    if base + declared_sum != mg {
        out.notes.push(format!("max_gas is not base + declared sum ({base} + {declared_sum} != {mg}); case skipped"));
        return;
    }
    if which == 6 {
        cpp.max_gas_per_tx = *rng.pick(&[mg - 1, mg, mg + 1, base]);
    }
    // ---- run the real code
    out.oracle_evaluations += 1;
    let seq = match seq_check(&tx, &cpp) {
        Ok(v) => v,
        Err(e) => {
            if e.starts_with("basic:") {
                out.notes.push(format!("pred case skipped ({name}): {e}"));
            } else {
                out.oracle_fail("check-predicates-panic", &format!("check_predicates panicked: {e}"), replay);
            }
            return;
        }
    };
    let (par, order) = match par_check(rt, &tx, &cpp, rng.next()) {
        Ok(x) => x,
        Err(e) => {
            out.oracle_fail("check-predicates-async-panic", &format!("check_predicates_async panicked: {e}"), replay);
            return;
        }
    };
    // a second delivery order for the oracle
    let par2 = par_check(rt, &tx, &cpp, rng.next()).map(|x| x.0);
    // ---- direct statements
    if seq.is_ok() != par.is_ok() || (seq.is_ok() && seq != par) || par2.as_ref().map(|p| p.is_ok() != seq.is_ok() || (seq.is_ok() && *p != seq)).unwrap_or(true) {
        out.oracle_fail("sequential-parallel-mismatch", &format!("check_predicates = {seq:?} but check_predicates_async = {par:?} / {par2:?} (delivery order {order:?}) [{name}]"), replay.clone());
    }
    let all_authorised = spec.iter().all(|s| match s {
        PIn::Pred(p) => p.owner_ok && progs[p.prog].outcome == Outcome::True && p.declared == progs[p.prog].full_gas,
        _ => true,
    });
    let within = mg <= cpp.max_gas_per_tx;
    if seq.is_ok() && !(all_authorised && within) {
        out.oracle_fail("accepted-unauthorised-predicate", &format!("check_predicates accepted {seq:?} although a predicate input has a wrong owner / does not return true / declares another gas amount, or max_gas exceeds the allowance [{name}]"), replay.clone());
    }
    if !seq.is_ok() && all_authorised && within {
        out.oracle_fail("rejected-authorised-predicates", &format!("check_predicates rejected {seq:?} a transaction whose predicates are all owned, true and exactly declared [{name}]"), replay.clone());
    }
    if let V::Ok(g) = seq {
        if g != declared_sum {
            out.oracle_fail("predicate-gas-total", &format!("reported gas {g} != sum of declared predicate gas {declared_sum}"), replay.clone());
        }
    }
    // ---- estimation, then verification of the estimated transaction
    let owners_ok = spec.iter().all(|s| !matches!(s, PIn::Pred(p) if !p.owner_ok));
    let est = estimate(&tx, &cpp);
    let mut est_field: Option<(V, Vec<u64>)> = None;
    let mut est_check: Option<V> = None;
    match est {
        Err(e) => out.oracle_fail("estimate-predicates-panic", &format!("estimate_predicates panicked: {e}"), replay.clone()),
        Ok((ev, etx)) => {
            let fields = if ev.is_ok() { gas_fields(&etx) } else { vec![] };
            if ev.is_ok() {
                match seq_check(&etx, &cpp) {
                    Ok(cv) => {
                        if owners_ok && !cv.is_ok() {
                            // did a predicate run out of gas DURING estimation (allowance smaller than its need)?
                            let mut global = cpp.max_gas_per_tx.saturating_sub(mg);
                            let mut starved = false;
                            for s in spec.iter() {
                                if let PIn::Pred(p) = s {
                                    let avail = global.min(cpp.max_gas_per_predicate);
                                    let need = progs[p.prog].full_gas;
                                    if need > avail {
                                        starved = true;
                                    }
                                    global = global.saturating_sub(need.min(avail));
                                }
                            }
                            let class = if spec.iter().any(|s| matches!(s, PIn::Pred(p) if !matches!(progs[p.prog].outcome, Outcome::True | Outcome::GasObserving))) {
                                "estimate-ok-on-failing-predicate"
                            } else if spec.iter().any(|s| matches!(s, PIn::Pred(p) if progs[p.prog].outcome == Outcome::GasObserving)) {
                                "estimate-ok-gas-observing-predicate"
                            } else if starved {
                                "estimate-ok-predicate-out-of-gas"
                            } else {
                                "estimate-ok-verify-fails"
                            };
                            out.oracle_fail(class, &format!("estimate_predicates succeeded ({ev:?}) but check_predicates on the estimated transaction fails with {cv:?} [{name}]"), replay.clone());
                        }
                        if let (V::Ok(a), V::Ok(b)) = (&ev, &cv) {
                            if a != b {
                                out.oracle_fail("estimate-verify-gas", &format!("estimation reports {a} gas, verification of the estimated transaction {b}"), replay.clone());
                            }
                        }
                        est_check = Some(cv);
                    }
                    Err(e) => out.notes.push(format!("estimated tx not checkable: {e}")),
                }
            }
            est_field = Some((ev, fields));
        }
    }
    // ---- the model case
    let has_unmodelled = spec.iter().any(|s| matches!(s, PIn::Pred(p) if progs[p.prog].outcome == Outcome::GasObserving));
    if with_model && !has_unmodelled {
        let mut pr = vec![];
        for (j, s) in spec.iter().enumerate() {
            if let PIn::Pred(p) = s {
                let g = if progs[p.prog].full_gas == u64::MAX { "18446744073709551616".to_string() } else { progs[p.prog].full_gas.to_string() };
                pr.push(format!("({}, ({}, {}))", j, g, coq_run_state(&progs[p.prog]).unwrap()));
            }
        }
        let coq = format!(
            "CPred (mkPred {} {} {} {} {} {} {} {} {} {})",
            coq_inputs(tx.inputs()),
            coq_list(&pr),
            base,
            cpp.max_gas_per_tx,
            cpp.max_gas_per_predicate,
            seq.coq(),
            coq_list(&order.iter().map(|k| k.to_string()).collect::<Vec<_>>()),
            par.coq(),
            coq_opt(est_field.as_ref().map(|(v, f)| coq_pair(&v.coq(), &coq_list(&f.iter().map(|x| x.to_string()).collect::<Vec<_>>())))),
            coq_opt(est_check.as_ref().map(|v| v.coq()))
        );
        let desc: Vec<Value> = spec
            .iter()
            .map(|s| match s {
                PIn::Pred(p) => json!({"prog":progs[p.prog].name,"declared":p.declared,"needs":progs[p.prog].full_gas,"owner_ok":p.owner_ok}),
                PIn::Signed => json!("signed"),
                PIn::Contract => json!("contract"),
            })
            .collect();
        out.push(Case {
            coq,
            json: json!({"kind":"pred","scenario":name,"inputs":desc,"max_gas":mg,"max_gas_per_tx":cpp.max_gas_per_tx,"max_gas_per_predicate":cpp.max_gas_per_predicate,
                         "sequential":seq.json(),"parallel":par.json(),"order":order,"estimate":est_field.as_ref().map(|(v,_)| v.json()),"check_after_estimate":est_check.as_ref().map(|v| v.json()),"replay":replay}),
            key: format!("pred:{}:{:?}:{:?}:{:?}", name, seq, par, desc),
            nontrivial: spec.iter().filter(|s| matches!(s, PIn::Pred(_))).count() >= 2 || !seq.is_ok(),
            class: format!("pred-{name}"),
        });
    } else {
        out.count(&format!("pred-{name}-oracle-only"));
    }
}

// ------------------------------------------------------------------ driver
fn run_c20(args: &Args, out: &mut Out) {
    let rt = tokio::runtime::Builder::new_multi_thread().worker_threads(4).enable_all().build().expect("tokio runtime");
    let mut progs = programs();
    let mut notes = vec![];
    probe(&mut progs, &mut notes);
    out.notes.extend(notes);
    for p in &progs {
        out.notes.push(format!("program {}: {} bytes, needs {} gas, outcome {:?}", p.name, p.code.len(), p.full_gas, p.outcome));
    }
    if let Some(p) = &args.replay {
        let v = read_replay(p);
        let seed = v["case_seed"].as_u64().unwrap_or(0);
        let which = v["scenario"].as_u64().unwrap_or(0);
        match v["kind"].as_str().unwrap_or("") {
            "sig" => sig_case(out, seed, which, true),
            "pred" => pred_case(out, &rt, &progs, seed, which, true),
            k => eprintln!("auth: unknown replay kind {k}"),
        }
        return;
    }
    let mut rng = Rng::new(args.seed);
    let model = !args.oracle_only;
    // signatures: every scenario a few times with the model, many more oracle-only
    let reps = args.scale(5, 30);
    for which in 0..13u64 {
        for _ in 0..reps {
            sig_case(out, rng.next(), which, model);
        }
    }
    for _ in 0..args.scale(600, 20000) {
        sig_case(out, rng.next(), rng.below(13), false);
    }
    // predicates
    let reps = args.scale(8, 40);
    for which in 0..11u64 {
        for _ in 0..reps {
            pred_case(out, &rt, &progs, rng.next(), which, model);
        }
    }
    for _ in 0..args.scale(400, 10000) {
        pred_case(out, &rt, &progs, rng.next(), rng.below(11), false);
    }
}

fn main() {
    quiet_panics();
    let args = Args::parse();
    let mut out = Out::new();
    let header = "From FV Require Import Base.Bytes Auth.AuthModel Run.Auth.\nOpen Scope N_scope.";
    match args.prop.as_str() {
        "C20" => {
            run_c20(&args, &mut out);
            out.write(&args, header, "auth_case", "bad_auth");
        }
        p => {
            eprintln!("auth: unknown property {p}");
            std::process::exit(2);
        }
    }
}
