//! Reuse family (C31): execution is deterministic and independent of VM instance reuse.
//!
//! A case = (history, target).  The history (1..5 transactions: grammar scenarios with their
//! contracts, garbage programs, "dirtying" scripts that leave a large dirty heap / a deep dirty
//! stack, warm storage-slot caches, panics, reverts, out-of-gas, the target itself) runs on ONE
//! `Interpreter` and, in parallel, on one `Transactor`.  Then the target transaction runs
//!   (a) on a brand-new interpreter over a copy of the storage the history produced,
//!   (b) on the reused interpreter, (c) on the reused transactor.
//! Directed pairs run first (`directed_pairs`): reader scripts over every per-transaction derived
//! field (owner pointer present/absent/moved, contract inputs, balances table, offsets).
//! Oracle (property text): identical ProgramState / error, receipts, resulting transaction
//! (outputs, receipts root), storage, final registers and accessible memory.
//! Predicates: generated predicate programs that probe freshly allocated heap and stack bytes are
//! estimated and checked with fresh memory, with a dirty memory taken from a used interpreter
//! (reused for all predicates of the transaction and across transactions) and through a
//! `VmMemoryPool` that recycles dirty memories (async path); verdicts and gas must agree.
//! Coq case (Run/Reuse.v): transaction/parameter facts, the instance pre-states (new and used) and
//! the post-initialisation snapshot (registers, stack buffer, hp) read from the real VM right
//! before the first instruction; the Gallina init_script must reproduce the snapshot from both.
use fuel_asm::{op, Instruction, RegId};
use fuel_tx::{field::Outputs as _, ConsensusParameters, Input, Script, TransactionBuilder, TxPointer, UtxoId};
use fuel_types::{canonical::Serialize as _, AssetId, BlockHeight, Word};
use fuel_vm::checked_transaction::{CheckPredicateParams, EstimatePredicates, IntoChecked, ParallelExecutor};
use fuel_vm::error::PredicateVerificationFailed;
use fuel_vm::interpreter::{Interpreter, MemoryInstance, NotSupportedEcal};
use fuel_vm::pool::VmMemoryPool;
use fuel_vm::prelude::Breakpoint;
use fuel_vm::state::ProgramState;
use fuel_vm::storage::predicate::EmptyStorage;
use fuel_vm::storage::MemoryStorage;
use fuel_vm::transactor::Transactor;
use fvh::vmtrace::*;
use fvh::*;
use serde_json::{json, Value};
use std::collections::BTreeMap;
use std::future::Future;
use std::pin::Pin;
use std::sync::{Arc, Mutex};

type Vm = Interpreter<MemoryInstance, MemoryStorage, Script>;
type Tr = Transactor<MemoryInstance, MemoryStorage, Script>;

// ------------------------------------------------------------------ history items
#[derive(Clone)]
struct HItem { kind: String, tx: TxSpec, contracts: Vec<ContractDef> }

fn w32(i: Instruction) -> u32 { u32::from_be_bytes(i.into()) }

/// a script that leaves a large dirty heap and/or a deep dirty stack behind
fn dirtier(rng: &mut Rng, base: AssetId, heap: bool, stack: bool, end: u64) -> TxSpec {
    let mut p: Vec<Instruction> = vec![];
    let (t0, t1, t2) = (0x30u8, 0x31u8, 0x32u8);
    p.push(op::not(t2, RegId::ZERO)); // 0xFFFF.. pattern source
    let cnt = 0x33u8;
    // for (t0 = base; cnt > 0; cnt--, t0 += 512) { *t0 = 0xFFFF_FFFF_FFFF_FFFF }
    let fill = |p: &mut Vec<Instruction>, base: RegId, n: u32| {
        p.push(op::movi(cnt, n / 512));
        p.push(op::move_(t0, base));
        p.push(op::sw(t0, t2, 0));
        p.push(op::addi(t0, t0, 512));
        p.push(op::subi(cnt, cnt, 1));
        p.push(op::jnzb(cnt, RegId::ZERO, 2));
    };
    if stack {
        let n = (rng.range(2_000, 120_000) / 512 * 512) as u32;
        p.push(op::cfei(n));
        fill(&mut p, RegId::SSP, n);
        p.push(op::mcpi(RegId::SSP, RegId::ZERO, 64)); // the tx id and base asset (non-zero bytes)
        p.push(op::subi(t0, RegId::SP, 8));
        p.push(op::sw(t0, t2, 0));
    }
    if heap {
        for _ in 0..rng.range(1, 6) {
            let n = (rng.range(512, 200_000) / 512 * 512) as u32;
            p.push(op::movi(t1, n));
            p.push(op::aloc(t1));
            fill(&mut p, RegId::HP, n);
            p.push(op::mcpi(RegId::HP, RegId::ZERO, 48));
            p.push(op::addi(t0, RegId::HP, 504));
            p.push(op::sw(t0, t2, 0));
        }
    }
    match end {
        0 => p.push(op::ret(RegId::ONE)),
        1 => p.push(op::rvrt(RegId::ONE)),
        2 => p.push(op::ji(9_000_000)),        // jump out of the code: panic
        _ => { let l = p.len() as u32; p.push(op::ji(l)); } // self loop: out of gas
    }
    let bytes = words_to_bytes(&p.iter().map(|i| w32(*i)).collect::<Vec<_>>());
    let mut tx = TxSpec::new(bytes, rng.bytes_upto(40), if end == 3 { rng.range(2_000, 60_000) } else { 50_000_000 });
    tx.key_seed = rng.next();
    tx.coins.push((base, 1000));
    tx
}

fn gen_history(rng: &mut Rng, target: &Scenario) -> Vec<HItem> {
    let base = target.world.assets[0];
    // a self-jump ends by OutOfGas only when jumps cost gas: not guaranteed by randomised schedules
    let ends = if matches!(target.world.schedule, GasSchedule::Random(_)) { 3 } else { 4 };
    let n = rng.range(1, 5) as usize;
    let mut out = vec![];
    for _ in 0..n {
        match rng.below(10) {
            0 | 1 | 2 => {
                let mut cfg = GenCfg::default();
                cfg.n_contracts = rng.below(3) as usize;
                cfg.unit_items = rng.range(4, 14) as usize;
                if rng.chance(1, 4) { cfg.gas_limit = rng.below(3000); }
                if rng.chance(1, 4) { cfg.fault_per_mille = 40; }
                let s = gen_scenario(rng, &cfg);
                out.push(HItem { kind: "grammar".into(), tx: s.tx.clone(), contracts: s.world.contracts.clone() });
            }
            3 => {
                let (nw, gl) = (rng.range(4, 40) as usize, rng.range(100, 100_000));
                let s = gen_garbage_scenario(rng, GasSchedule::Default, nw, gl);
                out.push(HItem { kind: "garbage".into(), tx: s.tx.clone(), contracts: s.world.contracts.clone() });
            }
            4 | 5 => { let e = rng.below(ends); out.push(HItem { kind: "dirty-heap".into(), tx: dirtier(rng, base, true, false, e), contracts: vec![] }) }
            6 => { let e = rng.below(ends); out.push(HItem { kind: "dirty-stack".into(), tx: dirtier(rng, base, false, true, e), contracts: vec![] }) }
            7 => { let e = rng.below(ends); out.push(HItem { kind: "dirty-both".into(), tx: dirtier(rng, base, true, true, e), contracts: vec![] }) }
            _ => out.push(HItem { kind: "target-itself".into(), tx: target.tx.clone(), contracts: vec![] }),
        }
    }
    out
}

// ------------------------------------------------------------------ observation of a run
#[derive(Clone, PartialEq)]
struct Obs { state: String, receipts: Vec<fuel_tx::Receipt>, tx: Script, storage: String, regs: Vec<u64>, mem_eq_key: (usize, u64), }

fn storage_image(s: &MemoryStorage) -> String { format!("{s:?}") }

fn observe(vm: &Vm, state: String) -> Obs {
    Obs { state, receipts: vm.receipts().to_vec(), tx: vm.transaction().clone(), storage: storage_image(vm.as_ref()),
          regs: vm.registers().to_vec(), mem_eq_key: (vm.memory().stack_raw().len(), vm.registers()[RegId::HP.to_u8() as usize]) }
}

fn state_str(r: Result<ProgramState, String>) -> String {
    match r { Ok(s) => format!("{s:?}"), Err(e) => format!("Err({})", e.split('(').next().unwrap_or("")) }
}

fn diff_obs(a: &Obs, b: &Obs) -> Vec<String> {
    let mut d = vec![];
    if a.state != b.state { d.push(format!("program state {} vs {}", a.state, b.state)); }
    if a.receipts != b.receipts { d.push(format!("receipts differ ({} vs {})", a.receipts.len(), b.receipts.len())); }
    if a.tx.outputs() != b.tx.outputs() { d.push("outputs differ".into()); }
    if a.tx != b.tx { d.push("resulting transaction differs".into()); }
    if a.storage != b.storage { d.push("storage differs".into()); }
    if a.regs != b.regs { d.push("final registers differ".into()); }
    d
}

// ------------------------------------------------------------------ predicates
struct Inline;
type PredRes = (usize, Result<Word, PredicateVerificationFailed>);
impl ParallelExecutor for Inline {
    type Task = std::future::Ready<PredRes>;
    fn create_task<F>(func: F) -> Self::Task where F: FnOnce() -> PredRes + Send + 'static { std::future::ready(func()) }
    fn execute_tasks<'async_trait>(futures: Vec<Self::Task>) -> Pin<Box<dyn Future<Output = Vec<PredRes>> + Send + 'async_trait>> {
        Box::pin(async move { let mut v = vec![]; for f in futures { v.push(f.await); } v })
    }
}

/// a pool that hands out DIRTY memories and takes them back when dropped
#[derive(Clone)]
struct DirtyPool { free: Arc<Mutex<Vec<MemoryInstance>>>, handed_out: Arc<Mutex<u64>> }
struct Pooled { mem: Option<MemoryInstance>, pool: Arc<Mutex<Vec<MemoryInstance>>> }
impl AsRef<MemoryInstance> for Pooled { fn as_ref(&self) -> &MemoryInstance { self.mem.as_ref().unwrap() } }
impl AsMut<MemoryInstance> for Pooled { fn as_mut(&mut self) -> &mut MemoryInstance { self.mem.as_mut().unwrap() } }
impl Drop for Pooled { fn drop(&mut self) { if let Some(m) = self.mem.take() { self.pool.lock().unwrap().push(m); } } }
impl VmMemoryPool for DirtyPool {
    type Memory = Pooled;
    fn get_new(&self) -> impl Future<Output = Self::Memory> + Send {
        let m = self.free.lock().unwrap().pop().unwrap_or_default();
        *self.handed_out.lock().unwrap() += 1;
        std::future::ready(Pooled { mem: Some(m), pool: self.free.clone() })
    }
}

/// predicate program: ALU noise, probes of freshly exposed heap / stack bytes OR-ed into `acc`,
/// returns (acc == 0) (or, rarely, something else)
fn gen_predicate(rng: &mut Rng) -> Vec<u8> {
    let (acc, t0, t1, r) = (0x20u8, 0x21u8, 0x22u8, 0x23u8);
    let mut p: Vec<Instruction> = vec![op::movi(acc, 0)];
    let t2 = 0x24u8;
    for _ in 0..rng.range(1, 5) {
        match rng.below(5) {
            0 | 1 | 2 => {
                // fresh stack bytes == fresh heap bytes (both must be all zero), whole regions
                let n = (rng.range(8, 150_000) / 8 * 8) as u32;
                p.push(op::cfei(n));
                p.push(op::movi(t0, n));
                p.push(op::aloc(t0));
                p.push(op::sub(t1, RegId::SP, t0));
                p.push(op::meq(t2, RegId::HP, t1, t0));
                p.push(op::xori(t2, t2, 1));
                p.push(op::or(acc, acc, t2));
                // and single words of both
                let off = (rng.below(n as u64 / 8) * 8).min(n as u64 - 8) as u32;
                p.push(op::movi(t2, off));
                p.push(op::add(t2, t2, RegId::HP));
                p.push(op::lw(t2, t2, 0));
                p.push(op::or(acc, acc, t2));
                p.push(op::lw(t2, t1, 0));
                p.push(op::or(acc, acc, t2));
                // leave something behind for the next user of this memory
                p.push(op::not(t0, RegId::ZERO));
                p.push(op::sw(t1, t0, 0));
                p.push(op::sw(RegId::HP, t0, 0));
                p.push(op::subi(t1, RegId::SP, 8));
                p.push(op::sw(t1, t0, 0));
            }
            3 => {
                let n = rng.range(8, 4000) as u32;
                p.push(op::movi(t0, n));
                p.push(op::aloc(t0));
                p.push(op::lw(t1, RegId::HP, 0));
                p.push(op::or(acc, acc, t1));
            }
            _ => {
                p.push(op::addi(t0, RegId::ONE, rng.below(4000) as u16));
                p.push(op::mul(t0, t0, t0));
                p.push(op::xor(t0, t0, t0));
                p.push(op::or(acc, acc, t0));
            }
        }
    }
    p.push(op::eq(r, acc, RegId::ZERO));
    match rng.below(14) { 0 => p.push(op::ret(RegId::ZERO)), 1 => p.push(op::rvrt(r)), 2 => p.push(op::lw(r, RegId::HP, 4000)), _ => p.push(op::ret(r)) }
    words_to_bytes(&p.iter().map(|i| w32(*i)).collect::<Vec<_>>())
}

fn pred_result_str<T: std::fmt::Debug>(r: &Result<T, PredicateVerificationFailed>) -> String {
    // T = PredicatesChecked { gas_used } (the type is not nameable from outside the crate)
    match r { Ok(c) => format!("Ok({c:?})"), Err(e) => format!("Err({e:?})") }
}

fn run_predicates(rng: &mut Rng, params: &ConsensusParameters, dirty: &[MemoryInstance], out: &mut Out, idx: usize, rt: &tokio::runtime::Runtime) {
    use rand::{rngs::StdRng, Rng as _, SeedableRng};
    let mut r = StdRng::seed_from_u64(rng.next());
    let n_pred = rng.range(1, 3);
    let mut b = TransactionBuilder::script(words_to_bytes(&[w32(op::ret(RegId::ONE))]), vec![]);
    b.with_params(params.clone());
    b.script_gas_limit(10_000).max_fee_limit(0);
    let mut codes = vec![];
    for i in 0..n_pred {
        let code = gen_predicate(rng);
        let owner = Input::predicate_owner(&code);
        b.add_input(Input::coin_predicate(UtxoId::new(r.r#gen(), i as u16), owner, 1000, *params.base_asset_id(), TxPointer::default(), 0, code.clone(), rng.bytes_upto(24)));
        codes.push(hex::encode(&code));
    }
    use fuel_tx::Finalizable;
    let mut tx = b.finalize();
    let cpp: CheckPredicateParams = params.into();
    let replay = json!({"kind": "predicates", "predicates": codes});
    out.oracle_evaluations += 1;
    // estimation: fresh vs dirty memory
    let mut tx_dirty = tx.clone();
    let e1 = guarded(|| tx.estimate_predicates(&cpp, MemoryInstance::new(), &EmptyStorage));
    let mut dm = dirty.first().cloned().unwrap_or_default();
    let e2 = guarded(|| tx_dirty.estimate_predicates(&cpp, &mut dm, &EmptyStorage));
    let es = |e: &Result<Result<(), fuel_vm::checked_transaction::CheckError>, String>| match e { Ok(Ok(())) => "Ok".to_string(), Ok(Err(x)) => format!("Err({x:?})"), Err(p) => format!("HostPanic({p})") };
    if es(&e1) != es(&e2) || tx != tx_dirty {
        out.oracle_fail("predicate-estimation-depends-on-memory-reuse", &format!("estimation with fresh memory {} vs dirty memory {}; estimated tx equal: {}", es(&e1), es(&e2), tx == tx_dirty), replay.clone());
    }
    if e1.is_err() { out.oracle_fail("host-panic-in-predicate-estimation", &es(&e1), replay.clone()); }
    let checked = match tx.clone().into_checked_basic(BlockHeight::from(1u32), params) { Ok(c) => c, Err(_) => { out.count("predicate-tx-not-checkable"); return; } };
    use fuel_vm::interpreter::predicates::{check_predicates, check_predicates_async};
    let fresh = guarded(|| check_predicates(&checked, &cpp, MemoryInstance::new(), &EmptyStorage, NotSupportedEcal));
    let mut verdicts: Vec<(String, String)> = vec![];
    let fs = match &fresh { Ok(r) => pred_result_str(r), Err(p) => format!("HostPanic({p})") };
    verdicts.push(("fresh".into(), fs.clone()));
    // the same dirty memory object used again and again
    for round in 0..2 {
        let rr = guarded(|| check_predicates(&checked, &cpp, &mut dm, &EmptyStorage, NotSupportedEcal));
        verdicts.push((format!("reused-dirty-{round}"), match &rr { Ok(r) => pred_result_str(r), Err(p) => format!("HostPanic({p})") }));
    }
    for (k, m) in dirty.iter().enumerate().skip(1).take(2) {
        let rr = guarded(|| check_predicates(&checked, &cpp, m.clone(), &EmptyStorage, NotSupportedEcal));
        verdicts.push((format!("dirty-from-history-{k}"), match &rr { Ok(r) => pred_result_str(r), Err(p) => format!("HostPanic({p})") }));
    }
    let pool = DirtyPool { free: Arc::new(Mutex::new(dirty.to_vec())), handed_out: Arc::new(Mutex::new(0)) };
    for round in 0..2 {
        let rr = guarded(|| rt.block_on(check_predicates_async::<_, _, Inline>(&checked, &cpp, &pool, &EmptyStorage, NotSupportedEcal)));
        verdicts.push((format!("pool-{round}"), match &rr { Ok(r) => pred_result_str(r), Err(p) => format!("HostPanic({p})") }));
    }
    let bad: Vec<&(String, String)> = verdicts.iter().filter(|v| v.1 != fs).collect();
    if !bad.is_empty() {
        out.oracle_fail("predicate-verdict-depends-on-memory-reuse", &format!("fresh memory: {fs}; {}: {}", bad[0].0, bad[0].1), replay.clone());
    }
    if fs.starts_with("HostPanic") { out.oracle_fail("host-panic-in-predicate-check", &fs, replay); }
    let reason = fs.split("reason: ").nth(1).map(|x| x.split([',', ' ', '}', ')']).next().unwrap_or("").to_string()).unwrap_or_default();
    out.count(&format!("predicates:{}{}", fs.split(['(', ' ', '{']).take(2).collect::<Vec<_>>().join(":"), if reason.is_empty() { String::new() } else { format!(":{reason}") }));
    let _ = idx;
}

// ------------------------------------------------------------------ Coq case pieces
fn hexrun(b: &[u8]) -> String { coq_bytes(b) }

fn stack_runs(stack: &[u8]) -> Vec<(usize, Vec<u8>)> {
    // maximal non-zero runs; runs separated by fewer than 16 zero bytes are merged
    let mut runs: Vec<(usize, Vec<u8>)> = vec![];
    let mut i = 0;
    while i < stack.len() {
        if stack[i] == 0 { i += 1; continue; }
        let start = i;
        let mut last = i;
        while i < stack.len() && i - last < 16 { if stack[i] != 0 { last = i; } i += 1; }
        runs.push((start, stack[start..=last].to_vec()));
        i = last + 1;
    }
    runs
}

fn pre_state_coq(vm: &Vm) -> String {
    let st = vm.memory().stack_raw();
    let hp = vm.memory().heap_raw();
    let ssample: Vec<u8> = st.iter().rev().take(24).cloned().collect();
    let hsample: Vec<u8> = hp.iter().rev().take(24).cloned().collect();
    format!("{{| ps_regs := {}; ps_stack := {}; ps_heap := {}; ps_hp := {}; ps_frames := {}; ps_receipts := {}; ps_cache := {} |}}",
        coq_list(&vm.registers().iter().map(|x| x.to_string()).collect::<Vec<_>>()), hexrun(&ssample), hexrun(&hsample),
        vm.registers()[RegId::HP.to_u8() as usize].min(fuel_vm::consts::VM_MAX_RAM), 0, vm.receipts().len().min(50), vm.bench_storage_slot_cache().len().min(50))
}

struct Snapshot { regs: Vec<u64>, stack: Vec<u8>, hp: u64, owner: Option<u64>, derived: Vec<(String, String)> }

/// value of a field in the derived `Debug` image of the interpreter (balanced up to the next top-level comma)
fn debug_field(dbg: &str, name: &str) -> String {
    let Some(i) = dbg.find(&format!("{name}: ")) else { return "<absent>".into(); };
    let rest = &dbg[i + name.len() + 2..];
    let mut depth = 0i32;
    for (k, c) in rest.char_indices() {
        match c { '(' | '[' | '{' => depth += 1, ')' | ']' | '}' => { if depth == 0 { return rest[..k].to_string(); } depth -= 1; }
                  ',' if depth == 0 => return rest[..k].to_string(), _ => {} }
    }
    rest.to_string()
}

/// the state right after initialisation: single-step a CLONE of the instance up to the first instruction
fn snapshot(vm: &Vm, w: &World, tx: &TxSpec) -> Option<Snapshot> {
    let mut p = vm.clone();
    p.set_single_stepping(true);
    let st = p.transact(tx.build(w).ok()?).map(|t| *t.state()).ok()?;
    if !matches!(st, ProgramState::RunProgram(_)) { return None; }
    // the per-transaction derived fields that have no accessor: read from the Debug image
    let dbg = format!("{p:?}");
    let owner_s = debug_field(&dbg, "owner_ptr");
    let owner = owner_s.strip_prefix("Some(").and_then(|x| x.trim_end_matches(')').parse::<u64>().ok());
    let derived = ["owner_ptr", "context", "input_contracts", "input_contracts_index_to_output_index", "frames", "panic_context", "initial_balances"]
        .iter().map(|f| (f.to_string(), debug_field(&dbg, f))).collect();
    Some(Snapshot { regs: p.registers().to_vec(), stack: p.memory().stack_raw().to_vec(), hp: p.registers()[RegId::HP.to_u8() as usize], owner, derived })
}

/// transactions whose script reads every piece of state initialisation derives from the transaction:
/// registers, the whole initialised memory (id, base asset, balances table, tx bytes), GM / GTF
/// selectors, and finally (optionally) `gm GetOwner` + the 32 bytes it points to
fn reader_scenario(rng: &mut Rng, n_owner_inputs: usize, with_contract: bool, query_owner: bool) -> Scenario {
    use fuel_asm::{GMArgs, GTFArgs};
    let assets = vec![AssetId::from(rng.bytes32()), AssetId::from(rng.bytes32()), AssetId::from(rng.bytes32())];
    let mut world = World::new(GasSchedule::Default, rng.range(1, 60) as u32, assets.clone());
    let id = fuel_types::ContractId::from(rng.bytes32());
    world.deploy(ContractDef { id, code: words_to_bytes(&[w32(op::ret(RegId::ONE))]), balances: vec![(assets[1], rng.range(1, 900))], slots: vec![] });
    let layout = DataLayout::new(rng, &[id], &assets, 0);
    let (r, t) = (0x20u8, 0x21u8);
    let mut p: Vec<Instruction> = vec![
        op::gtf(R_DATA, RegId::ZERO, GTFArgs::ScriptData as u16),
        op::log(RegId::GGAS, RegId::CGAS, RegId::IS, RegId::SSP),
        op::log(RegId::SP, RegId::HP, RegId::FP, RegId::BAL),
        op::log(RegId::PC, RegId::FLAG, RegId::ERR, RegId::OF),
        op::logd(RegId::ZERO, RegId::ZERO, RegId::ZERO, RegId::SSP),     // everything initialisation wrote
    ];
    for sel in [GMArgs::GetChainId, GMArgs::TxStart, GMArgs::BaseAssetId, GMArgs::GetGasPrice] {
        p.push(op::gm(r, sel as u32 as u32)); p.push(op::log(r, RegId::ZERO, RegId::ZERO, RegId::ZERO));
    }
    for sel in [GTFArgs::Type, GTFArgs::ScriptGasLimit, GTFArgs::TxInputsCount, GTFArgs::TxOutputsCount, GTFArgs::TxWitnessesCount, GTFArgs::ScriptDataLength, GTFArgs::TxLength, GTFArgs::PolicyTypes] {
        p.push(op::gtf(r, RegId::ZERO, sel as u16)); p.push(op::log(r, RegId::ZERO, RegId::ZERO, RegId::ZERO));
    }
    // the last input is always a coin: its type, amount, owner
    let last = (n_owner_inputs + with_contract as usize - 1) as u32;
    p.push(op::movi(t, last));
    p.push(op::gtf(r, t, GTFArgs::InputType as u16)); p.push(op::log(r, t, RegId::ZERO, RegId::ZERO));
    p.push(op::gtf(r, t, GTFArgs::InputCoinAmount as u16)); p.push(op::log(r, t, RegId::ZERO, RegId::ZERO));
    p.push(op::gtf(r, t, GTFArgs::InputCoinOwner as u16)); p.push(op::movi(t, 32)); p.push(op::logd(RegId::ZERO, RegId::ZERO, r, t));
    if with_contract {
        p.push(op::addi(r, R_DATA, layout.asset_off[1] as u16)); p.push(op::addi(t, R_DATA, layout.call_off[0] as u16));
        p.push(op::bal(r, r, t)); p.push(op::log(r, RegId::ZERO, RegId::ZERO, RegId::ZERO));
    }
    if query_owner {
        p.push(op::gm(r, GMArgs::GetOwner as u32)); p.push(op::movi(t, 32)); p.push(op::logd(r, RegId::ZERO, r, t));
    }
    p.push(op::ret(RegId::ONE));
    let mut tx = TxSpec::new(words_to_bytes(&p.iter().map(|i| w32(*i)).collect::<Vec<_>>()), layout.bytes.clone(), rng.range(100_000, 900_000));
    tx.key_seed = rng.next();
    if with_contract { tx.contract_inputs.push(id); }
    for k in 0..n_owner_inputs { tx.coins.push((assets[k % 3], rng.range(1, 50_000))); }
    if rng.bool() { tx.outputs.push(OutSpec::Change(assets[0])); }
    Scenario { world, tx, layout, units: vec![], seed_note: format!("reader:{}-owner-inputs{}{}", n_owner_inputs, if with_contract { ":contract" } else { "" }, if query_owner { ":GetOwner" } else { "" }) }
}


fn main_case(rng: &mut Rng, idx: usize, out: &mut Out, rt: &tokio::runtime::Runtime, with_model: bool) {
    // target
    let mut cfg = GenCfg::default();
    cfg.n_contracts = rng.below(4) as usize;
    cfg.unit_items = rng.range(4, 16) as usize;
    cfg.schedule = match rng.below(5) { 0 => GasSchedule::Unit, 1 => GasSchedule::Random(rng.next()), _ => GasSchedule::Default };
    if rng.chance(1, 6) { cfg.gas_limit = rng.below(3000); }
    if rng.chance(1, 6) { cfg.fault_per_mille = 30; }
    let target = gen_scenario(rng, &cfg);
    let history = gen_history(rng, &target);
    run_pair(rng, idx, out, rt, with_model, target, history);
}

/// directed pairs: histories and targets that differ in every per-transaction derived field
/// (owner pointer present / absent / elsewhere, contract inputs and their output indices, balances
/// table, sizes and offsets, gas limit, block height is the instance's)
fn directed_pairs(rng: &mut Rng, out: &mut Out, rt: &tokio::runtime::Runtime, with_model: bool, reps: usize) {
    let mut idx = 100_000;
    for _ in 0..reps {
        // (owner inputs, contract input, GetOwner) of history item and of target
        for (h, t) in [((1, false, true), (2, false, true)), ((2, false, true), (1, false, true)), ((1, true, true), (1, false, true)),
                       ((1, false, true), (1, true, true)), ((3, true, false), (1, true, true)), ((1, true, true), (3, true, true)),
                       ((1, false, false), (2, true, true)), ((2, true, true), (2, false, false))] {
            let target = reader_scenario(rng, t.0, t.1, t.2);
            let hs = reader_scenario(rng, h.0, h.1, h.2);
            let mut history = vec![HItem { kind: format!("reader({})", hs.seed_note), tx: hs.tx.clone(), contracts: hs.world.contracts.clone() }];
            if rng.chance(1, 3) { let e = rng.below(3); history.push(HItem { kind: "dirty-both".into(), tx: dirtier(rng, target.world.assets[0], true, true, e), contracts: vec![] }); }
            if rng.chance(1, 3) { history.insert(0, HItem { kind: "target-itself".into(), tx: target.tx.clone(), contracts: vec![] }); }
            run_pair(rng, idx, out, rt, with_model, target, history);
            idx += 1;
        }
        // a grammar target (many owners: no owner pointer) after a single-owner reader, and a reader after a grammar history
        let mut cfg = GenCfg::default(); cfg.n_contracts = rng.below(3) as usize; cfg.unit_items = 6;
        let g = gen_scenario(rng, &cfg);
        let hs = reader_scenario(rng, 1, true, true);
        run_pair(rng, idx, out, rt, with_model, g.clone(), vec![HItem { kind: format!("reader({})", hs.seed_note), tx: hs.tx.clone(), contracts: hs.world.contracts.clone() }]);
        let target = reader_scenario(rng, 2, false, true);
        run_pair(rng, idx + 1, out, rt, with_model, target, vec![HItem { kind: "grammar".into(), tx: g.tx.clone(), contracts: g.world.contracts.clone() }]);
        idx += 2;
    }
}

fn run_pair(rng: &mut Rng, idx: usize, out: &mut Out, rt: &tokio::runtime::Runtime, with_model: bool, target: Scenario, history: Vec<HItem>) {
    let w = &target.world;
    // session storage: the target's contracts + the contracts of the history scenarios
    let mut session = w.clone();
    for h in &history { for c in &h.contracts { session.deploy(c.clone()); } }
    let params = w.interpreter_params();
    let mut used: Vm = Interpreter::with_storage(MemoryInstance::new(), session.storage.clone(), params.clone());
    let mut used_tr: Tr = Transactor::new(MemoryInstance::new(), session.storage.clone(), params.clone());
    let replay = json!({"kind": "history", "target": target.to_json(),
        "history": history.iter().map(|h| json!({"kind": h.kind, "script": hex::encode(&h.tx.script), "gas_limit": h.tx.gas_limit})).collect::<Vec<_>>()});
    let mut hist_kinds = vec![];
    let mut dirty_mems: Vec<MemoryInstance> = vec![];
    let mut max_heap = 0usize; let mut max_stack = 0usize; let mut warm = 0usize;
    for h in &history {
        let (Ok(r1), Ok(r2)) = (h.tx.build(w), h.tx.build(w)) else { out.count("history-item-not-buildable"); continue; };
        let s1 = guarded(|| used.transact(r1).map(|t| *t.state()).map_err(|e| format!("{e:?}")));
        let s1 = match s1 { Ok(s) => s, Err(p) => { out.oracle_fail("host-panic-in-history", &format!("{}: {p}", h.kind), replay.clone()); return; } };
        let _ = guarded(|| { used_tr.transact_ready_tx(r2); });
        hist_kinds.push(format!("{}:{}", h.kind, state_str(s1).split('(').next().unwrap_or("")));
        max_heap = max_heap.max(used.memory().heap_raw().len());
        max_stack = max_stack.max(used.memory().stack_raw().len());
        warm = warm.max(used.bench_storage_slot_cache().len());
        dirty_mems.push(used.memory().clone());
    }
    // the panic context must have been consumed (not observable through the API: Debug image)
    let dbg = format!("{:?}", used);
    let pc_none = dbg.contains("panic_context: None");
    if !pc_none { out.oracle_fail("panic-context-not-consumed", "panic_context is not None between transactions", replay.clone()); }
    // equal storage for the fresh instance
    let storage_after_history = used.as_ref().clone();
    if storage_image(&storage_after_history) != storage_image(used_tr.as_ref()) {
        out.oracle_fail("transactor-and-interpreter-histories-diverge", "storage after the same history differs between Interpreter and Transactor", replay.clone());
    }
    let mut fresh: Vm = Interpreter::with_storage(MemoryInstance::new(), storage_after_history.clone(), params.clone());
    // snapshots after initialisation (before the first instruction)
    let snap_f = snapshot(&fresh, w, &target.tx);
    let snap_u = snapshot(&used, w, &target.tx);
    let pre_f = pre_state_coq(&fresh);
    let pre_u = pre_state_coq(&used);
    out.oracle_evaluations += 1;
    match (&snap_f, &snap_u) {
        (Some(a), Some(b)) => {
            if a.regs != b.regs || a.stack != b.stack || a.hp != b.hp {
                out.oracle_fail("post-init-state-depends-on-reuse", "registers / stack / hp right after initialisation differ between a new and a used instance", replay.clone());
            }
            for ((f, x), (_, y)) in a.derived.iter().zip(b.derived.iter()) {
                if x != y { out.oracle_fail(&format!("post-init-{}-depends-on-reuse", f.replace('_', "-")), &format!("{f} right after initialisation: new instance {x}, used instance {y} (history {:?})", hist_kinds), replay.clone()); }
            }
        }
        (None, None) => {}
        _ => out.oracle_fail("post-init-state-depends-on-reuse", "initialisation succeeds on one instance only", replay.clone()),
    }
    // the target on the three instances
    let (Ok(t1), Ok(t2), Ok(t3)) = (target.tx.build(w), target.tx.build(w), target.tx.build(w)) else { out.count("target-not-buildable"); return; };
    let gas_limit = target.tx.gas_limit;
    let rf = guarded(|| fresh.transact(t1).map(|t| *t.state()).map_err(|e| format!("{e:?}")));
    let ru = guarded(|| used.transact(t2).map(|t| *t.state()).map_err(|e| format!("{e:?}")));
    let rt_ = guarded(|| { used_tr.transact_ready_tx(t3); });
    let (rf, ru) = match (rf, ru, rt_) {
        (Ok(a), Ok(b), Ok(())) => (a, b),
        _ => { out.oracle_fail("host-panic-in-target", "host panic while running the target", replay.clone()); return; }
    };
    let of = observe(&fresh, state_str(rf));
    let ou = observe(&used, state_str(ru));
    let tr_state = match (used_tr.state_transition(), used_tr.error()) {
        (Some(s), _) => format!("{:?}", s.state()),
        (None, Some(e)) => format!("Err({})", format!("{e:?}").split('(').next().unwrap_or("")),
        _ => "none".into(),
    };
    let ot = observe(used_tr.interpreter(), tr_state);
    let d1 = diff_obs(&of, &ou);
    if !d1.is_empty() { out.oracle_fail("result-depends-on-interpreter-reuse", &format!("fresh vs reused interpreter (history {:?}): {}", hist_kinds, d1.join("; ")), replay.clone()); }
    let d2 = diff_obs(&of, &ot);
    if !d2.is_empty() { out.oracle_fail("result-depends-on-transactor-reuse", &format!("fresh interpreter vs reused transactor (history {:?}): {}", hist_kinds, d2.join("; ")), replay.clone()); }
    if fresh.memory() != used.memory() { out.oracle_fail("accessible-memory-depends-on-reuse", "MemoryInstance (accessible part) differs after the target", replay.clone()); }
    // determinism: the same thing again on another new instance
    let mut fresh2: Vm = Interpreter::with_storage(MemoryInstance::new(), storage_after_history, params.clone());
    if let Ok(t4) = target.tx.build(w) {
        let r4 = guarded(|| fresh2.transact(t4).map(|t| *t.state()).map_err(|e| format!("{e:?}")));
        if let Ok(r4) = r4 { let o4 = observe(&fresh2, state_str(r4)); if !diff_obs(&of, &o4).is_empty() { out.oracle_fail("nondeterministic-execution", "two new instances disagree", replay.clone()); } }
    }
    // predicates on the memories this history produced
    run_predicates(rng, &w.params, &dirty_mems, out, idx, rt);

    for k in &hist_kinds { out.count(&format!("history:{}", k)); }
    if max_heap >= 100_000 { out.count("history-left-heap>=100KB"); }
    if max_stack >= 50_000 { out.count("history-left-stack>=50KB"); }
    if warm > 0 { out.count("history-left-warm-slot-cache"); }

    // Coq case
    let Some(sn) = snap_f else { out.count("no-snapshot(init error or empty)"); return; };
    if !with_model { return; }
    let vmf = &fresh; // after the target: tx, params facts are the same as at init
    let txb = { let mut p = Interpreter::<MemoryInstance, MemoryStorage, Script>::with_storage(MemoryInstance::new(), MemoryStorage::default(), params.clone());
                p.set_single_stepping(true);
                let Ok(r) = target.tx.build(w) else { return; };
                let _ = p.transact(r);
                (p.transaction().to_bytes(), p.initial_balances().clone()) };
    let _ = vmf;
    let (tx_bytes, ib) = txb;
    // balances table as RuntimeBalances::try_from builds it (independent re-implementation)
    let mut bal: BTreeMap<AssetId, u64> = BTreeMap::new();
    for (a, v) in ib.non_retryable.iter() { *bal.entry(*a).or_insert(0) += *v; }
    if let Some(r) = ib.retryable.clone() { *bal.entry(*w.params.base_asset_id()).or_insert(0) += Word::from(r); }
    let entries: Vec<String> = bal.iter().enumerate().map(|(i, (a, v))| format!("({}, ({}, {}))", fuel_vm::consts::VM_MEMORY_BALANCES_OFFSET + i * 40, hexrun(a.as_ref()), v)).collect();
    // the owner pointer by the rule of the specification, re-implemented here: all inputs that have an owner
    // name the same one => pointer to the first such input's owner field (located by its bytes), else none
    let expect_owner: Option<u64> = {
        use fuel_tx::field::Inputs;
        let owners: Vec<fuel_types::Address> = fresh.transaction().inputs().iter().filter_map(|i| i.input_owner().copied()).collect();
        match owners.first() {
            Some(o) if owners.iter().all(|x| x == o) => tx_bytes.windows(32).position(|wd| wd == o.as_ref()).map(|p| (w.tx_offset() + p) as u64),
            _ => None,
        }
    };
    if expect_owner != sn.owner {
        out.oracle_fail("owner-pointer-not-as-specified", &format!("owner_ptr after initialisation {:?}, expected {:?}", sn.owner, expect_owner), replay.clone());
    }
    let tx_id = &sn.stack[0..32];
    let contract_idx: Vec<String> = (0..target.tx.contract_inputs.len()).map(|i| (i + 1).to_string()).collect();
    let io: Vec<String> = (0..target.tx.contract_inputs.len()).map(|i| format!("({i},{i})")).collect();
    let script_off = <Script as fuel_tx::field::Script>::script_offset_static();
    let runs = stack_runs(&sn.stack);
    let coq = format!(
        "{{| rc_tx := {{| f_id := {}; f_size := {}; f_bytes := {}; f_gas := Some {}; f_script_off := Some {}; f_contracts := {}; f_io := {}; f_owner := {} |}};\n    rc_params := {{| p_base := {}; p_max_inputs := {}; p_tx_offset := {} |}}; rc_height := {}; rc_balances := {};\n    rc_pre := [{};\n      {}];\n    rc_regs := {}; rc_stack_len := {}; rc_stack_runs := {}; rc_hp := {}; rc_owner := {} |}}",
        hexrun(tx_id), tx_bytes.len(), hexrun(&tx_bytes), gas_limit, script_off, coq_list(&contract_idx), coq_list(&io), coq_opt(expect_owner.map(|x| x.to_string())),
        hexrun(w.params.base_asset_id().as_ref()), w.params.tx_params().max_inputs(), w.tx_offset(), w.block_height, coq_list(&entries),
        pre_f, pre_u,
        coq_list(&sn.regs.iter().map(|x| x.to_string()).collect::<Vec<_>>()), sn.stack.len(),
        coq_list(&runs.iter().map(|(o, b)| format!("({}, {})", o, hexrun(b))).collect::<Vec<_>>()), sn.hp, coq_opt(sn.owner.map(|x| x.to_string())));
    out.push(Case {
        coq,
        json: json!({"case": idx, "history": hist_kinds, "schedule": w.schedule.name(), "target_state": of.state.split('(').next().unwrap_or(""), "receipts": of.receipts.len(),
                     "tx_bytes": tx_bytes.len(), "assets": bal.len(), "max_heap_left": max_heap, "max_stack_left": max_stack, "warm_slots": warm}),
        key: format!("{}:{:?}", hex::encode(tx_id), hist_kinds),
        nontrivial: !hist_kinds.is_empty() && of.receipts.len() >= 2,
        class: format!("target:{}", of.state.split('(').next().unwrap_or("")),
    });
}

/// Regression detector for finding F9 (repaired by 22c6df9: init_inner calls
/// Debugger::clear_last_state): a session abandoned at a breakpoint on script offset 0, then the
/// target with the same breakpoint, must behave like on a new instance.
fn stale_debugger_case(rng: &mut Rng, out: &mut Out, saved: Option<Scenario>) {
    let cfg = GenCfg { n_contracts: 0, unit_items: 4, ..GenCfg::default() };
    let scn = match saved { Some(s) => s, None => gen_scenario(rng, &cfg) };
    let w = &scn.world;
    let bp = Breakpoint::script(0);
    let mut fresh: Vm = Interpreter::with_storage(MemoryInstance::new(), w.storage.clone(), w.interpreter_params());
    let mut used: Vm = Interpreter::with_storage(MemoryInstance::new(), w.storage.clone(), w.interpreter_params());
    fresh.set_breakpoint(bp);
    used.set_breakpoint(bp);
    let (Ok(a), Ok(b), Ok(c)) = (scn.tx.build(w), scn.tx.build(w), scn.tx.build(w)) else { return; };
    // history: the same transaction, abandoned at its first debug event; storage untouched so far
    let h = used.transact(a).map(|t| *t.state()).map_err(|e| format!("{e:?}"));
    *used.as_mut() = w.storage.clone();
    let sf = state_str(fresh.transact(b).map(|t| *t.state()).map_err(|e| format!("{e:?}")));
    let su = state_str(used.transact(c).map(|t| *t.state()).map_err(|e| format!("{e:?}")));
    out.oracle_evaluations += 1;
    out.count("stale-debugger-probe");
    if sf != su {
        out.oracle_fail("debugger-last-state-not-reset-after-abandoned-session",
            &format!("breakpoint at script offset 0; earlier session on the same instance abandoned at {}: new instance returns {sf}, reused instance returns {su} (first debug event swallowed: Debugger::last_state survives init_script)", state_str(h)),
            json!({"kind": "stale-debugger", "scenario": scn.to_json()}));
    }
}

fn run_c31(args: &Args, out: &mut Out) {
    let mut rng = Rng::new(args.seed ^ 0xC31);
    let rt = tokio::runtime::Builder::new_current_thread().build().expect("tokio runtime");
    if let Some(f) = &args.replay {
        let v: Value = read_replay(f);
        if v["kind"] == "stale-debugger" { stale_debugger_case(&mut rng, out, Scenario::from_json(&v["scenario"]).ok()); }
        else { out.notes.push("replay of history cases re-runs the generator with the recorded seed (use --seed)".into()); }
        return;
    }
    // corpus, runs first: finding F9 (abandoned debug session), repaired by 22c6df9
    {
        let mut crng = Rng::new(0xF9);
        for _ in 0..3 { stale_debugger_case(&mut crng, out, None); }
    }
    // directed pairs on the per-transaction derived state (owner pointer, contract inputs, balances, offsets)
    {
        let mut drng = Rng::new(args.seed ^ 0xD3);
        directed_pairs(&mut drng, out, &rt, !args.oracle_only, if args.thorough() { 40 } else { 2 });
    }
    let n = args.scale(200, 5000);
    // Coq elaborates the byte strings of a case in ~1.5 s: the model replays a prefix of the cases, the oracle sees all
    let n_model = if args.thorough() { 1500 } else { 64 };
    for i in 0..n { main_case(&mut rng, i, out, &rt, !args.oracle_only && i < n_model); }
    for _ in 0..2 { stale_debugger_case(&mut rng, out, None); }
}

fn main() {
    if std::env::var("VERIF_LOUD").is_err() { quiet_panics(); }
    let args = Args::parse();
    let mut out = Out::new();
    let header = "From Coq Require Import List NArith.\nFrom FV Require Import Base.Bytes Vm.ReuseModel Run.Reuse.\nImport ListNotations.\nOpen Scope N_scope.";
    match args.prop.as_str() {
        "C31" => {
            run_c31(&args, &mut out);
            out.write(&args, header, "reuse_case", "bad_reuse");
        }
        p => { eprintln!("reuse: unknown property {p}"); std::process::exit(2); }
    }
}
