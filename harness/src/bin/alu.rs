//! ALU family (C21 register ALU, C22 wide integers): execute ONE instruction on a real
//! `fuel_vm::interpreter::Interpreter`, print the state before / the observation after as a
//! Coq term for the Gallina L1 model (coq/Run/Alu.v), and check the property directly on the
//! implementation against an independent reference written from the ISA semantics
//! (u128 / own big-integer arithmetic; none of the VM's helpers are called).
use fuel_asm::{op, Instruction, PanicReason};
use fuel_tx::Script;
use fuel_vm::consts::{MEM_SIZE, VM_MAX_RAM};
use fuel_vm::constraints::reg_key::{Reg, RegMut, HP, SP};
use fuel_vm::error::InterpreterError;
use fuel_vm::interpreter::{Interpreter, MemoryInstance};
use fuel_vm::state::ExecuteState;
use fuel_vm::storage::MemoryStorage;
use fvh::*;
use serde::{Deserialize, Serialize};
use serde_json::json;
use sha2::{Digest, Sha256};

type Vm = Interpreter<MemoryInstance, MemoryStorage, Script>;

const R_OF: usize = 2;
const R_PC: usize = 3;
const R_SSP: usize = 4;
const R_SP: usize = 5;
const R_HP: usize = 7;
const R_ERR: usize = 8;
const R_GGAS: usize = 9;
const R_CGAS: usize = 10;
const R_FLAG: usize = 15;

const C21_OPS: [&str; 33] = [
    "ADD", "ADDI", "AND", "ANDI", "DIV", "DIVI", "EQ", "EXP", "EXPI", "GT", "LT", "MLOG", "MOD", "MODI", "MOVE", "MOVI",
    "MROO", "MUL", "MULI", "MLDV", "NIOP", "NOOP", "NOT", "OR", "ORI", "SLL", "SLLI", "SRL", "SRLI", "SUB", "SUBI", "XOR",
    "XORI",
];
const C22_OPS: [&str; 14] = [
    "WDCM", "WQCM", "WDOP", "WQOP", "WDML", "WQML", "WDDV", "WQDV", "WDMD", "WQMD", "WDAM", "WQAM", "WDMM", "WQMM",
];

fn reg_filler(i: u64) -> u64 {
    0x5A5A_5A5A_0000_0000u64 + 0x0101_0101 * i
}

/// Everything that determines one run.
#[derive(Clone, Debug, Serialize, Deserialize)]
struct Setup {
    op: String,
    ra: u8,
    rb: u8,
    rc: u8,
    rd: u8,
    imm: u32,
    sys: [u64; 16],
    prog: Vec<(u8, u64)>,
    stack_len: u64,
    mhp: u64,
    mem: Vec<(u64, Vec<u8>)>,
    /// extra regions to inspect afterwards (address, length)
    watch: Vec<(u64, usize)>,
}

fn make_instr(s: &Setup) -> Instruction {
    let (a, b, c, d) = (s.ra, s.rb, s.rc, s.rd);
    let i12 = s.imm as u16;
    let i06 = s.imm as u8;
    match s.op.as_str() {
        "ADD" => op::add(a, b, c),
        "ADDI" => op::addi(a, b, i12),
        "AND" => op::and(a, b, c),
        "ANDI" => op::andi(a, b, i12),
        "DIV" => op::div(a, b, c),
        "DIVI" => op::divi(a, b, i12),
        "EQ" => op::eq(a, b, c),
        "EXP" => op::exp(a, b, c),
        "EXPI" => op::expi(a, b, i12),
        "GT" => op::gt(a, b, c),
        "LT" => op::lt(a, b, c),
        "MLOG" => op::mlog(a, b, c),
        "MOD" => op::mod_(a, b, c),
        "MODI" => op::modi(a, b, i12),
        "MOVE" => op::move_(a, b),
        "MOVI" => op::movi(a, s.imm),
        "MROO" => op::mroo(a, b, c),
        "MUL" => op::mul(a, b, c),
        "MULI" => op::muli(a, b, i12),
        "MLDV" => op::mldv(a, b, c, d),
        "NIOP" => op::niop(a, b, c, i06),
        "NOOP" => op::noop(),
        "NOT" => op::not(a, b),
        "OR" => op::or(a, b, c),
        "ORI" => op::ori(a, b, i12),
        "SLL" => op::sll(a, b, c),
        "SLLI" => op::slli(a, b, i12),
        "SRL" => op::srl(a, b, c),
        "SRLI" => op::srli(a, b, i12),
        "SUB" => op::sub(a, b, c),
        "SUBI" => op::subi(a, b, i12),
        "XOR" => op::xor(a, b, c),
        "XORI" => op::xori(a, b, i12),
        "WDCM" => op::wdcm(a, b, c, i06),
        "WQCM" => op::wqcm(a, b, c, i06),
        "WDOP" => op::wdop(a, b, c, i06),
        "WQOP" => op::wqop(a, b, c, i06),
        "WDML" => op::wdml(a, b, c, i06),
        "WQML" => op::wqml(a, b, c, i06),
        "WDDV" => op::wddv(a, b, c, i06),
        "WQDV" => op::wqdv(a, b, c, i06),
        "WDMD" => op::wdmd(a, b, c, d),
        "WQMD" => op::wqmd(a, b, c, d),
        "WDAM" => op::wdam(a, b, c, d),
        "WQAM" => op::wqam(a, b, c, d),
        "WDMM" => op::wdmm(a, b, c, d),
        "WQMM" => op::wqmm(a, b, c, d),
        o => panic!("unknown op {o}"),
    }
}

/// shape of the opcode: (number of register fields, immediate bits)
fn shape(opn: &str) -> (usize, u32) {
    match opn {
        "NOOP" => (0, 0),
        "MOVI" => (1, 18),
        "MOVE" | "NOT" => (2, 0),
        "ADDI" | "ANDI" | "DIVI" | "EXPI" | "MODI" | "MULI" | "ORI" | "SLLI" | "SRLI" | "SUBI" | "XORI" => (2, 12),
        "NIOP" | "WDCM" | "WQCM" | "WDOP" | "WQOP" | "WDML" | "WQML" | "WDDV" | "WQDV" => (3, 6),
        "MLDV" | "WDMD" | "WQMD" | "WDAM" | "WQAM" | "WDMM" | "WQMM" => (4, 0),
        _ => (3, 0),
    }
}

fn init_regs(s: &Setup) -> [u64; 64] {
    let mut r = [0u64; 64];
    for i in 0..16 {
        r[i] = s.sys[i];
    }
    for i in 16..64 {
        r[i] = reg_filler(i as u64);
    }
    for (i, v) in &s.prog {
        r[*i as usize] = *v;
    }
    r
}

fn build_vm(s: &Setup) -> Vm {
    let mut vm = Vm::with_memory_storage();
    {
        let m = vm.memory_mut();
        m.grow_stack(s.stack_len).expect("grow_stack");
        let sp = 0u64;
        let mut hp = MEM_SIZE as u64;
        let amount = MEM_SIZE as u64 - s.mhp;
        if amount > 0 {
            m.grow_heap_by(Reg::<SP>::new(&sp), RegMut::<HP>::new(&mut hp), amount).expect("grow_heap");
        }
        for (addr, bytes) in &s.mem {
            m.write_noownerchecks(*addr, bytes.len()).expect("setup write").copy_from_slice(bytes);
        }
    }
    let r = init_regs(s);
    vm.registers_mut().copy_from_slice(&r);
    vm
}

fn flat_memory(vm: &Vm, s: &Setup) -> Vec<u8> {
    let m = vm.memory();
    let mut v = m.stack_raw().to_vec();
    v.extend_from_slice(m.read(s.mhp, MEM_SIZE - s.mhp as usize).expect("heap readable"));
    v
}

#[derive(Clone, Debug)]
struct Obs {
    /// None = Proceed; Some(byte) = PanicReason; 254 = other error/state; 255 = host panic
    panic: Option<u8>,
    regs: [u64; 64],
    flat_before: Vec<u8>,
    flat_after: Vec<u8>,
    regions: Vec<(u64, Vec<u8>)>,
}

fn run(s: &Setup) -> Obs {
    let mut vm = build_vm(s);
    let flat_before = flat_memory(&vm, s);
    let instr = make_instr(s);
    let res = guarded(|| vm.instruction::<_, false>(instr));
    let panic = match res {
        Ok(Ok(ExecuteState::Proceed)) => None,
        Ok(Ok(_)) => Some(254),
        Ok(Err(InterpreterError::PanicInstruction(p))) => Some(*p.reason() as u8),
        Ok(Err(_)) => Some(254),
        Err(_) => Some(255),
    };
    let mut regs = [0u64; 64];
    regs.copy_from_slice(vm.registers());
    let flat_after = flat_memory(&vm, s);
    let mut regions = vec![];
    let mut want: Vec<(u64, usize)> = s.mem.iter().map(|(a, b)| (*a, b.len())).collect();
    want.extend(s.watch.iter().cloned());
    for (a, l) in want {
        if let Ok(b) = vm.memory().read(a, l) {
            regions.push((a, b.to_vec()));
        }
    }
    Obs { panic, regs, flat_before, flat_after, regions }
}

/// gas cost of the opcode, observed on a probe run with ample gas (gas is charged first)
fn probe_cost(s: &Setup) -> u64 {
    let mut p = s.clone();
    p.sys[R_GGAS] = 1 << 40;
    p.sys[R_CGAS] = 1 << 40;
    // make sure no operand register aliases the gas registers in a way that matters: cost is
    // charged before anything else, so the difference is the cost whatever happens afterwards
    let o = run(&p);
    (1u64 << 40) - o.regs[R_CGAS]
}

/// the floating-point starting point of checked_nth_root, computed as the VM does (std powf)
fn float_guess(target: u64, n: u64) -> u64 {
    if n < 2 || n > 64 || target <= 1 || n >= target {
        return 0;
    }
    f64::powf(target as f64, (n as u32 as f64).recip()) as u64
}

// ------------------------------------------------------------------ tiny big integers (reference only)
#[derive(Clone, Debug, PartialEq, Eq)]
struct Big(Vec<u32>); // little-endian limbs, no trailing zeros

impl Big {
    fn norm(mut self) -> Big {
        while self.0.last() == Some(&0) {
            self.0.pop();
        }
        self
    }
    fn zero() -> Big {
        Big(vec![])
    }
    fn from_u64(x: u64) -> Big {
        Big(vec![x as u32, (x >> 32) as u32]).norm()
    }
    fn from_be(b: &[u8]) -> Big {
        let mut limbs = vec![];
        let mut i = b.len();
        while i > 0 {
            let lo = i.saturating_sub(4);
            let mut v = 0u32;
            for x in &b[lo..i] {
                v = (v << 8) | *x as u32;
            }
            limbs.push(v);
            i = lo;
        }
        Big(limbs).norm()
    }
    fn is_zero(&self) -> bool {
        self.0.is_empty()
    }
    fn bits(&self) -> usize {
        match self.0.last() {
            None => 0,
            Some(t) => 32 * (self.0.len() - 1) + (32 - t.leading_zeros() as usize),
        }
    }
    fn bit(&self, i: usize) -> bool {
        self.0.get(i / 32).map(|l| (l >> (i % 32)) & 1 == 1).unwrap_or(false)
    }
    fn cmp(&self, o: &Big) -> std::cmp::Ordering {
        if self.0.len() != o.0.len() {
            return self.0.len().cmp(&o.0.len());
        }
        for i in (0..self.0.len()).rev() {
            if self.0[i] != o.0[i] {
                return self.0[i].cmp(&o.0[i]);
            }
        }
        std::cmp::Ordering::Equal
    }
    fn add(&self, o: &Big) -> Big {
        let n = self.0.len().max(o.0.len());
        let mut out = Vec::with_capacity(n + 1);
        let mut carry = 0u64;
        for i in 0..n {
            let s = *self.0.get(i).unwrap_or(&0) as u64 + *o.0.get(i).unwrap_or(&0) as u64 + carry;
            out.push(s as u32);
            carry = s >> 32;
        }
        out.push(carry as u32);
        Big(out).norm()
    }
    /// self - o, requires self >= o
    fn sub(&self, o: &Big) -> Big {
        let mut out = Vec::with_capacity(self.0.len());
        let mut borrow = 0i64;
        for i in 0..self.0.len() {
            let mut d = self.0[i] as i64 - *o.0.get(i).unwrap_or(&0) as i64 - borrow;
            if d < 0 {
                d += 1 << 32;
                borrow = 1;
            } else {
                borrow = 0;
            }
            out.push(d as u32);
        }
        assert_eq!(borrow, 0);
        Big(out).norm()
    }
    fn mul(&self, o: &Big) -> Big {
        let mut out = vec![0u32; self.0.len() + o.0.len() + 1];
        for i in 0..self.0.len() {
            let mut carry = 0u64;
            for j in 0..o.0.len() {
                let t = out[i + j] as u64 + self.0[i] as u64 * o.0[j] as u64 + carry;
                out[i + j] = t as u32;
                carry = t >> 32;
            }
            let mut k = i + o.0.len();
            while carry != 0 {
                let t = out[k] as u64 + carry;
                out[k] = t as u32;
                carry = t >> 32;
                k += 1;
            }
        }
        Big(out).norm()
    }
    fn pow2(k: usize) -> Big {
        let mut v = vec![0u32; k / 32 + 1];
        v[k / 32] = 1 << (k % 32);
        Big(v)
    }
    fn shl1_or(&self, bit: bool) -> Big {
        let mut out = Vec::with_capacity(self.0.len() + 1);
        let mut carry = bit as u32;
        for l in &self.0 {
            out.push((l << 1) | carry);
            carry = l >> 31;
        }
        out.push(carry);
        Big(out).norm()
    }
    /// schoolbook binary long division; d != 0
    fn divrem(&self, d: &Big) -> (Big, Big) {
        assert!(!d.is_zero());
        let mut q = vec![0u32; self.0.len().max(1)];
        let mut r = Big::zero();
        for i in (0..self.bits()).rev() {
            r = r.shl1_or(self.bit(i));
            if r.cmp(d) != std::cmp::Ordering::Less {
                r = r.sub(d);
                q[i / 32] |= 1 << (i % 32);
            }
        }
        (Big(q).norm(), r)
    }
    /// low `n` bytes, big-endian
    fn to_be(&self, n: usize) -> Vec<u8> {
        let mut out = vec![0u8; n];
        for i in 0..n {
            let limb = *self.0.get(i / 4).unwrap_or(&0);
            out[n - 1 - i] = (limb >> (8 * (i % 4))) as u8;
        }
        out
    }
    fn low_bits(&self, k: usize) -> Big {
        self.divrem(&Big::pow2(k)).1
    }
    fn shr(&self, k: usize) -> Big {
        self.divrem(&Big::pow2(k)).0
    }
}

// ------------------------------------------------------------------ reference semantics (from the ISA)
#[derive(Clone, Debug, PartialEq)]
enum Spec {
    /// result written to the destination register, $of, $err
    Ok { res: u64, of: u64, err: u64 },
    Panic(PanicReason),
}

fn capture(exact_lo: u128, negative: bool, wrapping: bool) -> Spec {
    // exact value = exact_lo if !negative, else exact_lo - 2^128 (two's complement of a small negative)
    let fits = !negative && exact_lo <= u64::MAX as u128;
    if fits {
        Spec::Ok { res: exact_lo as u64, of: 0, err: 0 }
    } else if wrapping {
        // floor division / modulus by 2^64; for a negative value -k (0 < k < 2^64): div = -1, mod = 2^64 - k
        Spec::Ok { res: exact_lo as u64, of: (exact_lo >> 64) as u64, err: 0 }
    } else {
        Spec::Panic(PanicReason::ArithmeticOverflow)
    }
}

/// b^c if it is < 2^64 (naive repeated multiplication; no square-and-multiply)
fn pow_small(b: u64, c: u64) -> Option<u64> {
    if c == 0 {
        return Some(1);
    }
    if b <= 1 {
        return Some(b);
    }
    let mut acc: u128 = 1;
    let mut k = 0u64;
    while k < c {
        acc *= b as u128;
        if acc > u64::MAX as u128 {
            return None;
        }
        k += 1;
    }
    Some(acc as u64)
}

fn bool_overflow(v: Option<u64>, wrapping: bool) -> Spec {
    match v {
        Some(x) => Spec::Ok { res: x, of: 0, err: 0 },
        None if wrapping => Spec::Ok { res: 0, of: 1, err: 0 },
        None => Spec::Panic(PanicReason::ArithmeticOverflow),
    }
}

fn undefined_or(undefined: bool, unsafe_math: bool, f: impl FnOnce() -> u64) -> Spec {
    if undefined {
        if unsafe_math {
            Spec::Ok { res: 0, of: 0, err: 1 }
        } else {
            Spec::Panic(PanicReason::ArithmeticError)
        }
    } else {
        Spec::Ok { res: f(), of: 0, err: 0 }
    }
}

fn floor_log(b: u64, c: u64) -> u64 {
    // largest r with c^r <= b   (b >= 1, c >= 2)
    let mut r = 0u64;
    let mut p: u128 = 1;
    while p * c as u128 <= b as u128 {
        p *= c as u128;
        r += 1;
    }
    r
}

fn floor_root(b: u64, c: u64) -> u64 {
    // largest r with r^c <= b   (c >= 1); binary search, powers compared exactly
    let le = |r: u64| -> bool {
        match pow_small(r, c) {
            Some(p) => p <= b,
            None => false,
        }
    };
    let (mut lo, mut hi) = (0u64, b); // invariant: le(lo), r > hi => !le(r)
    while lo < hi {
        let mid = lo + (hi - lo) / 2 + ((hi - lo) & 1);
        if le(mid) {
            lo = mid;
        } else {
            hi = mid - 1;
        }
    }
    lo
}

fn narrow_spec(imm: u32, b: u64, c: u64, wrapping: bool) -> Spec {
    let opn = imm & 0xf;
    let wsel = (imm >> 4) & 3;
    if opn > 5 || wsel > 2 {
        return Spec::Panic(PanicReason::InvalidImmediateValue);
    }
    let w = [8u32, 16, 32][wsel as usize];
    let m: u128 = 1u128 << w;
    let (l, r) = ((b as u128) % m, (c as u128) % m);
    let (res, of): (u128, u64) = match opn {
        0 => ((l + r) % m, ((l + r) / m) as u64),
        1 => {
            if l >= r {
                (l - r, 0)
            } else {
                (m - (r - l), u64::MAX)
            }
        }
        2 => ((l * r) % m, ((l * r) / m) as u64),
        3 => match pow_small(l as u64, r as u64) {
            Some(p) if (p as u128) < m => (p as u128, 0),
            _ => (0, 1),
        },
        4 => {
            // (l * 2^r) mod 2^w
            if r >= w as u128 {
                (0, 0)
            } else {
                ((l << r) % m, 0)
            }
        }
        _ => ((!(l ^ r)) % m, 0),
    };
    if of != 0 && !wrapping {
        Spec::Panic(PanicReason::ArithmeticOverflow)
    } else {
        Spec::Ok { res: res as u64, of, err: 0 }
    }
}

/// C21 reference: operands already fetched
fn c21_spec(opn: &str, b: u64, c: u64, d: u64, imm: u32, flag: u64) -> Spec {
    let unsafe_math = flag & 1 != 0;
    let wrapping = flag & 2 != 0;
    let set = |v: u64| Spec::Ok { res: v, of: 0, err: 0 };
    match opn {
        "ADD" | "ADDI" => capture(b as u128 + c as u128, false, wrapping),
        "SUB" | "SUBI" => capture((b as u128).wrapping_sub(c as u128), b < c, wrapping),
        "MUL" | "MULI" => capture(b as u128 * c as u128, false, wrapping),
        "MLDV" => {
            let p = b as u128 * c as u128;
            let q = if d == 0 { p >> 64 } else { p / d as u128 };
            capture(q, false, wrapping)
        }
        "EXP" | "EXPI" => bool_overflow(pow_small(b, c), wrapping),
        "DIV" | "DIVI" => undefined_or(c == 0, unsafe_math, || b / c),
        "MOD" | "MODI" => undefined_or(c == 0, unsafe_math, || b % c),
        "MLOG" => undefined_or(b == 0 || c <= 1, unsafe_math, || floor_log(b, c)),
        "MROO" => undefined_or(c == 0, unsafe_math, || floor_root(b, c)),
        "AND" | "ANDI" => set(b & c),
        "OR" | "ORI" => set(b | c),
        "XOR" | "XORI" => set(b ^ c),
        "NOT" => set(!b),
        "EQ" => set((b == c) as u64),
        "GT" => set((b > c) as u64),
        "LT" => set((b < c) as u64),
        "MOVE" => set(b),
        "MOVI" => set(c),
        "SLL" | "SLLI" => set(if c >= 64 { 0 } else { (((b as u128) << c) & u64::MAX as u128) as u64 }),
        "SRL" | "SRLI" => set(if c >= 64 { 0 } else { b >> c }),
        "NIOP" => narrow_spec(imm, b, c, wrapping),
        o => panic!("c21_spec {o}"),
    }
}

// ------------------------------------------------------------------ C21 case
fn coq_instr(s: &Setup) -> String {
    format!(
        "{{| i_op := O_{}; i_ra := {}; i_rb := {}; i_rc := {}; i_rd := {}; i_imm := {} |}}",
        s.op, s.ra, s.rb, s.rc, s.rd, s.imm
    )
}
/// number literal: hexadecimal for large values (elaborates much faster in Coq)
fn cn(x: u64) -> String {
    if x < 100_000 { format!("{}", x) } else { format!("{:#x}", x) }
}
fn coq_pairs(v: &[(u64, u64)]) -> String {
    coq_list(&v.iter().map(|(a, b)| format!("({}, {})", cn(*a), cn(*b))).collect::<Vec<_>>())
}
fn coq_regions(v: &[(u64, Vec<u8>)]) -> String {
    coq_list(&v.iter().map(|(a, b)| format!("({}, nb {} 0x{})", cn(*a), b.len(), if b.is_empty() { "0".to_string() } else { hexs(b) })).collect::<Vec<_>>())
}
fn sys_default(i: usize) -> u64 {
    match i {
        1 => 1,
        R_SSP => 512,
        R_SP => 1536,
        R_HP => MEM_SIZE as u64 - 1024,
        _ => 0,
    }
}

fn coq_case(s: &Setup, cost: u64, guess: u64, o: &Obs) -> String {
    let before = init_regs(s);
    let diff: Vec<(u64, u64)> = (0..64).filter(|i| before[*i] != o.regs[*i]).map(|i| (i as u64, o.regs[i])).collect();
    format!(
        "Single {{| c_instr := {}; c_cost := {}; c_guess := {}; c_sys := {}; c_prog := {}; c_stack_len := {}; c_mhp := {}; c_prev_hp := {}; c_mem := {}; c_panic := {}; c_diff := {}; c_mem' := {} |}}",
        coq_instr(s),
        cost,
        cn(guess),
        coq_pairs(&(0..16).filter(|i| s.sys[*i] != sys_default(*i)).map(|i| (i as u64, s.sys[i])).collect::<Vec<_>>()),
        coq_pairs(&s.prog.iter().map(|(i, v)| (*i as u64, *v)).collect::<Vec<_>>()),
        s.stack_len,
        cn(s.mhp),
        cn(VM_MAX_RAM),
        coq_regions(&s.mem),
        coq_opt(o.panic.map(|p| p.to_string())),
        coq_pairs(&diff),
        coq_regions(&o.regions)
    )
}

fn fetch(s: &Setup, regs_after_charge: &[u64; 64], which: char) -> u64 {
    match which {
        'b' => regs_after_charge[s.rb as usize],
        'c' => regs_after_charge[s.rc as usize],
        'd' => regs_after_charge[s.rd as usize],
        _ => unreachable!(),
    }
}

/// full expected post-state of a C21 instruction according to the specification
fn c21_oracle(out: &mut Out, s: &Setup, cost: u64, o: &Obs) {
    out.oracle_evaluations += 1;
    let before = init_regs(s);
    let replay = serde_json::to_value(s).unwrap();
    let fail = |out: &mut Out, class: &str, what: String| {
        out.oracle_fail(class, &format!("{} ra={} rb={} rc={} rd={} imm={} flag={}: {}", s.op, s.ra, s.rb, s.rc, s.rd, s.imm, before[R_FLAG], what), replay.clone());
    };
    if o.panic == Some(255) {
        return fail(out, "host-panic", "the interpreter panicked (Rust panic)".into());
    }
    if o.flat_after != o.flat_before {
        return fail(out, "alu-memory-changed", "a register ALU instruction changed memory".into());
    }
    // expected
    let mut exp = before;
    let mut exp_panic: Option<PanicReason> = None;
    if before[R_CGAS] < cost {
        exp_panic = Some(PanicReason::OutOfGas);
        exp[R_GGAS] = before[R_GGAS].saturating_sub(before[R_CGAS]);
        exp[R_CGAS] = 0;
    } else {
        exp[R_CGAS] -= cost;
        exp[R_GGAS] -= cost;
        let (nregs, immbits) = shape(&s.op);
        let b = fetch(s, &exp, 'b');
        let (c, d) = if immbits == 12 || immbits == 18 {
            (s.imm as u64, 0)
        } else {
            (fetch(s, &exp, 'c'), fetch(s, &exp, 'd'))
        };
        let spec = if s.op == "NOOP" { Spec::Ok { res: 0, of: 0, err: 0 } } else { c21_spec(&s.op, b, c, d, s.imm, exp[R_FLAG]) };
        let reserved = nregs > 0 && s.ra < 16;
        match spec {
            Spec::Panic(PanicReason::InvalidImmediateValue) => exp_panic = Some(PanicReason::InvalidImmediateValue),
            _ if reserved => exp_panic = Some(PanicReason::ReservedRegisterNotWritable),
            Spec::Panic(r) => exp_panic = Some(r),
            Spec::Ok { res, of, err } => {
                exp[R_OF] = of;
                exp[R_ERR] = err;
                if nregs > 0 {
                    exp[s.ra as usize] = res;
                }
                exp[R_PC] = before[R_PC] + 4;
            }
        }
    }
    let got_panic = o.panic;
    let want_panic = exp_panic.map(|r| r as u8);
    if got_panic != want_panic {
        let class = match (exp_panic, got_panic) {
            (Some(PanicReason::ReservedRegisterNotWritable), _) => "reserved-register-write-not-rejected",
            (None, Some(_)) => "alu-unexpected-panic",
            (Some(_), None) => "alu-missing-panic",
            _ => "alu-wrong-panic-reason",
        };
        return fail(out, &format!("{}:{}", class, s.op), format!("panic: observed {:?}, specification {:?}", got_panic, want_panic));
    }
    for i in 0..64 {
        if o.regs[i] != exp[i] {
            let class = if exp_panic.is_some() {
                "register-changed-on-panic".to_string()
            } else if i == s.ra as usize && i >= 16 {
                format!("alu-wrong-result:{}", s.op)
            } else if i == R_OF {
                format!("alu-wrong-of:{}", s.op)
            } else if i == R_ERR {
                format!("alu-wrong-err:{}", s.op)
            } else if i == R_PC {
                "alu-pc-not-advanced-by-4".to_string()
            } else {
                "alu-unrelated-register-changed".to_string()
            };
            return fail(out, &class, format!("register {}: observed {:#x}, specification {:#x}", i, o.regs[i], exp[i]));
        }
    }
}

fn default_sys(rng: &mut Rng, flag: u64) -> [u64; 16] {
    let mut sys = [0u64; 16];
    sys[1] = 1;
    sys[R_OF] = *rng.pick(&[0u64, 1, 7, u64::MAX]);
    sys[R_PC] = 4 * rng.range(0, 5000);
    sys[R_SSP] = 512;
    sys[R_SP] = 1536;
    sys[6] = 0;
    sys[R_HP] = MEM_SIZE as u64 - 1024;
    sys[R_ERR] = *rng.pick(&[0u64, 1, 1, 99]);
    let g = rng.range(1000, 90_000);
    sys[R_GGAS] = g + rng.range(0, 1000);
    sys[R_CGAS] = g;
    if rng.chance(1, 8) {
        sys[11] = rng.next();
        sys[12] = rng.below(100) * 4;
        sys[13] = rng.next();
        sys[14] = rng.u64_biased();
    }
    sys[R_FLAG] = flag;
    sys
}

fn base_setup(rng: &mut Rng, opn: &str, flag: u64) -> Setup {
    Setup {
        op: opn.to_string(),
        ra: 0,
        rb: 0,
        rc: 0,
        rd: 0,
        imm: 0,
        sys: default_sys(rng, flag),
        prog: vec![],
        stack_len: 2048,
        mhp: MEM_SIZE as u64 - 1024,
        mem: vec![],
        watch: vec![],
    }
}

/// operand pair biased towards the interesting boundaries of the opcode
fn c21_operands(rng: &mut Rng, opn: &str) -> (u64, u64, u64) {
    let any = |rng: &mut Rng| rng.u64_biased();
    match opn {
        "EXP" | "EXPI" => match rng.below(6) {
            0 => (any(rng), rng.below(70), 0),
            1 => {
                // k^n around 2^64
                let n = rng.range(2, 40);
                let k = floor_root(u64::MAX, n);
                (k + rng.below(3) - 1, n + rng.below(2), 0)
            }
            2 => (rng.below(3), any(rng), 0),
            3 => (any(rng), (1 << 32) + rng.below(3) - 1, 0),
            _ => (rng.below(70000), rng.below(8), 0),
        },
        "MLOG" => match rng.below(5) {
            0 => {
                let c = rng.range(2, 1000);
                let k = rng.range(1, floor_log(u64::MAX, c));
                let p = pow_small(c, k).unwrap();
                (p.wrapping_add(rng.below(3)).wrapping_sub(1), c, 0)
            }
            1 => (any(rng), rng.below(4), 0),
            2 => (rng.below(3), any(rng), 0),
            _ => (any(rng), any(rng), 0),
        },
        "MROO" => match rng.below(6) {
            0 | 1 => {
                // k^n - 1, k^n, k^n + 1 with k at both ends of the admissible range
                let n = rng.range(2, 63);
                let kmax = floor_root(u64::MAX, n);
                let k = match rng.below(4) {
                    0 => kmax,
                    1 => 2.min(kmax),
                    2 => kmax.saturating_sub(rng.below(3)),
                    _ => rng.range(1, kmax),
                };
                let p = pow_small(k, n).unwrap();
                (p.wrapping_add(rng.below(3)).wrapping_sub(1), n, 0)
            }
            2 => (any(rng), rng.below(70), 0),
            3 => (rng.below(70), rng.below(70), 0),
            4 => (u64::MAX - rng.below(3), rng.range(1, 66), 0),
            _ => (any(rng), any(rng), 0),
        },
        "SLL" | "SRL" | "SLLI" | "SRLI" => match rng.below(4) {
            0 => (any(rng), 62 + rng.below(5), 0),
            1 => (any(rng), (1 << 32) + rng.below(3) - 1, 0),
            2 => (any(rng), rng.below(64), 0),
            _ => (any(rng), any(rng), 0),
        },
        "MLDV" => match rng.below(5) {
            0 => (any(rng), any(rng), 0),
            1 => (u64::MAX, u64::MAX, *rng.pick(&[0u64, 1, 2, u64::MAX, u64::MAX - 1])),
            2 => {
                let d = any(rng);
                (d, any(rng), d)
            }
            _ => (any(rng), any(rng), any(rng)),
        },
        "DIV" | "MOD" | "DIVI" | "MODI" => match rng.below(4) {
            0 => (any(rng), 0, 0),
            1 => (any(rng), 1 + rng.below(3), 0),
            _ => (any(rng), any(rng), 0),
        },
        "SUB" | "SUBI" => match rng.below(4) {
            0 => {
                let b = any(rng);
                (b, b.wrapping_add(rng.below(3)).wrapping_sub(1), 0)
            }
            _ => (any(rng), any(rng), 0),
        },
        "MUL" | "MULI" => match rng.below(4) {
            0 => ((1 << 32) + rng.below(3) - 1, (1 << 32) + rng.below(3) - 1, 0),
            1 => (u64::MAX / rng.range(1, 5000), rng.range(1, 5001), 0),
            _ => (any(rng), any(rng), 0),
        },
        "NIOP" => {
            let hi = |rng: &mut Rng| if rng.bool() { 0 } else { rng.next() };
            let small = |rng: &mut Rng| match rng.below(4) {
                0 => *rng.pick(&[0u64, 1, 2, 7, 8, 9, 15, 16, 17, 31, 32, 33, 127, 128, 255, 256, 65535, 65536, 0xffff_ffff]),
                1 => rng.below(40),
                _ => rng.next(),
            };
            let (b, c) = (small(rng), small(rng));
            let mask_hi = |v: u64, h: u64| (v & 0xffff_ffff) | (h & !0xffff_ffff);
            (mask_hi(b, hi(rng)), mask_hi(c, hi(rng)), 0)
        }
        _ => (any(rng), any(rng), any(rng)),
    }
}

fn gen_imm(rng: &mut Rng, opn: &str) -> u32 {
    let (_, bits) = shape(opn);
    match bits {
        0 => 0,
        6 => {
            if opn == "NIOP" && rng.chance(5, 6) {
                // mostly valid: op 0..5, width 0..2
                (rng.below(6) | (rng.below(3) << 4)) as u32
            } else {
                rng.below(64) as u32
            }
        }
        12 => match rng.below(4) {
            0 => *rng.pick(&[0u32, 1, 2, 3, 31, 32, 33, 62, 63, 64, 65, 127, 128, 4094, 4095]),
            _ => rng.below(4096) as u32,
        },
        _ => match rng.below(3) {
            0 => *rng.pick(&[0u32, 1, 4095, 4096, (1 << 18) - 1]),
            _ => rng.below(1 << 18) as u32,
        },
    }
}

/// place the operands in registers (possibly aliased with the destination or system registers)
fn c21_setup(rng: &mut Rng, opn: &str, flag: u64, ra: Option<u8>) -> Setup {
    let mut s = base_setup(rng, opn, flag);
    let (b, c, d) = c21_operands(rng, opn);
    let (nregs, immbits) = shape(opn);
    s.ra = ra.unwrap_or_else(|| if rng.chance(1, 8) { rng.below(16) as u8 } else { rng.range(16, 63) as u8 });
    let pick_src = |rng: &mut Rng, v: u64, prog: &mut Vec<(u8, u64)>, taken: &[u8]| -> u8 {
        if rng.chance(1, 12) {
            // read a system register instead (its value is whatever the register holds)
            return *rng.pick(&[0u8, 1, 2, 3, 8, 9, 10, 15, 5, 7]);
        }
        let mut r = rng.range(16, 63) as u8;
        while taken.contains(&r) {
            r = rng.range(16, 63) as u8;
        }
        prog.push((r, v));
        r
    };
    let mut prog = vec![];
    if nregs >= 2 {
        s.rb = if rng.chance(1, 10) && s.ra >= 16 {
            prog.push((s.ra, b));
            s.ra
        } else {
            pick_src(rng, b, &mut prog, &[s.ra])
        };
    }
    if nregs >= 3 {
        s.rc = match rng.below(12) {
            0 if s.rb >= 16 => s.rb, // same register twice
            1 if s.ra >= 16 && s.rb != s.ra => {
                prog.push((s.ra, c));
                s.ra
            }
            _ => pick_src(rng, c, &mut prog, &[s.ra, s.rb]),
        };
    }
    if nregs >= 4 {
        s.rd = pick_src(rng, d, &mut prog, &[s.ra, s.rb, s.rc]);
    }
    let _ = immbits;
    s.imm = gen_imm(rng, opn);
    if opn == "MOVI" || shape(opn).1 == 12 {
        // immediates play the role of c; nothing else to do
    }
    s.prog = prog;
    if rng.chance(1, 40) {
        // not enough gas: the charge comes first
        s.sys[R_CGAS] = rng.below(2);
        s.sys[R_GGAS] = s.sys[R_CGAS] + rng.below(3);
    }
    s
}

fn c21_emit(out: &mut Out, args: &Args, s: &Setup, class: &str) {
    let cost = probe_cost(s);
    let o = run(s);
    c21_oracle(out, s, cost, &o);
    if args.oracle_only {
        out.count("oracle-only");
        return;
    }
    // the guess is only meaningful for MROO; operands are read after the gas charge
    let before = init_regs(s);
    let mut after_charge = before;
    if before[R_CGAS] >= cost {
        after_charge[R_CGAS] -= cost;
        after_charge[R_GGAS] -= cost;
    }
    let guess = if s.op == "MROO" { float_guess(after_charge[s.rb as usize], after_charge[s.rc as usize]) } else { 0 };
    if s.op == "MROO" && o.panic.is_none() {
        // oracle contract of the floating-point starting point: within one of the true root
        let (t, n) = (after_charge[s.rb as usize], after_charge[s.rc as usize]);
        if n >= 2 && n <= 64 && t > 1 && n < t {
            let r = floor_root(t, n);
            out.oracle_evaluations += 1;
            if guess + 1 < r || guess > r + 1 {
                out.oracle_fail("mroo-float-guess-off-by-more-than-one", &format!("powf({t}, 1/{n}) = {guess}, true root {r}"), serde_json::to_value(s).unwrap());
            }
        }
    }
    let dst_changed = o.regs[s.ra as usize] != before[s.ra as usize];
    out.push(Case {
        coq: coq_case(s, cost, guess, &o),
        json: json!({"kind":"alu","setup": s, "panic": o.panic, "dst": o.regs[s.ra as usize], "of": o.regs[R_OF], "err": o.regs[R_ERR], "pc": o.regs[R_PC]}),
        key: format!("{}:{}:{}:{}:{}:{:?}:{}:{}", s.op, s.ra, s.imm, after_charge[s.rb as usize], after_charge[s.rc as usize], o.panic, o.regs[s.ra as usize], o.regs[R_OF]),
        nontrivial: dst_changed || o.panic.is_some() || o.regs[R_OF] != 0,
        class: format!("{}:{}", class, s.op),
    });
}

// ------------------------------------------------------------------ narrow-int exhaustive sweep
fn sweep_case(out: &mut Out, args: &Args, imm: u32, flag: u64, hi_b: u64, hi_c: u64, b_lo: u64, b_hi: u64) {
    let mut hasher = Sha256::new();
    let mut cost = 0;
    let mut rng = Rng::new(0);
    for b in b_lo..b_hi {
        for c in 0..256u64 {
            let mut s = base_setup(&mut rng, "NIOP", flag);
            s.sys = [0; 16];
            s.sys[1] = 1;
            s.sys[R_PC] = 4096;
            s.sys[R_GGAS] = 1_000_000;
            s.sys[R_CGAS] = 1_000_000;
            s.sys[R_FLAG] = flag;
            s.stack_len = 0;
            s.mhp = MEM_SIZE as u64;
            s.ra = 16;
            s.rb = 17;
            s.rc = 18;
            s.imm = imm;
            let (vb, vc) = (hi_b.wrapping_mul(256).wrapping_add(b), hi_c.wrapping_mul(256).wrapping_add(c));
            s.prog = vec![(17, vb), (18, vc)];
            let o = run(&s);
            cost = 1_000_000 - o.regs[R_CGAS];
            c21_oracle(out, &s, cost, &o);
            hasher.update([o.panic.unwrap_or(0)]);
            if o.panic == Some(255) {
                continue;
            }
            hasher.update(o.regs[16].to_be_bytes());
            hasher.update(o.regs[R_OF].to_be_bytes());
            hasher.update([o.regs[R_ERR] as u8]);
        }
    }
    if args.oracle_only {
        return;
    }
    let digest = hasher.finalize();
    out.push(Case {
        coq: format!(
            "Sweep {{| sw_imm := {}; sw_flag := {}; sw_cost := {}; sw_hi_b := {}; sw_hi_c := {}; sw_b_lo := {}; sw_b_hi := {}; sw_digest := {} |}}",
            imm, flag, cost, hi_b, hi_c, b_lo, b_hi, coq_bytes(&digest)
        ),
        json: json!({"kind":"narrow-sweep","imm":imm,"flag":flag,"hi_b":hi_b,"hi_c":hi_c,"b_lo":b_lo,"b_hi":b_hi,"digest":hexs(&digest)}),
        key: format!("sweep:{}:{}:{}:{}:{}", imm, flag, hi_b, hi_c, b_lo),
        nontrivial: true,
        class: "narrow-sweep".into(),
    });
}

fn run_c21(args: &Args, out: &mut Out) {
    let mut rng = Rng::new(args.seed);
    if let Some(p) = &args.replay {
        let s: Setup = serde_json::from_value(read_replay(p)).expect("replay setup");
        c21_emit(out, args, &s, "replay");
        return;
    }
    let per_op = args.scale(36, 400);
    for opn in C21_OPS {
        // boundary-biased operands x both flags
        for k in 0..per_op {
            let flag = (k % 4) as u64;
            let s = c21_setup(&mut rng, opn, flag, None);
            c21_emit(out, args, &s, "biased");
        }
        // every destination register (reserved ones included)
        if opn != "NOOP" {
            let dests: Vec<u8> = if args.thorough() { (0..64).collect() } else { (0..16).chain([16u8, 17, 31, 32, 62, 63]).collect() };
            for ra in dests {
                let flag = rng.below(4);
                let s = c21_setup(&mut rng, opn, flag, Some(ra));
                c21_emit(out, args, &s, "dest");
            }
        }
    }
    // implementation-only volume for the oracle (the model is not run on these)
    {
        let extra = args.scale(600, 6000);
        let only = Args { oracle_only: true, ..args.clone() };
        for opn in C21_OPS {
            for k in 0..extra {
                let s = c21_setup(&mut rng, opn, (k % 4) as u64, None);
                c21_emit(out, &only, &s, "oracle");
            }
        }
    }
    // NIOP: every immediate
    for imm in 0..64u32 {
        for flag in [0u64, 2] {
            let mut s = c21_setup(&mut rng, "NIOP", flag, None);
            s.imm = imm;
            c21_emit(out, args, &s, "imm");
        }
    }
    // narrow-int operations over 8-bit operands: quick = a 16-row slice per op, thorough = exhaustive
    for opn in 0..6u32 {
        for flag in [0u64, 2] {
            if args.thorough() {
                for w in 0..3u32 {
                    let step = if w == 0 { 16 } else { 64 };
                    let mut lo = 0;
                    while lo < 256 {
                        let (hb, hc) = if w == 0 { (rng.next() >> 8, rng.next() >> 8) } else { (rng.below(3), rng.below(3)) };
                        sweep_case(out, args, opn | (w << 4), flag, hb, hc, lo, lo + step);
                        lo += step;
                    }
                }
            } else {
                let lo = *rng.pick(&[0u64, 120, 240]);
                sweep_case(out, args, opn, flag, rng.next() >> 8, rng.next() >> 8, lo, lo + 4);
            }
        }
    }
}

// ------------------------------------------------------------------ C22
fn width_of(opn: &str) -> usize {
    if opn.starts_with("WD") { 16 } else { 32 }
}

fn wide_biased(rng: &mut Rng, n: usize) -> Vec<u8> {
    let mut v = vec![0u8; n];
    match rng.below(12) {
        0 => {}
        1 => v[n - 1] = 1,
        2 => v[n - 1] = 2,
        3 => v.iter_mut().for_each(|x| *x = 0xff),
        4 => {
            v.iter_mut().for_each(|x| *x = 0xff);
            v[n - 1] = 0xfe;
        }
        5 => v[0] = 0x80,
        6 => {
            // 2^k, 2^k - 1
            let k = rng.below(8 * n as u64) as usize;
            v[n - 1 - k / 8] = 1 << (k % 8);
            if rng.bool() {
                let one = Big::from_u64(1);
                let b = Big::from_be(&v).sub(&one);
                v = b.to_be(n);
            }
        }
        7 => v[n - 8..].copy_from_slice(&rng.u64_biased().to_be_bytes()),
        8 => {
            // 2^64-ish boundaries
            v[n - 9] = 1;
            if rng.bool() {
                v[n - 8..].copy_from_slice(&rng.u64_biased().to_be_bytes());
            }
        }
        9 => {
            // half-width boundary
            let h = n / 2;
            for x in v[h..].iter_mut() {
                *x = 0xff;
            }
            if rng.bool() {
                v = Big::from_be(&v).add(&Big::from_u64(rng.below(3))).to_be(n);
            }
        }
        _ => v = rng.bytes(n),
    }
    v
}

#[derive(Clone, Debug)]
enum WSpec {
    /// register result (compares)
    Reg { res: u64 },
    /// memory result
    Mem { bytes: Vec<u8>, of: u64, err: u64 },
    Panic(PanicReason),
}

fn cmp_to_u64(o: std::cmp::Ordering, mode: u32) -> u64 {
    use std::cmp::Ordering::*;
    (match mode {
        0 => o == Equal,
        1 => o != Equal,
        2 => o == Less,
        3 => o == Greater,
        4 => o != Greater,
        5 => o != Less,
        _ => unreachable!(),
    }) as u64
}

/// arithmetic part of the C22 reference: operands already loaded as integers
fn c22_arith(opn: &str, imm: u32, l: &Big, r: &Big, third: &Big, flag: u64) -> WSpec {
    let n = width_of(opn);
    let bits = 8 * n;
    let unsafe_math = flag & 1 != 0;
    let wrapping = flag & 2 != 0;
    let m = Big::pow2(bits);
    let mem = |v: &Big, of: u64, err: u64| WSpec::Mem { bytes: v.to_be(n), of, err };
    let overflowing = |exact: Big, ov: bool| -> WSpec {
        if ov && !wrapping {
            WSpec::Panic(PanicReason::ArithmeticOverflow)
        } else {
            WSpec::Mem { bytes: exact.low_bits(bits).to_be(n), of: ov as u64, err: 0 }
        }
    };
    let undefined = |v: Option<Big>| -> WSpec {
        match v {
            Some(x) => mem(&x, 0, 0),
            None if unsafe_math => mem(&Big::zero(), 0, 1),
            None => WSpec::Panic(PanicReason::ArithmeticError),
        }
    };
    match &opn[2..] {
        "CM" => {
            let mode = imm & 7;
            if mode == 6 {
                WSpec::Reg { res: (bits - l.bits()) as u64 }
            } else {
                WSpec::Reg { res: cmp_to_u64(l.cmp(r), mode) }
            }
        }
        "OP" => match imm & 31 {
            0 => {
                let e = l.add(r);
                let ov = e.cmp(&m) != std::cmp::Ordering::Less;
                overflowing(e, ov)
            }
            1 => {
                if l.cmp(r) != std::cmp::Ordering::Less {
                    overflowing(l.sub(r), false)
                } else {
                    overflowing(m.sub(&r.sub(l)), true)
                }
            }
            2 => mem(&m.sub(&Big::from_u64(1)).sub(l), 0, 0),
            k @ (3 | 4 | 5) => {
                let (lb, rb) = (l.to_be(n), r.to_be(n));
                let v: Vec<u8> = lb.iter().zip(rb.iter()).map(|(x, y)| match k {
                    3 => x | y,
                    4 => x ^ y,
                    _ => x & y,
                }).collect();
                WSpec::Mem { bytes: v, of: 0, err: 0 }
            }
            6 => {
                if r.cmp(&Big::from_u64(bits as u64)) != std::cmp::Ordering::Less {
                    mem(&Big::zero(), 0, 0)
                } else {
                    let sh = r.0.first().copied().unwrap_or(0) as usize;
                    mem(&l.mul(&Big::pow2(sh)).low_bits(bits), 0, 0)
                }
            }
            7 => {
                if r.cmp(&Big::from_u64(bits as u64)) != std::cmp::Ordering::Less {
                    mem(&Big::zero(), 0, 0)
                } else {
                    let sh = r.0.first().copied().unwrap_or(0) as usize;
                    mem(&l.shr(sh), 0, 0)
                }
            }
            _ => unreachable!(),
        },
        "ML" => {
            let e = l.mul(r);
            let ov = e.cmp(&m) != std::cmp::Ordering::Less;
            overflowing(e, ov)
        }
        "DV" => undefined(if r.is_zero() { None } else { Some(l.divrem(r).0) }),
        "AM" => undefined(if third.is_zero() { None } else { Some(l.add(r).divrem(third).1) }),
        "MM" => undefined(if third.is_zero() { None } else { Some(l.mul(r).divrem(third).1) }),
        "MD" => {
            let p = l.mul(r);
            let q = if third.is_zero() { p.shr(bits) } else { p.divrem(third).0 };
            let ov = q.cmp(&m) != std::cmp::Ordering::Less;
            overflowing(q, ov)
        }
        _ => unreachable!(),
    }
}

/// decoding of the immediate per the ISA: (valid, indirect_lhs, indirect_rhs)
fn c22_imm(opn: &str, imm: u32) -> (bool, bool, bool) {
    let ind_r = imm & 0x20 != 0;
    match &opn[2..] {
        "CM" => ((imm >> 3) & 3 == 0 && (imm & 7) <= 6, true, ind_r),
        "OP" => ((imm & 31) <= 7, true, ind_r),
        "ML" => (imm & 15 == 0, imm & 0x10 != 0, ind_r),
        "DV" => (imm & 31 == 0, true, ind_r),
        _ => (true, true, true),
    }
}

/// memory rules of the ISA for an n-byte access (independent formulation)
fn readable(s: &Setup, addr: u64, n: usize) -> Result<(), PanicReason> {
    let end = addr as u128 + n as u128;
    if end > MEM_SIZE as u128 {
        return Err(PanicReason::MemoryOverflow);
    }
    if end <= s.stack_len as u128 || addr >= s.mhp {
        Ok(())
    } else {
        Err(PanicReason::UninitalizedMemoryAccess)
    }
}
fn writable(s: &Setup, regs: &[u64; 64], addr: u64, n: usize) -> Result<(), PanicReason> {
    readable(s, addr, n)?;
    let end = addr + n as u64;
    let in_stack = regs[R_SSP] <= addr && end <= regs[R_SP] && addr < regs[R_SP];
    let in_heap = regs[R_HP] <= addr && end <= VM_MAX_RAM && regs[R_HP] != VM_MAX_RAM;
    if in_stack || in_heap { Ok(()) } else { Err(PanicReason::MemoryOwnership) }
}

fn mem_before(s: &Setup, addr: u64, n: usize) -> Vec<u8> {
    let mut v = vec![0u8; n];
    for (a, bytes) in &s.mem {
        for (k, x) in bytes.iter().enumerate() {
            let p = a + k as u64;
            if p >= addr && p < addr + n as u64 {
                v[(p - addr) as usize] = *x;
            }
        }
    }
    v
}

fn c22_oracle(out: &mut Out, s: &Setup, cost: u64, o: &Obs) {
    out.oracle_evaluations += 1;
    let before = init_regs(s);
    let replay = serde_json::to_value(s).unwrap();
    let fail = |out: &mut Out, class: &str, what: String| {
        out.oracle_fail(class, &format!("{} ra={} rb={} rc={} rd={} imm={} flag={}: {}", s.op, s.ra, s.rb, s.rc, s.rd, s.imm, before[R_FLAG], what), replay.clone());
    };
    if o.panic == Some(255) {
        return fail(out, "host-panic", "the interpreter panicked (Rust panic)".into());
    }
    let n = width_of(&s.op);
    let is_cmp = &s.op[2..] == "CM";
    let mut exp = before;
    let mut exp_mem: Option<(u64, Vec<u8>)> = None;
    let exp_panic: Option<PanicReason>;
    if before[R_CGAS] < cost {
        exp_panic = Some(PanicReason::OutOfGas);
        exp[R_GGAS] = before[R_GGAS].saturating_sub(before[R_CGAS]);
        exp[R_CGAS] = 0;
    } else {
        exp[R_CGAS] -= cost;
        exp[R_GGAS] -= cost;
        let r = exp;
        let (valid, ind_l, ind_r) = c22_imm(&s.op, s.imm);
        let four = shape(&s.op).0 == 4;
        let load = |indirect: bool, v: u64| -> Result<Big, PanicReason> {
            if indirect {
                readable(s, v, n)?;
                Ok(Big::from_be(&mem_before(s, v, n)))
            } else {
                Ok(Big::from_u64(v))
            }
        };
        let step = || -> Result<WSpec, PanicReason> {
            if !valid {
                return Err(PanicReason::InvalidImmediateValue);
            }
            if is_cmp && s.ra < 16 {
                return Err(PanicReason::ReservedRegisterNotWritable);
            }
            let l = load(ind_l, r[s.rb as usize])?;
            let rr = load(ind_r, r[s.rc as usize])?;
            let third = if four { load(true, r[s.rd as usize])? } else { Big::zero() };
            match c22_arith(&s.op, s.imm, &l, &rr, &third, r[R_FLAG]) {
                WSpec::Panic(p) => Err(p),
                w @ WSpec::Reg { .. } => Ok(w),
                w @ WSpec::Mem { .. } => {
                    writable(s, &r, r[s.ra as usize], n)?;
                    Ok(w)
                }
            }
        };
        match step() {
            Err(p) => exp_panic = Some(p),
            Ok(WSpec::Reg { res }) => {
                exp_panic = None;
                exp[s.ra as usize] = res;
                exp[R_OF] = 0;
                exp[R_ERR] = 0;
                exp[R_PC] = before[R_PC] + 4;
            }
            Ok(WSpec::Mem { bytes, of, err }) => {
                exp_panic = None;
                exp[R_OF] = of;
                exp[R_ERR] = err;
                exp[R_PC] = before[R_PC] + 4;
                exp_mem = Some((r[s.ra as usize], bytes));
            }
            Ok(WSpec::Panic(_)) => unreachable!(),
        }
    }
    let want_panic = exp_panic.map(|r| r as u8);
    if o.panic != want_panic {
        let class = match (exp_panic, o.panic) {
            (None, Some(_)) => "wide-unexpected-panic",
            (Some(_), None) => "wide-missing-panic",
            _ => "wide-wrong-panic-reason",
        };
        return fail(out, &format!("{}:{}", class, s.op), format!("panic: observed {:?}, specification {:?}", o.panic, want_panic));
    }
    // memory: exactly the destination changes
    let mut flat_exp = o.flat_before.clone();
    if let Some((addr, bytes)) = &exp_mem {
        let idx = if *addr < s.stack_len { *addr as usize } else { (s.stack_len + (*addr - s.mhp)) as usize };
        flat_exp[idx..idx + bytes.len()].copy_from_slice(bytes);
    }
    if flat_exp != o.flat_after {
        let class = if exp_mem.is_some() { format!("wide-wrong-result:{}", s.op) } else { "wide-memory-changed-unexpectedly".to_string() };
        let got = exp_mem.as_ref().map(|(a, b)| {
            let idx = if *a < s.stack_len { *a as usize } else { (s.stack_len + (*a - s.mhp)) as usize };
            hexs(&o.flat_after[idx..idx + b.len()])
        });
        return fail(out, &class, format!("memory after differs from the specification: destination observed {:?}, specified {:?}", got, exp_mem.as_ref().map(|(_, b)| hexs(b))));
    }
    for i in 0..64 {
        // after a panic the ISA leaves $of/$err unspecified (the transaction reverts)
        if exp_panic.is_some() && (i == R_OF || i == R_ERR) {
            continue;
        }
        if o.regs[i] != exp[i] {
            let class = if exp_panic.is_some() {
                "register-changed-on-panic".to_string()
            } else if i == s.ra as usize && is_cmp {
                format!("wide-wrong-result:{}", s.op)
            } else if i == R_OF {
                format!("wide-wrong-of:{}", s.op)
            } else if i == R_ERR {
                format!("wide-wrong-err:{}", s.op)
            } else if i == R_PC {
                "wide-pc-not-advanced-by-4".to_string()
            } else {
                "wide-unrelated-register-changed".to_string()
            };
            return fail(out, &class, format!("register {}: observed {:#x}, specification {:#x}", i, o.regs[i], exp[i]));
        }
    }
}

/// an address for an n-byte operand: mostly valid (stack or heap), sometimes on a boundary or invalid
fn gen_addr(rng: &mut Rng, s: &Setup, n: usize, for_write: bool) -> u64 {
    let n = n as u64;
    let (ssp, sp, hp) = (s.sys[R_SSP], s.sys[R_SP], s.sys[R_HP]);
    if rng.chance(4, 5) {
        // mostly valid
        return match rng.below(if for_write { 4 } else { 6 }) {
            0 => ssp,
            1 => sp - n,
            2 => rng.range(hp, MEM_SIZE as u64 - n),
            3 => rng.range(ssp, sp - n),
            4 => rng.range(0, s.stack_len - n),
            _ => MEM_SIZE as u64 - n,
        };
    }
    match rng.below(12) {
        0 => sp - n + 1,                            // crosses $sp: not owned, still readable
        1 => ssp - 1,                               // crosses $ssp
        2 => hp,                                    // first heap byte
        3 => MEM_SIZE as u64 - n,                   // last slot of memory
        4 => MEM_SIZE as u64 - n + 1,               // past the end
        5 => s.stack_len - n + rng.below(3),        // around the end of the allocated stack
        6 => hp - rng.below(n + 1),                 // straddles the heap start
        7 => *rng.pick(&[u64::MAX, u64::MAX - n, MEM_SIZE as u64, 1 << 32, 1 << 63]),
        8 => rng.range(0, ssp - n),                 // below $ssp: readable, not owned
        9 => rng.range(s.stack_len, hp - n),        // the gap: unallocated
        10 => rng.range(sp, s.stack_len - n),       // allocated stack above $sp: readable, not owned
        _ => rng.range(ssp, sp - n),
    }
}

fn c22_setup(rng: &mut Rng, opn: &str, flag: u64, imm: Option<u32>) -> Setup {
    let mut s = base_setup(rng, opn, flag);
    let n = width_of(opn);
    let (nregs, _) = shape(opn);
    let kind = &opn[2..];
    s.imm = match imm {
        Some(i) => i,
        None => match kind {
            "CM" => (rng.below(7) | if rng.bool() { 0x20 } else { 0 }) as u32,
            "OP" => (rng.below(8) | if rng.bool() { 0x20 } else { 0 }) as u32,
            "ML" => (rng.below(4) << 4) as u32,
            "DV" => (rng.below(2) << 5) as u32,
            _ => 0,
        },
    };
    let (_, ind_l, ind_r) = c22_imm(opn, s.imm);
    // values
    let mut l = wide_biased(rng, n);
    let mut r = wide_biased(rng, n);
    let mut t = wide_biased(rng, n);
    match (kind, rng.below(6)) {
        ("OP", 0) if s.imm & 31 >= 6 => {
            // shift amounts around the width
            r = Big::from_u64(*rng.pick(&[0u64, 1, 63, 64, 65, 127, 128, 129, 255, 256, 257, 1 << 32, (1 << 32) - 1, u64::MAX])).to_be(n);
        }
        ("OP", 1) if s.imm & 31 <= 1 => r = l.clone(),
        ("DV", 0) | ("CM", 0) => r = l.clone(),
        ("DV", 1) => r = vec![0; n],
        ("AM", 0) | ("MM", 0) | ("MD", 0) => t = vec![0; n],
        ("AM", 1) | ("MM", 1) | ("MD", 1) => t = l.clone(),
        ("MD", 2) => {
            l = vec![0xff; n];
            r = vec![0xff; n];
        }
        ("AM", 2) => {
            l = vec![0xff; n];
            r = vec![0xff; n];
            t = vec![0xff; n];
        }
        _ => {}
    }
    if kind == "CM" && s.imm & 7 == 6 && rng.bool() {
        // LZC: a value with k leading zero bits
        let k = rng.below(8 * n as u64 + 1) as usize;
        l = if k == 8 * n { vec![0; n] } else { Big::pow2(8 * n - 1 - k).add(&Big::from_be(&rng.bytes(n)).low_bits(8 * n - 1 - k)).to_be(n) };
    }
    let mut taken: Vec<u8> = vec![];
    let fresh = |rng: &mut Rng, taken: &mut Vec<u8>| -> u8 {
        let mut x = rng.range(16, 63) as u8;
        while taken.contains(&x) {
            x = rng.range(16, 63) as u8;
        }
        taken.push(x);
        x
    };
    let mut prog: Vec<(u8, u64)> = vec![];
    let mut mem: Vec<(u64, Vec<u8>)> = vec![];
    // destination
    if kind == "CM" {
        s.ra = if rng.chance(1, 8) { rng.below(16) as u8 } else { fresh(rng, &mut taken) };
        if s.ra >= 16 {
            taken.push(s.ra);
        }
    } else {
        s.ra = fresh(rng, &mut taken);
        let d = gen_addr(rng, &s, n, true);
        prog.push((s.ra, d));
        s.watch.push((d, n));
    }
    // place an operand: returns the register value
    let place = |rng: &mut Rng, s: &Setup, indirect: bool, bytes: &[u8], mem: &mut Vec<(u64, Vec<u8>)>| -> u64 {
        if indirect {
            let a = gen_addr(rng, s, n, false);
            if readable(s, a, n).is_ok() && !mem.iter().any(|(x, b)| a < *x + b.len() as u64 && *x < a + n as u64) {
                mem.push((a, bytes.to_vec()));
            }
            a
        } else {
            // direct: the register value itself, zero-extended
            u64::from_be_bytes(bytes[n - 8..].try_into().unwrap())
        }
    };
    s.rb = fresh(rng, &mut taken);
    let vb = place(rng, &s, ind_l, &l, &mut mem);
    prog.push((s.rb, vb));
    if rng.chance(1, 10) && (ind_l == ind_r) {
        s.rc = s.rb; // same operand twice
    } else {
        s.rc = fresh(rng, &mut taken);
        let vc = place(rng, &s, ind_r, &r, &mut mem);
        prog.push((s.rc, vc));
    }
    if nregs == 4 {
        s.rd = fresh(rng, &mut taken);
        let vd = place(rng, &s, true, &t, &mut mem);
        prog.push((s.rd, vd));
    }
    // occasionally the destination aliases an operand (reads happen first)
    if kind != "CM" && rng.chance(1, 10) {
        let d = prog.iter().find(|(r, _)| *r == s.rb).unwrap().1;
        if ind_l {
            prog.iter_mut().find(|(r, _)| *r == s.ra).unwrap().1 = d;
            s.watch = vec![(d, n)];
        }
    }
    s.prog = prog;
    s.mem = mem;
    if rng.chance(1, 50) {
        s.sys[R_CGAS] = rng.below(2);
        s.sys[R_GGAS] = s.sys[R_CGAS] + rng.below(3);
    }
    s
}

fn c22_emit(out: &mut Out, args: &Args, s: &Setup, class: &str) {
    let cost = probe_cost(s);
    let o = run(s);
    c22_oracle(out, s, cost, &o);
    if args.oracle_only {
        out.count("oracle-only");
        return;
    }
    let before = init_regs(s);
    let dest = s.watch.first().and_then(|(a, l)| o.regions.iter().find(|(x, b)| x == a && b.len() == *l)).map(|(_, b)| hexs(b));
    let changed = o.flat_after != o.flat_before || o.regs[s.ra as usize] != before[s.ra as usize];
    out.push(Case {
        coq: coq_case(s, cost, 0, &o),
        json: json!({"kind":"wide","setup": s, "panic": o.panic, "dest": dest, "of": o.regs[R_OF], "err": o.regs[R_ERR]}),
        key: format!("{}:{}:{:?}:{:?}:{}:{}:{}", s.op, s.imm, o.panic, dest, o.regs[R_OF], o.regs[R_ERR], o.regs[s.ra as usize]),
        nontrivial: changed || o.panic.is_some(),
        class: format!("{}:{}", class, s.op),
    });
}

fn run_c22(args: &Args, out: &mut Out) {
    let mut rng = Rng::new(args.seed);
    if let Some(p) = &args.replay {
        let s: Setup = serde_json::from_value(read_replay(p)).expect("replay setup");
        c22_emit(out, args, &s, "replay");
        return;
    }
    let per_op = args.scale(70, 800);
    for opn in C22_OPS {
        for k in 0..per_op {
            let s = c22_setup(&mut rng, opn, (k % 4) as u64, None);
            c22_emit(out, args, &s, "biased");
        }
        // implementation-only volume for the oracle (the model is not run on these)
        {
            let extra = args.scale(250, 3000);
            let only = Args { oracle_only: true, ..args.clone() };
            for k in 0..extra {
                let s = c22_setup(&mut rng, opn, (k % 4) as u64, None);
                c22_emit(out, &only, &s, "oracle");
            }
        }
        // every immediate of the families that have one
        if shape(opn).1 == 6 {
            for imm in 0..64u32 {
                let flag = rng.below(4);
                let s = c22_setup(&mut rng, opn, flag, Some(imm));
                c22_emit(out, args, &s, "imm");
            }
        }
    }
}

fn main() {
    quiet_panics();
    let args = Args::parse();
    let mut out = Out::new();
    let header = "From FV Require Import Base.Bytes Alu.AluSyntax Run.Alu.\nOpen Scope N_scope.";
    match args.prop.as_str() {
        "C21" => run_c21(&args, &mut out),
        "C22" => run_c22(&args, &mut out),
        p => {
            eprintln!("alu: unknown property {p}");
            std::process::exit(2);
        }
    }
    // spread the expensive cases (sweeps) evenly over the shards
    let mut sh = Rng::new(args.seed ^ 0x5eed);
    sh.shuffle(&mut out.cases);
    out.write(&args, header, "acase", "bad_alu");
}
