//! C33 — contract storage instructions behave like a key-value map.
//!
//! Histories on one world: several transactions, each calling several contracts (some calling each
//! other), every contract executing a long sequence of storage instructions over OVERLAPPING key
//! ranges (two key blocks: random K..K+7, and 2^256-4..2^256-1), rewrites, empty values, bounds
//! violations, range overflow, faulty pointers / registers.  Two program sources: hand-built op
//! sequences (this file) on top of vmtrace's World / TxSpec / assembler, and vmtrace's
//! `gen_scenario` (storage feature), each run twice on the same world.
//! Every storage instruction becomes a `kstep` (Run/Kv.v); the Coq checker replays the L1 model.
//! Implementation-level oracles (property checked directly on the real interpreter):
//!   O1 plain HashMap reference replayed in Rust: every result register / $err / bytes read /
//!      KV panic, and the persistent storage after each transaction;
//!   O2 cache coherence after every instruction (slot cache entry = backing storage);
//!   O3 the same transaction with the slot cache emptied before every instruction gives the same
//!      results (registers, memory read, panics, storage) — only gas may differ;
//!   O4 storage events on the contract-state table occur only in storage instructions.
#[path = "../kvprobe.rs"]
mod kvprobe;
use fuel_asm::{op, GTFArgs, Instruction, PanicReason, RegId};
use fuel_storage::StorageInspect;
use fuel_tx::ScriptParameters;
use fuel_types::canonical::Serialize as _;
use fuel_types::{AssetId, Bytes32, ContractId};
use fuel_vm::prelude::Call;
use fuel_vm::storage::{ContractsState, ContractsStateKey, MemoryStorage};
use fvh::vmtrace::*;
use fvh::*;
use kvprobe::*;
use serde_json::{json, Value};
use std::collections::{BTreeMap, HashMap};

const T: [u8; 7] = R_TMP;
const OPS: [&str; 13] = ["SCWQ", "SRW", "SRWQ", "SWW", "SWWQ", "SCLR", "SRDD", "SRDI", "SWRD", "SWRI", "SUPD", "SUPI", "SPLD"];
const CHUNK_CAP: u64 = 1024;
const BYTES_CAP: u64 = 8192;

// ------------------------------------------------------------------------------------------------
// what one storage instruction reads / where it writes (from the opcode shapes)
// ------------------------------------------------------------------------------------------------
#[derive(Clone, Debug, Default)]
struct Peek {
    is_storage: bool,
    rd: Vec<(u64, u64, Result<Vec<u8>, PanicReason>)>,
    wr: Vec<(u64, u64, Option<PanicReason>)>,
    dst: (u64, u64),
    mem_before: Option<Vec<u8>>,
    cache_cleared: bool,
}
#[derive(Clone, Debug, Default)]
struct After {
    mem_after: Option<Vec<u8>>,
    incoherent: Vec<String>,
}

fn sat_chunk(base: u64, i: u64) -> u64 { base.saturating_add(i.saturating_mul(32)) }

fn peek(vm: &Vm, pre: &Pre) -> Peek {
    let mut p = Peek::default();
    if pre.instr.is_none() || !OPS.contains(&pre.mnemonic.as_str()) { return p; }
    p.is_storage = true;
    let f = pre.fields();
    let v = pre.field_values();
    let mem = vm.memory();
    let mut rd = |a: u64, l: u64| { if l <= BYTES_CAP || mem.read(a, l).is_err() { p.rd.push((a, l, mem_read(mem, a, l))); } };
    let mut wrs: Vec<(u64, u64)> = vec![];
    let mut dst = (0u64, 0u64);
    match pre.mnemonic.as_str() {
        "SCWQ" | "SWW" | "SCLR" => rd(v[0], 32),
        "SRW" => rd(v[2], 32),
        "SPLD" => rd(v[1], 32),
        "SRWQ" => {
            rd(v[2], 32);
            for i in 0..v[3].min(CHUNK_CAP) { let a = sat_chunk(v[0], i); wrs.push((a, 32)); if mem_write_check(mem, pre, a, 32).is_some() { break; } }   // the loop stops at the first refusal
            dst = (v[0], v[3].saturating_mul(32));
        }
        "SWWQ" => {
            rd(v[0], 32);
            for i in 0..v[3].min(CHUNK_CAP) { let a = sat_chunk(v[2], i); rd(a, 32); if mem.read(a, 32u64).is_err() { break; } }   // the loop stops at the first fault
        }
        "SRDD" | "SRDI" => {
            rd(v[1], 32);
            let len = if pre.mnemonic == "SRDD" { v[3] } else { f[3] as u64 };
            wrs.push((v[0], len));
            dst = (v[0], len);
        }
        "SWRD" | "SWRI" => {
            rd(v[0], 32);
            let len = if pre.mnemonic == "SWRD" { v[2] } else { ((f[2] as u64) << 6) | f[3] as u64 };
            rd(v[1], len);
        }
        "SUPD" | "SUPI" => {
            rd(v[0], 32);
            let len = if pre.mnemonic == "SUPD" { v[3] } else { f[3] as u64 };
            rd(v[1], len);
        }
        _ => {}
    }
    for (a, l) in wrs { p.wr.push((a, l, mem_write_check(mem, pre, a, l))); }
    p.dst = dst;
    if dst.1 > 0 && dst.1 <= BYTES_CAP { p.mem_before = mem_read(mem, dst.0, dst.1).ok(); }
    p
}

fn after(vm: &Vm, _pre: &Pre, p: &Peek, _post: &Post) -> After {
    let mut a = After::default();
    if p.is_storage && p.dst.1 > 0 && p.dst.1 <= BYTES_CAP { a.mem_after = mem_read(vm.memory(), p.dst.0, p.dst.1).ok(); }
    // O2: cache coherence on the real interpreter
    let st: &MemoryStorage = &vm.as_ref().inner;
    for ((c, k), v) in vm.bench_storage_slot_cache().iter() {
        let key = ContractsStateKey::new(c, k);
        let real = StorageInspect::<ContractsState>::get(st, &key).ok().flatten().map(|x| x.as_ref().as_ref().to_vec());
        if real != *v { a.incoherent.push(format!("{}:{}", hex::encode(c), hex::encode(k))); }
    }
    a
}

// ------------------------------------------------------------------------------------------------
// hand-built programs
// ------------------------------------------------------------------------------------------------
#[derive(Clone, Debug)]
struct Layout {
    data: Vec<u8>,
    call_off: Vec<usize>,
    asset_off: usize,
    key_off: usize,
    n_keys: usize,
    blob_off: usize,
    blob_len: usize,
}
fn addr(out: &mut Vec<Asm>, t: u8, off: usize) {
    if off < 4096 { out.push(Asm::I(op::addi(t, R_DATA, off as u16))); }
    else { out.push(Asm::I(op::movi(t, off as u32))); out.push(Asm::I(op::add(t, t, R_DATA))); }
}
/// load a 64-bit constant
fn load64(out: &mut Vec<Asm>, r: u8, v: u64) {
    if v < (1 << 18) { out.push(Asm::I(op::movi(r, v as u32))); return; }
    if v == u64::MAX { out.push(Asm::I(op::not(r, RegId::ZERO))); return; }
    out.push(Asm::I(op::movi(r, (v >> 48) as u32)));
    for sh in [36u32, 24, 12, 0] {
        out.push(Asm::I(op::slli(r, r, 12)));
        out.push(Asm::I(op::ori(r, r, ((v >> sh) & 0xfff) as u16)));
    }
}

struct OpGen<'a> { rng: &'a mut Rng, lay: &'a Layout, fault_pm: u64, huge: bool }
/// key table: 0..=5 "quad" keys K..K+5 (only 32-byte values are written there on purpose), 6,7 "dynamic" keys
/// K+6, K+7 (any length; adjacent, so ranges can run into them), 8..=11 quad keys 2^256-4 .. 2^256-1
impl OpGen<'_> {
    fn fault(&mut self) -> bool { self.rng.chance(self.fault_pm, 1000) }
    fn risky(&mut self) -> bool { self.rng.chance(12, 1000) }
    fn key_at(&mut self, out: &mut Vec<Asm>, t: u8, i: usize) {
        if self.fault() && self.rng.chance(1, 3) {
            out.push(Asm::I(op::subi(t, RegId::HP, 64)));  // unallocated: UninitalizedMemoryAccess
        } else { addr(out, t, self.lay.key_off + 32 * i); }
    }
    /// start of a range of n slots: mostly inside one quad block
    fn quad_key(&mut self, out: &mut Vec<Asm>, t: u8, n: u64) {
        let i = if self.risky() { self.rng.below(self.lay.n_keys as u64) as usize } else {
            let (lo, size) = if self.rng.chance(7, 10) { (0u64, 6u64) } else { (8, 4) };
            (lo + self.rng.below(size.saturating_sub(n.min(size)) + 1).min(size - 1)) as usize
        };
        self.key_at(out, t, i);
    }
    fn dyn_key(&mut self, out: &mut Vec<Asm>, t: u8) {
        let i = if self.rng.chance(85, 100) { 6 + self.rng.below(2) as usize } else { self.rng.below(self.lay.n_keys as u64) as usize };
        self.key_at(out, t, i);
    }
    fn range(&mut self) -> u64 {
        if self.fault() && self.huge { *self.rng.pick(&[u64::MAX, 1 << 40, 1 << 32, 300, 100]) } else { *self.rng.pick(&[0u64, 1, 1, 2, 2, 3, 3, 4, 5]) }
    }
    fn src(&mut self, out: &mut Vec<Asm>, t: u8, len: usize) {
        if self.fault() { match self.rng.below(2) { 0 => out.push(Asm::I(op::subi(t, RegId::HP, 40))), _ => out.push(Asm::I(op::not(t, RegId::ZERO))) } }
        else if self.rng.chance(1, 5) { out.push(Asm::I(op::addi(t, RegId::SSP, (self.rng.below(64) * 8) as u16))); } // local memory (zeros or earlier reads)
        else { let o = self.lay.blob_off + self.rng.below((self.lay.blob_len - len.min(self.lay.blob_len - 1)) as u64) as usize; addr(out, t, o); }
    }
    fn dst(&mut self, out: &mut Vec<Asm>, t: u8, len: usize) {
        if self.fault() { match self.rng.below(3) { 0 => out.push(Asm::I(op::move_(t, R_DATA))), 1 => out.push(Asm::I(op::subi(t, RegId::HP, 8))), _ => out.push(Asm::I(op::move_(t, RegId::ZERO))) } }
        else if self.rng.chance(1, 4) { out.push(Asm::I(op::addi(t, RegId::HP, self.rng.below(256u64.saturating_sub(len as u64).max(1)) as u16))); }
        else { out.push(Asm::I(op::addi(t, RegId::SSP, (self.rng.below(((1024 - len.min(1000)) / 8) as u64) * 8) as u16))); }
    }
    fn regs(&mut self) -> (u8, u8) {
        let d = self.rng.range(0x10, 0x2F) as u8;
        let mut s = self.rng.range(0x10, 0x2F) as u8;
        if s == d { s = 0x30; }
        if self.fault() { match self.rng.below(3) { 0 => return (d, 0x01), 1 => return (0x05, s), _ => return (d, d) } }
        (d, s)
    }
    fn dlen(&mut self) -> usize {
        if self.risky() { *self.rng.pick(&[65usize, 100, 128, 129, 200]) } else if self.rng.chance(1, 10) { *self.rng.pick(&[0usize, 1, 7, 8, 16, 31]) } else { *self.rng.pick(&[32usize, 32, 33, 40, 48, 64]) }
    }
    fn one(&mut self, out: &mut Vec<Asm>) {
        let (d, s) = self.regs();
        match self.rng.below(16) {
            0 | 1 => { self.quad_key(out, T[0], 1); let v = self.rng.u64_biased(); load64(out, T[1], v); out.push(Asm::I(op::sww(T[0], s, T[1]))); }
            2 | 3 => { self.quad_key(out, T[0], 1); let o = if self.risky() { self.rng.range(4, 63) as u8 } else { self.rng.below(4) as u8 }; out.push(Asm::I(op::srw(d, s, T[0], o))); }
            4 => { let n = self.range(); self.quad_key(out, T[0], n); self.src(out, T[1], 256); load64(out, T[2], n); out.push(Asm::I(op::swwq(T[0], s, T[1], T[2]))); }
            5 => { let n = self.range(); self.quad_key(out, T[0], n); self.dst(out, T[1], 256); load64(out, T[2], n); out.push(Asm::I(op::srwq(T[1], s, T[0], T[2]))); }
            6 => { let n = self.range(); self.quad_key(out, T[0], n); load64(out, T[2], n); out.push(Asm::I(op::scwq(T[0], s, T[2]))); }
            7 => { let n = self.range(); self.quad_key(out, T[0], n); load64(out, T[2], n); out.push(Asm::I(op::sclr(T[0], T[2]))); }
            8 => { self.dyn_key(out, T[0]); let l = if self.fault() { 1usize << 33 } else { self.dlen() }; self.src(out, T[1], l.min(256)); load64(out, T[2], l as u64); out.push(Asm::I(op::swrd(T[0], T[1], T[2]))); }
            9 => { self.dyn_key(out, T[0]); let l = self.dlen(); self.src(out, T[1], l); out.push(Asm::I(op::swri(T[0], T[1], l as u16))); }
            10 => { self.dyn_key(out, T[0]); let l = if self.risky() { *self.rng.pick(&[32usize, 33, 64]) } else { *self.rng.pick(&[0usize, 1, 8, 8, 16]) }; self.dst(out, T[1], l);
                    let o = if self.fault() { *self.rng.pick(&[u64::MAX, 1 << 32]) } else if self.risky() { *self.rng.pick(&[16u64, 31, 32, 40]) } else { *self.rng.pick(&[0u64, 0, 0, 1, 8]) };
                    load64(out, T[2], o); load64(out, T[3], l as u64); out.push(Asm::I(op::srdd(T[1], T[0], T[2], T[3]))); }
            11 => { self.dyn_key(out, T[0]); let l = if self.risky() { *self.rng.pick(&[32u8, 33, 63]) } else { *self.rng.pick(&[0u8, 1, 8, 8]) }; self.dst(out, T[1], l as usize);
                    let o = *self.rng.pick(&[0u64, 0, 0, 1, 8]); load64(out, T[2], o); out.push(Asm::I(op::srdi(T[1], T[0], T[2], l))); }
            12 => { self.dyn_key(out, T[0]); let l = self.dlen().min(64); self.src(out, T[1], l);
                    let o = if self.fault() { 1u64 << 33 } else { match self.rng.below(40) { 0..=12 => u64::MAX, 13..=36 => 0, 37 | 38 => 8, _ => *self.rng.pick(&[1u64, 31, 33, 64, 1000]) } };
                    let wl = if self.fault() { 1u64 << 32 } else { l as u64 };
                    load64(out, T[2], o); load64(out, T[3], wl); out.push(Asm::I(op::supd(T[0], T[1], T[2], T[3]))); }
            13 => { self.dyn_key(out, T[0]); let l = *self.rng.pick(&[0u8, 1, 8, 32, 63]); self.src(out, T[1], l as usize);
                    let o = match self.rng.below(12) { 0..=3 => u64::MAX, 4..=10 => 0, _ => 5 }; load64(out, T[2], o); out.push(Asm::I(op::supi(T[0], T[1], T[2], l))); }
            _ => { if self.rng.bool() { self.dyn_key(out, T[0]) } else { self.quad_key(out, T[0], 1) } let dd = if self.fault() { 0 } else { d }; out.push(Asm::I(op::spld(dd, T[0]))); }
        }
    }
}

fn prologue(out: &mut Vec<Asm>) {
    out.push(Asm::I(op::gtf(R_DATA, 0u8, GTFArgs::ScriptData as u16)));
    out.push(Asm::I(op::cfei(LOCAL)));
    out.push(Asm::I(op::movi(T[0], HEAPSZ)));
    out.push(Asm::I(op::aloc(T[0])));
}
fn call_item(out: &mut Vec<Asm>, lay: &Layout, j: usize) {
    addr(out, T[0], lay.call_off[j]);
    addr(out, T[2], lay.asset_off);
    out.push(Asm::I(op::call(T[0], RegId::ZERO, T[2], RegId::CGAS)));
}

struct Hist { world: World, txs: Vec<TxSpec>, note: String, clear_cache_run: bool }

fn hand_history(rng: &mut Rng, n_ops: usize) -> Hist {
    let base = AssetId::from(rng.bytes32());
    let schedule = match rng.below(6) { 0 => GasSchedule::Unit, 1 | 2 => GasSchedule::Random(rng.next()), _ => GasSchedule::Default };
    let mut world = World::new(schedule, 5, vec![base]);
    let max_len = *rng.pick(&[1u64 << 20, 1 << 20, 1 << 20, 1 << 20, 1 << 20, 128, 128, 128, 64, 64, 64, 16]);
    world.params.set_script_params(ScriptParameters::DEFAULT.with_max_storage_slot_length(max_len));
    let n_c = rng.range(1, 3) as usize;
    let ids: Vec<ContractId> = (0..n_c).map(|_| ContractId::from(rng.bytes32())).collect();
    // script data
    let mut data = vec![];
    let mut call_off = vec![];
    for c in &ids { call_off.push(data.len()); data.extend(Call::new(*c, 0, 0).to_bytes()); }
    let asset_off = data.len(); data.extend_from_slice(base.as_ref());
    let key_off = data.len();
    let mut k = rng.bytes32(); k[31] = 0x40;
    if rng.chance(1, 4) { k = [0u8; 32]; }                       // block 1 may start at key 0
    for i in 0..8u8 { let mut ki = k; ki[31] = k[31].wrapping_add(i); data.extend(ki); }
    for i in 0..4u8 { let mut ki = [0xFFu8; 32]; ki[31] = 0xFC + i; data.extend(ki); }   // 2^256-4 .. 2^256-1
    let n_keys = 12;
    let blob_off = data.len(); let blob_len = 512; data.extend(rng.bytes(blob_len));
    let lay = Layout { data, call_off, asset_off, key_off, n_keys, blob_off, blob_len };
    let fault_pm = *rng.pick(&[0u64, 0, 4, 12]);
    // contracts: contract i may call contract i+1 in the middle of its sequence
    for i in 0..n_c {
        let mut items = vec![]; prologue(&mut items);
        let mut g = OpGen { rng, lay: &lay, fault_pm, huge: true };
        let n1 = g.rng.below(n_ops as u64 + 1) as usize;
        for _ in 0..n1 { g.one(&mut items); }
        if i + 1 < n_c && g.rng.chance(2, 3) { call_item(&mut items, &lay, i + 1); }
        for _ in n1..n_ops { g.one(&mut items); }
        items.push(Asm::I(op::ret(RegId::ONE)));
        let words = assemble(&items).expect("assemble");
        let mut slots = vec![];
        for kk in 0..n_keys { if kk == 6 || kk == 7 || rng.chance(1, 3) {
            let mut key = [0u8; 32]; key.copy_from_slice(&lay.data[lay.key_off + 32 * kk..lay.key_off + 32 * kk + 32]);
            let len = if kk == 6 || kk == 7 { *rng.pick(&[32usize, 40, 64, 64]) } else { 32 }; slots.push((key, rng.bytes(len)));
        } }
        world.deploy(ContractDef { id: ids[i], code: words_to_bytes(&words), balances: vec![], slots });
    }
    // transactions: each script calls 1..4 contracts (repeats allowed), some storage ops in the script itself (refused)
    let n_tx = rng.range(2, 4) as usize;
    let mut txs = vec![];
    for t in 0..n_tx {
        let mut items = vec![]; prologue(&mut items);
        for _ in 0..rng.range(1, 4) { let j = rng.below(n_c as u64) as usize; call_item(&mut items, &lay, j); }
        if rng.chance(1, 12) { let mut g = OpGen { rng, lay: &lay, fault_pm: 0, huge: false }; g.one(&mut items); }   // refused: no contract is executing
        items.push(Asm::I(if rng.chance(1, 16) { op::rvrt(RegId::ONE) } else { op::ret(RegId::ONE) }));
        let words = assemble(&items).expect("assemble");
        let gas = if rng.chance(1, 10) { rng.range(2_000, 60_000) } else { 20_000_000 };
        let mut tx = TxSpec::new(words_to_bytes(&words), lay.data.clone(), gas);
        tx.key_seed = rng.next();
        tx.coins.push((base, 1000));
        tx.contract_inputs = ids.clone();
        let _ = t;
        txs.push(tx);
    }
    Hist { world, txs, note: format!("hand n_c={n_c} ops={n_ops} max_len={max_len} fault={fault_pm}"), clear_cache_run: true }
}

/// Directed edge cases (always run): one contract, one transaction, a fixed instruction sequence.
/// Keys: K = 0x40.. (quad block), D = K+6 (dynamic), M = 2^256-2.
fn edge_histories() -> Vec<Hist> {
    let base = AssetId::from([0x22; 32]);
    let id = ContractId::from([0x5A; 32]);
    let mut data = vec![];
    let call_off = data.len(); data.extend(Call::new(id, 0, 0).to_bytes());
    let asset_off = data.len(); data.extend_from_slice(base.as_ref());
    let key_off = data.len();
    let mut k = [0x33u8; 32]; k[31] = 0x40;
    for i in 0..8u8 { let mut ki = k; ki[31] = 0x40 + i; data.extend(ki); }
    for i in 0..4u8 { let mut ki = [0xFFu8; 32]; ki[31] = 0xFC + i; data.extend(ki); }
    let blob_off = data.len(); data.extend((0..=255u8).collect::<Vec<u8>>()); data.extend((0..=255u8).rev().collect::<Vec<u8>>());
    let lay = Layout { data, call_off: vec![call_off], asset_off, key_off, n_keys: 12, blob_off, blob_len: 512 };
    let key = |out: &mut Vec<Asm>, t: u8, i: usize| addr(out, t, lay.key_off + 32 * i);
    let blob = |out: &mut Vec<Asm>, t: u8, o: usize| addr(out, t, lay.blob_off + o);
    let local = |out: &mut Vec<Asm>, t: u8, o: u16| out.push(Asm::I(op::addi(t, RegId::SSP, o)));
    let (d, s) = (0x10u8, 0x11u8);
    type Prog = Vec<Asm>;
    let mut progs: Vec<(&str, u64, Prog)> = vec![];
    // absent slot + destination that is not writable: $err = 1, no panic
    { let mut p = vec![]; key(&mut p, T[0], 3); p.push(Asm::I(op::move_(T[1], R_DATA))); p.push(Asm::I(op::movi(T[2], 0))); p.push(Asm::I(op::movi(T[3], 8)));
      p.push(Asm::I(op::srdd(T[1], T[0], T[2], T[3]))); progs.push(("srdd-absent-unwritable-destination", 1 << 20, p)); }
    // present slot, slice out of bounds AND destination not writable: StorageOutOfBounds wins
    { let mut p = vec![]; key(&mut p, T[0], 6); blob(&mut p, T[1], 0); p.push(Asm::I(op::swri(T[0], T[1], 16)));
      p.push(Asm::I(op::move_(T[1], R_DATA))); p.push(Asm::I(op::movi(T[2], 10))); p.push(Asm::I(op::movi(T[3], 8))); p.push(Asm::I(op::srdd(T[1], T[0], T[2], T[3])));
      progs.push(("srdd-out-of-bounds-before-destination-check", 1 << 20, p)); }
    // SRWQ: slot of wrong length AND destination not writable: the memory check comes first
    { let mut p = vec![]; key(&mut p, T[0], 6); blob(&mut p, T[1], 0); p.push(Asm::I(op::swri(T[0], T[1], 40)));
      p.push(Asm::I(op::move_(T[1], R_DATA))); p.push(Asm::I(op::movi(T[2], 1))); p.push(Asm::I(op::srwq(T[1], s, T[0], T[2])));
      progs.push(("srwq-destination-check-before-length-check", 1 << 20, p)); }
    // SRWQ over a wrong-length slot with a good destination: StorageOutOfBounds
    { let mut p = vec![]; key(&mut p, T[0], 6); blob(&mut p, T[1], 0); p.push(Asm::I(op::swri(T[0], T[1], 31)));
      local(&mut p, T[1], 0); p.push(Asm::I(op::movi(T[2], 1))); p.push(Asm::I(op::srwq(T[1], s, T[0], T[2]))); progs.push(("srwq-wrong-length", 1 << 20, p)); }
    // ranges at the end of the key space: exactly fitting (2 slots from 2^256-2), then one too many
    { let mut p = vec![]; key(&mut p, T[0], 10); blob(&mut p, T[1], 0); p.push(Asm::I(op::movi(T[2], 2))); p.push(Asm::I(op::swwq(T[0], s, T[1], T[2])));
      local(&mut p, T[1], 64); p.push(Asm::I(op::srwq(T[1], s, T[0], T[2]))); p.push(Asm::I(op::scwq(T[0], s, T[2])));
      p.push(Asm::I(op::movi(T[2], 3))); p.push(Asm::I(op::scwq(T[0], s, T[2]))); progs.push(("range-ends-at-last-key-then-overflows-scwq", 1 << 20, p)); }
    { let mut p = vec![]; key(&mut p, T[0], 10); blob(&mut p, T[1], 0); p.push(Asm::I(op::movi(T[2], 3))); p.push(Asm::I(op::swwq(T[0], s, T[1], T[2])));
      progs.push(("swwq-overflow-after-partial-writes", 1 << 20, p)); }
    { let mut p = vec![]; key(&mut p, T[0], 11); p.push(Asm::I(op::movi(T[2], 1))); p.push(Asm::I(op::sclr(T[0], T[2]))); p.push(Asm::I(op::movi(T[2], 2))); p.push(Asm::I(op::sclr(T[0], T[2])));
      progs.push(("sclr-last-key-then-overflow", 1 << 20, p)); }
    { let mut p = vec![]; key(&mut p, T[0], 10); local(&mut p, T[1], 0); p.push(Asm::I(op::movi(T[2], 3))); p.push(Asm::I(op::srwq(T[1], s, T[0], T[2]))); progs.push(("srwq-overflow", 1 << 20, p)); }
    // slot counts / lengths / offsets that do not fit 32 bits
    { let mut p = vec![]; key(&mut p, T[0], 0); load64(&mut p, T[2], 1 << 32); p.push(Asm::I(op::sclr(T[0], T[2]))); progs.push(("sclr-count-2^32", 1 << 20, p)); }
    { let mut p = vec![]; key(&mut p, T[0], 6); blob(&mut p, T[1], 0); load64(&mut p, T[2], 1 << 32); p.push(Asm::I(op::swrd(T[0], T[1], T[2]))); progs.push(("swrd-length-2^32", 1 << 20, p)); }
    { let mut p = vec![]; key(&mut p, T[0], 6); local(&mut p, T[1], 0); load64(&mut p, T[2], 1 << 32); p.push(Asm::I(op::movi(T[3], 0))); p.push(Asm::I(op::srdd(T[1], T[0], T[2], T[3]))); progs.push(("srdd-offset-2^32", 1 << 20, p)); }
    // append on an absent slot, append again, update in the middle, update leaving a gap
    { let mut p = vec![]; key(&mut p, T[0], 7); blob(&mut p, T[1], 0); p.push(Asm::I(op::not(T[2], RegId::ZERO)));
      p.push(Asm::I(op::supi(T[0], T[1], T[2], 5))); blob(&mut p, T[1], 100); p.push(Asm::I(op::supi(T[0], T[1], T[2], 7)));
      p.push(Asm::I(op::movi(T[2], 3))); p.push(Asm::I(op::supi(T[0], T[1], T[2], 4))); p.push(Asm::I(op::spld(d, T[0])));
      p.push(Asm::I(op::movi(T[2], 13))); p.push(Asm::I(op::supi(T[0], T[1], T[2], 1))); progs.push(("supi-append-update-gap", 1 << 20, p)); }
    // empty value: written, present with length 0, read of 0 bytes, word read out of bounds
    { let mut p = vec![]; key(&mut p, T[0], 2); blob(&mut p, T[1], 0); p.push(Asm::I(op::swri(T[0], T[1], 0))); p.push(Asm::I(op::spld(d, T[0])));
      local(&mut p, T[1], 0); p.push(Asm::I(op::movi(T[2], 0))); p.push(Asm::I(op::srdi(T[1], T[0], T[2], 0))); p.push(Asm::I(op::srw(d, s, T[0], 0))); progs.push(("empty-value", 1 << 20, p)); }
    // register faults: SWW writes the slot, then fails on the reserved flag register; SRW with a = b; SPLD into $zero
    { let mut p = vec![]; key(&mut p, T[0], 1); p.push(Asm::I(op::sww(T[0], 0x01, RegId::ONE))); progs.push(("sww-reserved-flag-register", 1 << 20, p)); }
    { let mut p = vec![]; key(&mut p, T[0], 1); p.push(Asm::I(op::srw(d, d, T[0], 0))); progs.push(("srw-same-register", 1 << 20, p)); }
    { let mut p = vec![]; key(&mut p, T[0], 1); p.push(Asm::I(op::spld(RegId::ZERO, T[0]))); p.push(Asm::I(op::sww(T[0], s, RegId::ONE))); p.push(Asm::I(op::spld(RegId::ZERO, T[0]))); progs.push(("spld-into-zero", 1 << 20, p)); }
    // slot-length limit below 32: legacy word / quad writes are refused
    { let mut p = vec![]; key(&mut p, T[0], 1); p.push(Asm::I(op::sww(T[0], s, RegId::ONE))); progs.push(("sww-with-limit-16", 16, p)); }
    { let mut p = vec![]; key(&mut p, T[0], 1); blob(&mut p, T[1], 0); p.push(Asm::I(op::movi(T[2], 1))); p.push(Asm::I(op::swwq(T[0], s, T[1], T[2]))); progs.push(("swwq-with-limit-16", 16, p)); }
    // limit 64: a 64-byte value fits, 65 does not; an update growing beyond the limit is refused
    { let mut p = vec![]; key(&mut p, T[0], 6); blob(&mut p, T[1], 0); p.push(Asm::I(op::swri(T[0], T[1], 64))); p.push(Asm::I(op::not(T[2], RegId::ZERO))); p.push(Asm::I(op::supi(T[0], T[1], T[2], 1)));
      progs.push(("limit-64-append-refused", 64, p)); }
    { let mut p = vec![]; key(&mut p, T[0], 6); blob(&mut p, T[1], 0); p.push(Asm::I(op::swri(T[0], T[1], 65))); progs.push(("limit-64-write-65", 64, p)); }
    let mut out = vec![];
    for (name, max_len, body) in progs {
        let mut world = World::new(GasSchedule::Default, 5, vec![base]);
        world.params.set_script_params(ScriptParameters::DEFAULT.with_max_storage_slot_length(max_len));
        let mut items = vec![]; prologue(&mut items); items.extend(body); items.push(Asm::I(op::ret(RegId::ONE)));
        let words = assemble(&items).expect("assemble");
        let mut k3 = [0x33u8; 32]; k3[31] = 0x40;   // key 0 present (32 bytes)
        world.deploy(ContractDef { id, code: words_to_bytes(&words), balances: vec![], slots: vec![(k3, vec![7u8; 32])] });
        let mut sitems = vec![]; prologue(&mut sitems); call_item(&mut sitems, &lay, 0); sitems.push(Asm::I(op::ret(RegId::ONE)));
        let mut tx = TxSpec::new(words_to_bytes(&assemble(&sitems).expect("assemble")), lay.data.clone(), 20_000_000);
        tx.coins.push((base, 1000)); tx.contract_inputs = vec![id];
        out.push(Hist { world, txs: vec![tx.clone(), tx], note: format!("hand edge {name}"), clear_cache_run: true });
    }
    out
}

fn generated_history(rng: &mut Rng) -> Hist {
    let mut cfg = GenCfg::default();
    cfg.n_contracts = rng.range(1, 3) as usize;
    cfg.unit_items = rng.range(10, 30) as usize;
    cfg.features = F_STORAGE | F_CALL | F_ALU | F_MEM | F_FLOW;
    cfg.fault_per_mille = *rng.pick(&[0u64, 3, 10]);
    cfg.schedule = match rng.below(4) { 0 => GasSchedule::Unit, 1 => GasSchedule::Random(rng.next()), _ => GasSchedule::Default };
    cfg.gas_limit = 5_000_000;
    let scn = gen_scenario(rng, &cfg);
    let tx = scn.tx.clone();
    Hist { world: scn.world, txs: vec![tx.clone(), tx], note: "generated".into(), clear_cache_run: true }
}

// ------------------------------------------------------------------------------------------------
// running a history
// ------------------------------------------------------------------------------------------------
struct TxRun { run: ProbeRun<Peek, After>, commit: bool, max_len: u64, costs: BTreeMap<String, CostVal>, inputs: Vec<ContractId> }

/// the same world with storage_read_hot := storage_read_cold, so that emptying the cache cannot change the gas
fn equal_read_costs(w: &World) -> World {
    use fuel_tx::{GasCosts, GasCostsValues};
    let v: GasCostsValues = w.params.gas_costs().clone().into();
    let mut j = serde_json::to_value(&v).expect("gas costs to json");
    if let Some(inner) = j.as_object_mut().and_then(|m| m.values_mut().next()).and_then(|x| x.as_object_mut()) {
        if let Some(c) = inner.get("storage_read_cold").cloned() { inner.insert("storage_read_hot".into(), c); }
    }
    let v: GasCostsValues = serde_json::from_value(j).expect("gas costs from json");
    let mut w2 = w.clone();
    w2.params.set_gas_costs(GasCosts::new(v));
    w2
}

fn run_history(h: &Hist, clear_cache: bool) -> Result<Vec<TxRun>, String> {
    let mut storage = h.world.storage.clone();
    let mut out = vec![];
    for tx in &h.txs {
        let ready = tx.build(&h.world)?;
        let before = storage.clone();
        let r = probe_run(&h.world, storage, ready, 30_000,
            |vm, pre| {
                let mut p = peek(vm, pre);
                if clear_cache {
                    // O3: the reference run empties the slot cache before every instruction
                    vm.bench_storage_slot_cache_mut().clear();
                    p.cache_cleared = true;
                }
                p
            },
            after);
        let commit = r.succeeded() && !r.truncated;
        storage = if commit { r.storage.clone() } else { before };
        out.push(TxRun { run: r, commit, max_len: h.world.params.script_params().max_storage_slot_length(), costs: h.world.costs(), inputs: tx.contract_inputs.clone() });
    }
    Ok(out)
}

fn dump_state(st: &MemoryStorage) -> BTreeMap<(ContractId, Bytes32), Vec<u8>> {
    st.all_contract_state().map(|(k, v)| ((*k.contract_id(), *k.state_key()), v.as_ref().to_vec())).collect()
}

// ------------------------------------------------------------------------------------------------
// Coq printing
// ------------------------------------------------------------------------------------------------
fn coq_memres(l: &mut Lits, r: &Result<Vec<u8>, PanicReason>) -> String {
    match r { Ok(b) => format!("(MOk {})", l.b(b)), Err(e) => format!("(MFault {})", kvprobe::reason_byte(*e)) }
}
fn coq_pk(l: &mut Lits, c: &[u8], k: &[u8]) -> String { format!("({}, {})", l.k(c), l.k(k)) }
fn coq_event(l: &mut Lits, e: &StorageEvent) -> String {
    if e.table != "ContractsState" || e.key.len() != 64 { return "OOther".into(); }
    let (c, k) = (&e.key[..32], &e.key[32..]);
    match (&e.op, e.method) {
        (StorageOp::Read, "read_alloc") => { let v = e.value.as_ref().map(|v| l.b(v)); format!("(OEv (ERead {} {} {}))", l.k(c), l.k(k), coq_opt(v)) }
        (StorageOp::Write, "write_bytes") => { let v = l.b(e.value.as_deref().unwrap_or(&[])); format!("(OEv (EWrite {} {} {}))", l.k(c), l.k(k), v) }
        (StorageOp::RemoveRange, _) => format!("(OEv (ERemoveRange {} {} {}))", l.k(c), l.k(k), cn(e.extra)),
        _ => "OOther".into(),
    }
}
fn coq_cost(c: Option<&CostVal>) -> String { c.map(|c| c.to_coq()).unwrap_or_else(|| "(CFixed 0)".into()) }
fn fixed(c: Option<&CostVal>) -> u64 { match c { Some(CostVal::Fixed(x)) => *x, _ => 0 } }

fn coq_step(l: &mut Lits, pre: &Pre, p: &Peek, post: &Post, a: &After) -> String {
    let f = pre.fields(); let v = pre.field_values();
    let (oc, reason) = outcome_code(&post.outcome);
    let rd: Vec<String> = p.rd.iter().map(|(a, n, r)| format!("({}, {}, {})", cn(*a), cn(*n), coq_memres(l, r))).collect();
    let wr: Vec<String> = p.wr.iter().map(|(a, n, r)| format!("({}, {}, {})", cn(*a), cn(*n), coq_opt(r.map(|x| kvprobe::reason_byte(x).to_string())))).collect();
    let mem = match (&p.mem_before, &a.mem_after) { (Some(b), Some(x)) => format!("(Some ({}, {}))", l.b(b), l.b(x)), _ => "None".into() };
    let ev: Vec<String> = post.storage.iter().map(|e| coq_event(l, e)).collect();
    let ctx = ctx_id(&pre.ctx).map(|c| l.k(c.as_ref()));
    format!("{{| ks_op := {}; ks_f := ({}, {}, {}, {}); ks_v := ({}, {}, {}, {}); ks_ctx := {}; ks_rd := {}; ks_wr := {}; ks_outcome := {}; ks_reason := {}; ks_ab' := ({}, {}); ks_err' := {}; ks_pc := ({}, {}); ks_dst := ({}, {}); ks_mem := {}; ks_events := {}; ks_gas := {} |}}",
        pre.opcode, f[0], f[1], f[2], f[3], cn(v[0]), cn(v[1]), cn(v[2]), cn(v[3]),
        coq_opt(ctx), coq_list(&rd), coq_list(&wr), oc, reason,
        cn(post.regs[f[0] as usize]), cn(post.regs[f[1] as usize]), cn(post.regs[8]), cn(pre.pc), cn(post.regs[3]), cn(p.dst.0), cn(p.dst.1), mem, coq_list(&ev), cn(post.gas_charged(pre)))
}

fn coq_history(h: &Hist, runs: &[TxRun]) -> String {
    let mut l = Lits::new();
    let init_dump = dump_state(&h.world.storage);
    let init: Vec<String> = init_dump.iter().map(|((c, k), v)| format!("({}, {})", coq_pk(&mut l, c.as_ref(), k.as_ref()), l.b(v))).collect();
    let mut txs = vec![];
    let mut prev = init_dump;
    for t in runs {
        let steps: Vec<String> = t.run.steps.iter().filter(|(_, p, _, _)| p.is_storage).map(|(pre, p, post, a)| coq_step(&mut l, pre, p, post, a)).collect();
        // storage after the run as a difference to the storage the run started from
        let now = dump_state(&t.run.storage);
        let mut diff = vec![];
        for (key, v) in &now { if prev.get(key) != Some(v) { diff.push(format!("({}, (Some {}))", coq_pk(&mut l, key.0.as_ref(), key.1.as_ref()), l.b(v))); } }
        for key in prev.keys() { if !now.contains_key(key) { diff.push(format!("({}, None)", coq_pk(&mut l, key.0.as_ref(), key.1.as_ref()))); } }
        let cache: Vec<String> = t.run.cache.iter().map(|((c, k), v)| { let vv = v.as_ref().map(|x| l.b(x)); format!("({}, {})", coq_pk(&mut l, c.as_ref(), k), coq_opt(vv)) }).collect();
        let c = &t.costs;
        let costs = format!("{{| kc_noop := {}; kc_hot := {}; kc_cold := {}; kc_write := {}; kc_clear := {}; kc_new_byte := {} |}}",
            fixed(c.get("noop")), coq_cost(c.get("storage_read_hot")), coq_cost(c.get("storage_read_cold")), coq_cost(c.get("storage_write")), coq_cost(c.get("storage_clear")), fixed(c.get("new_storage_per_byte")));
        txs.push(format!("{{| kt_max_len := {}; kt_costs := {}; kt_steps := {}; kt_commit := {}; kt_store_diff := {}; kt_cache_after := {} |}}",
            t.max_len, costs, coq_list(&steps), coq_bool(t.commit), coq_list(&diff), coq_list(&cache)));
        if t.commit { prev = now; }
    }
    l.wrap(&format!("{{| kh_init := {}; kh_txs := {} |}}", coq_list(&init), coq_list(&txs)))
}

// ------------------------------------------------------------------------------------------------
// O1: plain HashMap reference
// ------------------------------------------------------------------------------------------------
type Map = HashMap<(ContractId, [u8; 32]), Vec<u8>>;
fn key_add(k: &[u8; 32], i: u64) -> Option<[u8; 32]> {
    let mut out = *k; let mut carry = i as u128;
    for j in (0..32).rev() { let s = out[j] as u128 + (carry & 0xff); out[j] = s as u8; carry = (carry >> 8) + (s >> 8); if carry == 0 && j < 24 { break; } }
    if carry != 0 { None } else { Some(out) }
}
#[derive(Debug, PartialEq)]
enum Exp { Panic(PanicReason), Ok { regs: Vec<(u8, u64)>, err: Option<u64>, data: Option<Vec<u8>> }, Skip }

/// Expected observable result of a storage instruction on the plain map, from the property text.
/// `Skip`: a fault of another subsystem (memory, register, gas) decides the outcome.
fn reference(m: &mut Map, pre: &Pre, p: &Peek, max_len: u64) -> Exp {
    let f = pre.fields(); let v = pre.field_values();
    let rd = |a: u64, l: u64| p.rd.iter().find(|x| x.0 == a && x.1 == l).and_then(|x| x.2.clone().ok());
    let wr_ok = |a: u64, l: u64| p.wr.iter().find(|x| x.0 == a && x.1 == l).map(|x| x.2.is_none()).unwrap_or(false);
    let writable = |r: u8| r >= 16;
    let key_ptr = match pre.mnemonic.as_str() { "SRW" => v[2], "SPLD" | "SRDD" | "SRDI" => v[1], "SRWQ" => v[2], _ => v[0] };
    let Some(kb) = rd(key_ptr, 32) else { return Exp::Skip };
    let mut key = [0u8; 32]; key.copy_from_slice(&kb);
    let big = |x: u64| x > u32::MAX as u64;
    // slot counts beyond u32 are refused first (TooManySlots), before the context is examined
    match pre.mnemonic.as_str() {
        "SCWQ" if big(v[2]) => return Exp::Panic(PanicReason::TooManySlots),
        "SCLR" if big(v[1]) => return Exp::Panic(PanicReason::TooManySlots),
        "SRWQ" | "SWWQ" if big(v[3]) => return Exp::Panic(PanicReason::TooManySlots),
        _ => {}
    }
    let Some(c) = ctx_id(&pre.ctx) else { return Exp::Panic(PanicReason::ExpectedInternalContext) };
    let get = |m: &Map, k: &[u8; 32]| m.get(&(c, *k)).cloned();
    match pre.mnemonic.as_str() {
        "SRW" => {
            if f[0] == f[1] { return Exp::Skip }
            match get(m, &key) {
                None => if writable(f[0]) && writable(f[1]) { Exp::Ok { regs: vec![(f[0], 0), (f[1], 0)], err: None, data: None } } else { Exp::Skip },
                Some(val) => { let o = 8 * f[3] as usize; if val.len() < o + 8 { return Exp::Panic(PanicReason::StorageOutOfBounds) }
                    if !(writable(f[0]) && writable(f[1])) { return Exp::Skip }
                    Exp::Ok { regs: vec![(f[0], u64::from_be_bytes(val[o..o + 8].try_into().unwrap())), (f[1], 1)], err: None, data: None } }
            }
        }
        "SWW" => {
            if max_len < 32 { return Exp::Panic(PanicReason::StorageOutOfBounds) }
            let was = get(m, &key).is_some();
            let mut val = vec![0u8; 32]; val[..8].copy_from_slice(&v[2].to_be_bytes());
            m.insert((c, key), val);
            if !writable(f[1]) { return Exp::Skip }
            Exp::Ok { regs: vec![(f[1], (!was) as u64)], err: None, data: None }
        }
        "SRWQ" => {
            let n = v[3]; if n > CHUNK_CAP { return Exp::Skip }
            let mut all = true; let mut data = vec![];
            for i in 0..n {
                let Some(ki) = key_add(&key, i) else { return Exp::Panic(PanicReason::TooManySlots) };
                if !wr_ok(sat_chunk(v[0], i), 32) { return Exp::Skip }
                match get(m, &ki) { Some(val) => { if val.len() != 32 { return Exp::Panic(PanicReason::StorageOutOfBounds) } data.extend(val) } None => { all = false; data.extend([0u8; 32]) } }
            }
            if !writable(f[1]) { return Exp::Skip }
            Exp::Ok { regs: vec![(f[1], all as u64)], err: None, data: Some(data) }
        }
        "SWWQ" => {
            let n = v[3]; if n > CHUNK_CAP { return Exp::Skip }
            let mut unset = 0;
            for i in 0..n {
                let Some(ki) = key_add(&key, i) else { return Exp::Panic(PanicReason::TooManySlots) };
                let Some(val) = rd(sat_chunk(v[2], i), 32) else { return Exp::Skip };
                if max_len < 32 { return Exp::Panic(PanicReason::StorageOutOfBounds) }
                if get(m, &ki).is_none() { unset += 1; }
                m.insert((c, ki), val);
            }
            if !writable(f[1]) { return Exp::Skip }
            Exp::Ok { regs: vec![(f[1], unset)], err: None, data: None }
        }
        "SCWQ" | "SCLR" => {
            let n = if pre.mnemonic == "SCWQ" { v[2] } else { v[1] };
            if n > 4096 { return Exp::Skip }
            let mut all = true; let mut keys = vec![];
            for i in 0..n { let Some(ki) = key_add(&key, i) else { return Exp::Panic(PanicReason::TooManySlots) }; if get(m, &ki).is_none() { all = false; } keys.push(ki); }
            if pre.mnemonic == "SCWQ" && !writable(f[1]) { return Exp::Skip }
            for ki in keys { m.remove(&(c, ki)); }
            if pre.mnemonic == "SCWQ" { Exp::Ok { regs: vec![(f[1], all as u64)], err: None, data: None } } else { Exp::Ok { regs: vec![], err: None, data: None } }
        }
        "SRDD" | "SRDI" => {
            let (off, len) = (v[2], if pre.mnemonic == "SRDD" { v[3] } else { f[3] as u64 });
            if big(off) || big(len) { return Exp::Panic(PanicReason::MemoryOverflow) }
            match get(m, &key) {
                None => Exp::Ok { regs: vec![], err: Some(1), data: None },
                Some(val) => { if off.checked_add(len).map(|e| e > val.len() as u64).unwrap_or(true) { return Exp::Panic(PanicReason::StorageOutOfBounds) }
                    if !wr_ok(v[0], len) { return Exp::Skip }
                    Exp::Ok { regs: vec![], err: Some(0), data: Some(val[off as usize..(off + len) as usize].to_vec()) } }
            }
        }
        "SWRD" | "SWRI" => {
            let len = if pre.mnemonic == "SWRD" { v[2] } else { ((f[2] as u64) << 6) | f[3] as u64 };
            if big(len) { return Exp::Panic(PanicReason::MemoryOverflow) }
            let Some(val) = rd(v[1], len) else { return Exp::Skip };
            if len > max_len { return Exp::Panic(PanicReason::StorageOutOfBounds) }
            m.insert((c, key), val);
            Exp::Ok { regs: vec![], err: None, data: None }
        }
        "SUPD" | "SUPI" => {
            let len = if pre.mnemonic == "SUPD" { v[3] } else { f[3] as u64 };
            let mut val = get(m, &key).unwrap_or_default();
            if v[2] != u64::MAX && big(v[2]) { return Exp::Panic(PanicReason::MemoryOverflow) }
            let off = if v[2] == u64::MAX { val.len() as u64 } else { v[2] };
            if off > val.len() as u64 { return Exp::Panic(PanicReason::StorageOutOfBounds) }
            if big(len) { return Exp::Panic(PanicReason::MemoryOverflow) }
            if off.saturating_add(len) > max_len { return Exp::Panic(PanicReason::StorageOutOfBounds) }
            let Some(data) = rd(v[1], len) else { return Exp::Skip };
            let end = (off + len) as usize;
            if end > val.len() { val.resize(end, 0); }
            val[off as usize..end].copy_from_slice(&data);
            if val.len() as u64 > max_len { return Exp::Panic(PanicReason::StorageOutOfBounds) }
            m.insert((c, key), val);
            Exp::Ok { regs: vec![], err: None, data: None }
        }
        "SPLD" => {
            let (len, err) = match get(m, &key) { Some(val) => (val.len() as u64, 0), None => (0, 1) };
            if f[0] != 0 && !writable(f[0]) { return Exp::Skip }
            Exp::Ok { regs: if f[0] == 0 { vec![] } else { vec![(f[0], len)] }, err: Some(err), data: None }
        }
        _ => Exp::Skip,
    }
}

fn oracle(out: &mut Out, h: &Hist, runs: &[TxRun], replay: &Value) {
    let mut m: Map = dump_state(&h.world.storage).into_iter().map(|((c, k), v)| ((c, *k), v)).collect();
    for (ti, t) in runs.iter().enumerate() {
        let before = m.clone();
        let mut exact = true;
        for (pre, p, post, a) in &t.run.steps {
            out.oracle_evaluations += 1;
            if !a.incoherent.is_empty() {
                out.oracle_fail("slot-cache-entry-differs-from-storage", &format!("tx {ti} step {} {}: cache incoherent at {:?}", pre.index, pre.mnemonic, a.incoherent), replay.clone());
            }
            if !p.is_storage {
                if post.storage.iter().any(|e| e.table == "ContractsState") {
                    out.oracle_fail("contract-state-access-outside-storage-instruction", &format!("tx {ti} step {} {} touched ContractsState", pre.index, pre.mnemonic), replay.clone());
                }
                continue;
            }
            if !exact { continue; }
            let exp = reference(&mut m, pre, p, t.max_len);
            out.count(if exp == Exp::Skip { "oracle-reference-left-to-other-subsystem" } else { "oracle-reference-decided" });
            let observed_panic = post.outcome.panic_reason();
            if observed_panic == Some(PanicReason::OutOfGas) { exact = false; continue; }
            match exp {
                Exp::Skip => { if observed_panic.is_none() { out.count("oracle-skip-but-proceeded"); } exact = false; }
                Exp::Panic(r) => {
                    if observed_panic != Some(r) {
                        out.oracle_fail("storage-instruction-panic-differs-from-key-value-reference", &format!("tx {ti} step {} {}: expected panic {r:?}, observed {:?}", pre.index, pre.mnemonic, post.outcome), replay.clone());
                    }
                    exact = false;
                }
                Exp::Ok { regs, err, data } => {
                    if observed_panic.is_some() || !matches!(post.outcome, Outcome::Proceed) {
                        out.oracle_fail("storage-instruction-failed-where-key-value-reference-succeeds", &format!("tx {ti} step {} {}: observed {:?}", pre.index, pre.mnemonic, post.outcome), replay.clone());
                        exact = false; continue;
                    }
                    for (r, val) in regs { if post.regs[r as usize] != val {
                        out.oracle_fail("storage-read-result-differs-from-key-value-reference", &format!("tx {ti} step {} {}: register {r} = {} expected {val}", pre.index, pre.mnemonic, post.regs[r as usize]), replay.clone()); } }
                    if let Some(e) = err { if post.regs[8] != e {
                        out.oracle_fail("storage-read-result-differs-from-key-value-reference", &format!("tx {ti} step {} {}: $err = {} expected {e}", pre.index, pre.mnemonic, post.regs[8]), replay.clone()); } }
                    if let Some(d) = data { if a.mem_after.as_ref() != Some(&d) && !(d.is_empty()) {
                        out.oracle_fail("storage-read-result-differs-from-key-value-reference", &format!("tx {ti} step {} {}: bytes read differ", pre.index, pre.mnemonic), replay.clone()); } }
                }
            }
        }
        // persistent storage after the transaction = the reference map (when every step was decided by the reference)
        if exact {
            let real: Map = dump_state(&t.run.storage).into_iter().map(|((c, k), v)| ((c, *k), v)).collect();
            if real != m {
                out.oracle_fail("persistent-storage-differs-from-key-value-reference", &format!("tx {ti}: storage after the transaction differs from the reference map"), replay.clone());
            }
        }
        if !t.commit { m = before; } else if !exact { m = dump_state(&t.run.storage).into_iter().map(|((c, k), v)| ((c, *k), v)).collect(); }
    }
}

/// O3: cache on vs cache emptied before every instruction
fn oracle_cache(out: &mut Out, h: &Hist, a: &[TxRun], b: &[TxRun], replay: &Value) {
    for (ti, (x, y)) in a.iter().zip(b.iter()).enumerate() {
        out.oracle_evaluations += 1;
        let oog = |t: &TxRun| t.run.panic_reason() == Some(PanicReason::OutOfGas);
        if oog(x) || oog(y) { out.count("cache-comparison-skipped-out-of-gas"); return; }   // later transactions run on different worlds
        let sx: Vec<_> = x.run.steps.iter().filter(|s| s.1.is_storage).collect();
        let sy: Vec<_> = y.run.steps.iter().filter(|s| s.1.is_storage).collect();
        let mut why = vec![];
        if sx.len() != sy.len() { why.push(format!("{} vs {} storage steps", sx.len(), sy.len())); }
        if x.commit != y.commit { why.push("commit differs".to_string()); }
        if dump_state(&x.run.storage) != dump_state(&y.run.storage) {
            let (a, b) = (dump_state(&x.run.storage), dump_state(&y.run.storage));
            let mut dd = vec![];
            for (k, v) in &a { if b.get(k) != Some(v) { dd.push(format!("key ..{}: {} vs {:?}", hex::encode(&k.1[28..]), hex::encode(v), b.get(k).map(hex::encode))); } }
            for (k, v) in &b { if !a.contains_key(k) { dd.push(format!("key ..{}: absent vs {}", hex::encode(&k.1[28..]), hex::encode(v))); } }
            dd.truncate(3);
            why.push(format!("storage after differs: {dd:?}"));
        }
        for (p, q) in sx.iter().zip(sy.iter()) {
            let f = p.0.fields();
            if p.2.gas_charged(&p.0) != q.2.gas_charged(&q.0) && p.2.outcome == q.2.outcome && p.2.outcome == Outcome::Proceed { why.push(format!("step {} {}: gas differs although hot = cold", p.0.index, p.0.mnemonic)); }
            if p.2.outcome != q.2.outcome { why.push(format!("step {} {}: outcome {:?} vs {:?}", p.0.index, p.0.mnemonic, p.2.outcome, q.2.outcome)); }
            if p.2.regs[f[0] as usize] != q.2.regs[f[0] as usize] || p.2.regs[f[1] as usize] != q.2.regs[f[1] as usize] || p.2.regs[8] != q.2.regs[8] { why.push(format!("step {} {}: result registers differ", p.0.index, p.0.mnemonic)); }
            if p.3.mem_after != q.3.mem_after { why.push(format!("step {} {}: bytes read differ", p.0.index, p.0.mnemonic)); }
        }
        if !why.is_empty() { why.truncate(4); out.oracle_fail("slot-cache-changes-a-result", &format!("tx {ti}: results with the slot cache differ from results with the cache emptied before every instruction: {why:?}"), replay.clone()); }
        let _ = h;
    }
}

fn hist_json(h: &Hist) -> Value {
    json!({"note": h.note, "world": Scenario { world: h.world.clone(), tx: h.txs[0].clone(), layout: DataLayout::new(&mut Rng::new(0), &[], &[], 0), units: vec![], seed_note: String::new() }.to_json(),
           "max_len": h.world.params.script_params().max_storage_slot_length(),
           "txs": h.txs.iter().map(|t| json!({"script": hex::encode(&t.script), "gas": t.gas_limit, "key_seed": t.key_seed})).collect::<Vec<_>>()})
}
fn hist_from_json(v: &Value) -> Result<Hist, String> {
    let scn = Scenario::from_json(&v["world"])?;
    let mut world = scn.world;
    world.params.set_script_params(ScriptParameters::DEFAULT.with_max_storage_slot_length(v["max_len"].as_u64().unwrap_or(1 << 20)));
    let mut txs = vec![];
    for t in v["txs"].as_array().cloned().unwrap_or_default() {
        let mut tx = scn.tx.clone();
        tx.script = hex::decode(t["script"].as_str().unwrap_or("")).map_err(|e| e.to_string())?;
        tx.gas_limit = t["gas"].as_u64().unwrap_or(0);
        tx.key_seed = t["key_seed"].as_u64().unwrap_or(1);
        txs.push(tx);
    }
    Ok(Hist { world, txs, note: v["note"].as_str().unwrap_or("").into(), clear_cache_run: true })
}

fn process(out: &mut Out, _args: &Args, h: &Hist, idx: usize) {
    let replay = json!({"kind": "kv-history", "history": hist_json(h)});
    let runs = match guarded(|| run_history(h, false)) {
        Ok(Ok(r)) => r,
        Ok(Err(e)) => { out.count("build-error"); if out.notes.len() < 3 { out.notes.push(format!("history {idx}: {e}")); } return; }
        Err(p) => { out.oracle_fail("host-panic-in-storage-history", &format!("history {idx}: host panic {p}"), replay); return; }
    };
    oracle(out, h, &runs, &replay);
    // first transaction also through vmtrace::trace (same world): the two steppers must agree
    if let Some(tx0) = h.txs.first() {
        match guarded(|| trace(&h.world, tx0, &TraceOpts { max_steps: 30_000, mem_diff: false, storage: true, frames: false })) {
            Ok(Ok(t)) => { let d = cross_check(&t, &runs[0].run); if !d.is_empty() { out.count("probe-differs-from-vmtrace"); if out.notes.len() < 5 { out.notes.push(format!("history {idx}: probe vs vmtrace::trace: {d:?}")); } } else { out.count("probe-agrees-with-vmtrace"); } }
            _ => out.count("vmtrace-trace-failed"),
        }
    }
    if h.clear_cache_run {
        // O3 on a copy of the world where a hot read costs what a cold read costs: programs can observe gas
        // (saved $cgas/$ggas in call frames, register reads), so the comparison needs equal gas in both runs
        let h2 = Hist { world: equal_read_costs(&h.world), txs: h.txs.clone(), note: h.note.clone(), clear_cache_run: true };
        match guarded(|| (run_history(&h2, false), run_history(&h2, true))) {
            Ok((Ok(r1), Ok(r2))) => oracle_cache(out, &h2, &r1, &r2, &replay),
            Ok(_) => {}
            Err(p) => out.oracle_fail("host-panic-in-storage-history", &format!("history {idx} (cache emptied): host panic {p}"), replay.clone()),
        }
    }
    let mut n_steps = 0usize; let mut ops: BTreeMap<String, u64> = BTreeMap::new(); let mut panics: BTreeMap<String, u64> = BTreeMap::new();
    let (mut hot, mut writes) = (0u64, 0u64);
    for t in &runs { for (pre, p, post, _) in &t.run.steps { if p.is_storage {
        n_steps += 1; *ops.entry(pre.mnemonic.clone()).or_insert(0) += 1;
        if let Some(r) = post.outcome.panic_reason() { *panics.entry(format!("{r:?}@{}", pre.mnemonic)).or_insert(0) += 1; }
        if post.storage.iter().all(|e| e.op != StorageOp::Read) { hot += 1; }
        writes += post.storage.iter().filter(|e| e.op != StorageOp::Read).count() as u64;
    } } }
    for (k, v) in &ops { *out.dist.entry(format!("op:{k}")).or_insert(0) += v; }
    for (k, v) in &panics { *out.dist.entry(format!("panic:{k}")).or_insert(0) += v; }
    *out.dist.entry("storage-steps".into()).or_insert(0) += n_steps as u64;
    *out.dist.entry("steps-without-backing-read".into()).or_insert(0) += hot;
    *out.dist.entry("persistent-writes".into()).or_insert(0) += writes;
    *out.dist.entry("transactions".into()).or_insert(0) += runs.len() as u64;
    *out.dist.entry("transactions-committed".into()).or_insert(0) += runs.iter().filter(|t| t.commit).count() as u64;
    let coq = coq_history(h, &runs);
    let key = format!("{:x}", { use sha2::Digest; sha2::Sha256::digest(coq.as_bytes()) });
    out.push(Case { coq, json: json!({"note": h.note, "transactions": runs.len(), "storage_steps": n_steps, "ops": ops, "panics": panics}),
                    key, nontrivial: (n_steps >= 5 && writes >= 1 && ops.len() >= 3) || h.note.starts_with("hand edge"),
                    class: if h.note.starts_with("hand edge") { "edge".into() } else if h.note.starts_with("hand") { "hand-built".into() } else { "generated".into() } });
}

fn main() {
    quiet_panics();
    let args = Args::parse();
    if args.prop != "C33" { eprintln!("kv: unknown property {}", args.prop); std::process::exit(2); }
    let mut out = Out::new();
    if let Some(f) = &args.replay {
        let v = read_replay(f);
        let h = hist_from_json(&v["history"]).expect("replay history");
        process(&mut out, &args, &h, 0);
    } else {
        let mut rng = Rng::new(args.seed ^ 0x33);
        for (i, h) in edge_histories().iter().enumerate() { process(&mut out, &args, h, 10_000 + i); }
        let n_hand = args.scale(24, 300);
        let n_gen = args.scale(16, 200);
        for i in 0..n_hand {
            let n_ops = *rng.pick(&[6usize, 12, 20, 30]); let h = hand_history(&mut rng, n_ops);
            if args.extra.contains_key("selfreplay") {
                // the replay encoding must reproduce the same trace
                let h2 = hist_from_json(&hist_json(&h)).expect("replay decoding");
                let (a, b) = (run_history(&h, false), run_history(&h2, false));
                if let (Ok(a), Ok(b)) = (a, b) { if coq_history(&h, &a) != coq_history(&h2, &b) { eprintln!("history {i}: replay differs"); } else { eprintln!("history {i}: replay identical"); } }
            }
            process(&mut out, &args, &h, i);
        }
        for i in 0..n_gen { let h = generated_history(&mut rng); process(&mut out, &args, &h, n_hand + i); }
    }
    out.write(&args, "From Coq Require Import Uint63.\nFrom FV Require Import Base.Bytes Vm.KvSpec Vm.KvModel Run.KvLit Run.Kv.\nOpen Scope N_scope.", "khist", "bad_khists");
    let _ = Instruction::SIZE;
}
