//! Canonical codec family (C01, C02): run the real `fuel_types::canonical` encoders/decoders of
//! the protocol types, print cases for the Gallina model (coq/Run/Codec.v), and check the
//! properties directly on the implementation (oracles).
//!
//! Neutral value form = `Val` (mirrors `val` of coq/Codec/Schema.v): one entry per declared field,
//! in declaration order, *including* `#[canonical(skip)]` fields (printed as VUnit when they
//! equal `Default::default()`), `input::Empty<_>` fields as VUnit, newtypes (`Bytes32`, `Bytes`,
//! `BlockHeight`) as their only field.
use fuel_tx::field::*;
use fuel_tx::field::{BlobId as _, Policies as _, Salt as _, Script as _, TxPointer as _, UpgradePurpose as _};
use fuel_tx::input::coin::{CoinPredicate, CoinSigned};
use fuel_tx::input::message::{MessageCoinPredicate, MessageCoinSigned, MessageDataPredicate, MessageDataSigned};
use fuel_tx::policies::{Policies, PolicyType};
use fuel_tx::{
    Blob, BlobBody, Cacheable, Create, Input, Mint, Output, Receipt, Script, ScriptExecutionResult, StorageSlot,
    Transaction, TxPointer, Upgrade, UpgradePurpose, Upload, UploadBody, UtxoId, Witness,
};
use fuel_types::canonical::{Deserialize, Error as CErr, Serialize};
use fuel_types::{Address, AssetId, BlobId, Bytes32, ChainId, ContractId, Nonce, Salt, SubAssetId};
use fvh::*;
use serde_json::json;

const LIMIT: usize = fuel_types::canonical::VEC_DECODE_LIMIT;

// ------------------------------------------------------------------------------- neutral values
#[derive(Clone, PartialEq, Debug)]
enum Val {
    Unit,
    N(u128),
    B(Vec<u8>),
    L(Vec<Val>),
    S(Vec<Val>),
    E(usize, Vec<Val>),
}
impl Val {
    fn coq(&self) -> String {
        fn list(vs: &[Val]) -> String {
            coq_list(&vs.iter().map(|v| v.coq()).collect::<Vec<_>>())
        }
        match self {
            Val::Unit => "VUnit".into(),
            Val::N(n) => format!("(VN {})", n),
            Val::B(b) => format!("(VB {})", coq_pk(b)),
            Val::L(vs) => format!("(VL {})", list(vs)),
            Val::S(vs) => format!("(VS {})", list(vs)),
            Val::E(i, vs) => format!("(VE {} {})", i, list(vs)),
        }
    }
    fn json(&self) -> serde_json::Value {
        match self {
            Val::Unit => json!(null),
            Val::N(n) => json!({"n": n.to_string()}),
            Val::B(b) => json!({"b": hexs(b)}),
            Val::L(vs) => json!({"l": vs.iter().map(|v| v.json()).collect::<Vec<_>>()}),
            Val::S(vs) => json!({"s": vs.iter().map(|v| v.json()).collect::<Vec<_>>()}),
            Val::E(i, vs) => json!({"e": i, "f": vs.iter().map(|v| v.json()).collect::<Vec<_>>()}),
        }
    }
    fn from_json(j: &serde_json::Value) -> Option<Val> {
        if j.is_null() {
            return Some(Val::Unit);
        }
        let list = |x: &serde_json::Value| -> Option<Vec<Val>> { x.as_array()?.iter().map(Val::from_json).collect() };
        if let Some(n) = j.get("n") {
            return Some(Val::N(n.as_str()?.parse().ok()?));
        }
        if let Some(b) = j.get("b") {
            return Some(Val::B(hex::decode(b.as_str()?).ok()?));
        }
        if let Some(l) = j.get("l") {
            return Some(Val::L(list(l)?));
        }
        if let Some(s) = j.get("s") {
            return Some(Val::S(list(s)?));
        }
        if let Some(e) = j.get("e") {
            return Some(Val::E(e.as_u64()? as usize, list(j.get("f")?)?));
        }
        None
    }
    fn n(&self) -> Option<u128> {
        if let Val::N(n) = self { Some(*n) } else { None }
    }
    fn b(&self) -> Option<&Vec<u8>> {
        if let Val::B(b) = self { Some(b) } else { None }
    }
    fn s(&self) -> Option<&Vec<Val>> {
        if let Val::S(s) = self { Some(s) } else { None }
    }
    fn l(&self) -> Option<&Vec<Val>> {
        if let Val::L(s) = self { Some(s) } else { None }
    }
    fn b32(&self) -> Option<[u8; 32]> {
        self.b()?.as_slice().try_into().ok()
    }
}
/// `(pk len [w1; ..]%uint63)`: 7 bytes per primitive integer (see Run/Codec.v)
fn coq_pk(b: &[u8]) -> String {
    let mut s = format!("(pk {} [", b.len());
    for (i, ch) in b.chunks(7).enumerate() {
        if i > 0 {
            s.push_str("; ");
        }
        s.push_str("0x");
        s.push_str(&hex::encode(ch));
    }
    s.push_str("]%uint63)");
    s
}
fn vb<T: AsRef<[u8]>>(x: &T) -> Val {
    Val::B(x.as_ref().to_vec())
}
fn vn<T: Into<u128>>(x: T) -> Val {
    Val::N(x.into())
}

// ------------------------------------------------------------------------------- protocol types
/// A protocol type with a canonical codec, its schema name in Gen/Schemas.v, its neutral form,
/// equality modulo the fields C01 exempts, and the input class (if any) on which the round trip
/// is known to be impossible.
trait Proto: Serialize + Deserialize + Clone {
    const TY: &'static str;
    fn to_val(&self) -> Val;
    fn from_val(v: &Val) -> Option<Self>;
    /// equality modulo receipt `data`, panic `reason`, panic `contract_id`, `metadata`
    fn eq_exempt(&self, o: &Self) -> bool;
    /// precise name of the ill-formedness class of this value (None = well-formed)
    fn class(&self) -> Option<&'static str> {
        None
    }
}

macro_rules! eq_by_partial_eq {
    () => {
        fn eq_exempt(&self, o: &Self) -> bool {
            self == o
        }
    };
}

impl Proto for UtxoId {
    const TY: &'static str = "S_UtxoId";
    fn to_val(&self) -> Val {
        Val::S(vec![vb(self.tx_id()), vn(self.output_index())])
    }
    fn from_val(v: &Val) -> Option<Self> {
        let s = v.s()?;
        Some(UtxoId::new(s[0].b32()?.into(), s[1].n()? as u16))
    }
    eq_by_partial_eq!();
}
impl Proto for TxPointer {
    const TY: &'static str = "S_TxPointer";
    fn to_val(&self) -> Val {
        Val::S(vec![vn(*self.block_height()), vn(self.tx_index())])
    }
    fn from_val(v: &Val) -> Option<Self> {
        let s = v.s()?;
        Some(TxPointer::new((s[0].n()? as u32).into(), s[1].n()? as u16))
    }
    eq_by_partial_eq!();
}
impl Proto for StorageSlot {
    const TY: &'static str = "S_StorageSlot";
    fn to_val(&self) -> Val {
        Val::S(vec![vb(self.key()), vb(self.value())])
    }
    fn from_val(v: &Val) -> Option<Self> {
        let s = v.s()?;
        Some(StorageSlot::new(s[0].b32()?.into(), s[1].b32()?.into()))
    }
    eq_by_partial_eq!();
}
impl Proto for Witness {
    const TY: &'static str = "S_Witness";
    fn to_val(&self) -> Val {
        Val::S(vec![Val::B(self.as_vec().clone())])
    }
    fn from_val(v: &Val) -> Option<Self> {
        Some(Witness::from(v.s()?[0].b()?.clone()))
    }
    eq_by_partial_eq!();
    fn class(&self) -> Option<&'static str> {
        if self.as_vec().len() > LIMIT { Some("vector-above-decode-limit") } else { None }
    }
}

const POLICY_TYPES: [PolicyType; 6] = [
    PolicyType::Tip,
    PolicyType::WitnessLimit,
    PolicyType::Maturity,
    PolicyType::MaxFee,
    PolicyType::Expiration,
    PolicyType::Owner,
];
/// raw `values` array: the field is private; the legacy serde layout exposes the first four
/// entries even when their bits are unset (entries 4, 5 are only serialised when set, and every
/// constructor zeroes them when unset)
fn policies_raw_values(p: &Policies) -> [u64; 6] {
    let mut vals = [0u64; 6];
    for (i, t) in POLICY_TYPES.iter().enumerate() {
        vals[i] = p.get(*t).unwrap_or(0);
    }
    if let Ok(j) = serde_json::to_value(p) {
        if let Some(a) = j.get("values").and_then(|a| a.as_array()) {
            if a.len() == 4 && p.bits() & 0x30 == 0 {
                for i in 0..4 {
                    vals[i] = a[i].as_u64().unwrap_or(vals[i]);
                }
            }
        }
    }
    vals
}
fn policies_from_raw(bits: u32, vals: [u64; 6]) -> Option<Policies> {
    if bits < 64 {
        let mut p = Policies::new();
        let mut plain = true;
        for (i, t) in POLICY_TYPES.iter().enumerate() {
            if bits & (1 << i) != 0 {
                p.set(*t, Some(vals[i]));
            } else if vals[i] != 0 {
                plain = false;
            }
        }
        if plain {
            return Some(p);
        }
        // unset bit with a non-zero value: only reachable through the legacy serde layout
        if bits & 0x30 == 0 && vals[4] == 0 && vals[5] == 0 {
            let j = json!({"bits": bits_names(bits), "values": [vals[0], vals[1], vals[2], vals[3]]});
            return serde_json::from_value(j).ok();
        }
        return None;
    }
    // unknown bits: bitflags' binary serde keeps them (from_bits_retain)
    let mut set = vec![];
    for i in 0..6 {
        if bits & (1 << i) != 0 {
            set.push(vals[i]);
        }
    }
    let enc = if bits & 0x30 == 0 {
        postcard::to_allocvec(&(bits, [vals[0], vals[1], vals[2], vals[3]])).ok()?
    } else {
        postcard::to_allocvec(&(bits, set)).ok()?
    };
    postcard::from_bytes(&enc).ok()
}
fn bits_names(bits: u32) -> String {
    let names = ["Tip", "WitnessLimit", "Maturity", "MaxFee", "Expiration", "Owner"];
    let v: Vec<&str> = (0..6).filter(|i| bits & (1 << i) != 0).map(|i| names[i]).collect();
    v.join(" | ")
}
impl Proto for Policies {
    const TY: &'static str = "S_Policies";
    fn to_val(&self) -> Val {
        let mut v = vec![vn(self.bits())];
        v.extend(policies_raw_values(self).iter().map(|x| vn(*x)));
        Val::S(v)
    }
    fn from_val(v: &Val) -> Option<Self> {
        let s = v.s()?;
        let mut vals = [0u64; 6];
        for i in 0..6 {
            vals[i] = s[i + 1].n()? as u64;
        }
        policies_from_raw(s[0].n()? as u32, vals)
    }
    eq_by_partial_eq!();
    fn class(&self) -> Option<&'static str> {
        let raw = policies_raw_values(self);
        if self.bits() >= 64 {
            return Some("policy-unknown-bits");
        }
        if (0..6).any(|i| self.bits() & (1 << i) == 0 && raw[i] != 0) {
            return Some("policy-unset-bit-nonzero-value");
        }
        if self.get(PolicyType::Maturity).map(|m| m > u32::MAX as u64).unwrap_or(false) {
            return Some("policy-maturity-above-u32");
        }
        if self.get(PolicyType::Expiration).map(|m| m > u32::MAX as u64).unwrap_or(false) {
            return Some("policy-expiration-above-u32");
        }
        None
    }
}

fn out_contract_val(c: &fuel_tx::output::contract::Contract) -> Val {
    Val::S(vec![vn(c.input_index), vb(&c.balance_root), vb(&c.state_root)])
}
fn out_contract_from(v: &Val) -> Option<fuel_tx::output::contract::Contract> {
    let s = v.s()?;
    Some(fuel_tx::output::contract::Contract {
        input_index: s[0].n()? as u16,
        balance_root: s[1].b32()?.into(),
        state_root: s[2].b32()?.into(),
    })
}
impl Proto for Output {
    const TY: &'static str = "S_Output";
    fn to_val(&self) -> Val {
        match self {
            Output::Coin { to, amount, asset_id } => Val::E(0, vec![vb(to), vn(*amount), vb(asset_id)]),
            Output::Contract(c) => Val::E(1, vec![out_contract_val(c)]),
            Output::Change { to, amount, asset_id } => Val::E(2, vec![vb(to), vn(*amount), vb(asset_id)]),
            Output::Variable { to, amount, asset_id } => Val::E(3, vec![vb(to), vn(*amount), vb(asset_id)]),
            Output::ContractCreated { contract_id, state_root } => Val::E(4, vec![vb(contract_id), vb(state_root)]),
        }
    }
    fn from_val(v: &Val) -> Option<Self> {
        let Val::E(i, f) = v else { return None };
        Some(match i {
            0 => Output::Coin { to: f[0].b32()?.into(), amount: f[1].n()? as u64, asset_id: f[2].b32()?.into() },
            1 => Output::Contract(out_contract_from(&f[0])?),
            2 => Output::Change { to: f[0].b32()?.into(), amount: f[1].n()? as u64, asset_id: f[2].b32()?.into() },
            3 => Output::Variable { to: f[0].b32()?.into(), amount: f[1].n()? as u64, asset_id: f[2].b32()?.into() },
            4 => Output::ContractCreated { contract_id: f[0].b32()?.into(), state_root: f[1].b32()?.into() },
            _ => return None,
        })
    }
    eq_by_partial_eq!();
}

fn in_contract_val(c: &fuel_tx::input::contract::Contract) -> Val {
    Val::S(vec![c.utxo_id.to_val(), vb(&c.balance_root), vb(&c.state_root), c.tx_pointer.to_val(), vb(&c.contract_id)])
}
fn in_contract_from(v: &Val) -> Option<fuel_tx::input::contract::Contract> {
    let s = v.s()?;
    Some(fuel_tx::input::contract::Contract {
        utxo_id: UtxoId::from_val(&s[0])?,
        balance_root: s[1].b32()?.into(),
        state_root: s[2].b32()?.into(),
        tx_pointer: TxPointer::from_val(&s[3])?,
        contract_id: s[4].b32()?.into(),
    })
}
fn pcode(b: &[u8]) -> Val {
    Val::S(vec![Val::B(b.to_vec())])
}
impl Proto for Input {
    const TY: &'static str = "S_Input";
    fn to_val(&self) -> Val {
        use Val::Unit as U;
        match self {
            Input::CoinSigned(c) => Val::E(0, vec![Val::S(vec![
                c.utxo_id.to_val(), vb(&c.owner), vn(c.amount), vb(&c.asset_id), c.tx_pointer.to_val(),
                vn(c.witness_index), U, U, U])]),
            Input::CoinPredicate(c) => Val::E(1, vec![Val::S(vec![
                c.utxo_id.to_val(), vb(&c.owner), vn(c.amount), vb(&c.asset_id), c.tx_pointer.to_val(),
                U, vn(c.predicate_gas_used), pcode(&c.predicate), Val::B(c.predicate_data.to_vec())])]),
            Input::Contract(c) => Val::E(2, vec![in_contract_val(c)]),
            Input::MessageCoinSigned(m) => Val::E(3, vec![Val::S(vec![
                vb(&m.sender), vb(&m.recipient), vn(m.amount), vb(&m.nonce), vn(m.witness_index), U, U, U, U])]),
            Input::MessageCoinPredicate(m) => Val::E(4, vec![Val::S(vec![
                vb(&m.sender), vb(&m.recipient), vn(m.amount), vb(&m.nonce), U, vn(m.predicate_gas_used), U,
                pcode(&m.predicate), Val::B(m.predicate_data.to_vec())])]),
            Input::MessageDataSigned(m) => Val::E(5, vec![Val::S(vec![
                vb(&m.sender), vb(&m.recipient), vn(m.amount), vb(&m.nonce), vn(m.witness_index), U,
                Val::B(m.data.to_vec()), U, U])]),
            Input::MessageDataPredicate(m) => Val::E(6, vec![Val::S(vec![
                vb(&m.sender), vb(&m.recipient), vn(m.amount), vb(&m.nonce), U, vn(m.predicate_gas_used),
                Val::B(m.data.to_vec()), pcode(&m.predicate), Val::B(m.predicate_data.to_vec())])]),
        }
    }
    fn from_val(v: &Val) -> Option<Self> {
        let Val::E(i, f) = v else { return None };
        if *i == 2 {
            return Some(Input::Contract(in_contract_from(&f[0])?));
        }
        let s = f[0].s()?;
        let pc = |x: &Val| -> Option<Vec<u8>> { Some(x.s()?[0].b()?.clone()) };
        Some(match i {
            0 => Input::coin_signed(UtxoId::from_val(&s[0])?, s[1].b32()?.into(), s[2].n()? as u64, s[3].b32()?.into(),
                                    TxPointer::from_val(&s[4])?, s[5].n()? as u16),
            1 => Input::coin_predicate(UtxoId::from_val(&s[0])?, s[1].b32()?.into(), s[2].n()? as u64, s[3].b32()?.into(),
                                       TxPointer::from_val(&s[4])?, s[6].n()? as u64, pc(&s[7])?, s[8].b()?.clone()),
            3 => Input::message_coin_signed(s[0].b32()?.into(), s[1].b32()?.into(), s[2].n()? as u64, s[3].b32()?.into(), s[4].n()? as u16),
            4 => Input::message_coin_predicate(s[0].b32()?.into(), s[1].b32()?.into(), s[2].n()? as u64, s[3].b32()?.into(),
                                               s[5].n()? as u64, pc(&s[7])?, s[8].b()?.clone()),
            5 => Input::message_data_signed(s[0].b32()?.into(), s[1].b32()?.into(), s[2].n()? as u64, s[3].b32()?.into(),
                                            s[4].n()? as u16, s[6].b()?.clone()),
            6 => Input::message_data_predicate(s[0].b32()?.into(), s[1].b32()?.into(), s[2].n()? as u64, s[3].b32()?.into(),
                                               s[5].n()? as u64, s[6].b()?.clone(), pc(&s[7])?, s[8].b()?.clone()),
            _ => return None,
        })
    }
    eq_by_partial_eq!();
    fn class(&self) -> Option<&'static str> {
        match self {
            Input::MessageDataSigned(m) if m.data.is_empty() => Some("empty-data-message-input"),
            Input::MessageDataPredicate(m) if m.data.is_empty() => Some("empty-data-message-input"),
            Input::CoinPredicate(c) if c.predicate.is_empty() => Some("empty-predicate-input"),
            Input::MessageCoinPredicate(m) if m.predicate.is_empty() => Some("empty-predicate-input"),
            Input::MessageDataPredicate(m) if m.predicate.is_empty() => Some("empty-predicate-input"),
            _ => None,
        }
    }
}

fn ser_val(r: &ScriptExecutionResult) -> Val {
    match r {
        ScriptExecutionResult::Success => Val::E(0, vec![]),
        ScriptExecutionResult::Revert => Val::E(1, vec![]),
        ScriptExecutionResult::Panic => Val::E(2, vec![]),
        ScriptExecutionResult::GenericFailure(x) => Val::E(3, vec![vn(*x)]),
    }
}
fn opt_bytes(d: &Option<fuel_types::bytes::Bytes>) -> Val {
    match d {
        None => Val::Unit,
        Some(b) => Val::B(b.to_vec()),
    }
}
fn opt_bytes_from(v: &Val) -> Option<fuel_types::bytes::Bytes> {
    v.b().map(|b| b.clone().into())
}
fn panic_instr_val(p: &fuel_asm::PanicInstruction) -> Val {
    let r = *p.reason();
    let rv = if r == fuel_asm::PanicReason::default() { Val::Unit } else { vn(r as u8) };
    Val::S(vec![rv, vn(*p.instruction())])
}
fn normalize_receipt(r: &Receipt) -> Receipt {
    // the fields C01 exempts: payload `data`, panic `reason`, panic `contract_id`
    match r.clone() {
        Receipt::Panic { id, reason, pc, is, .. } => Receipt::Panic {
            id,
            reason: fuel_asm::PanicInstruction::error(Default::default(), *reason.instruction()),
            pc,
            is,
            contract_id: None,
        },
        Receipt::ReturnData { id, ptr, len, digest, pc, is, .. } => Receipt::ReturnData { id, ptr, len, digest, pc, is, data: None },
        Receipt::LogData { id, ra, rb, ptr, len, digest, pc, is, .. } => Receipt::LogData { id, ra, rb, ptr, len, digest, pc, is, data: None },
        Receipt::MessageOut { sender, recipient, amount, nonce, len, digest, .. } => Receipt::MessageOut { sender, recipient, amount, nonce, len, digest, data: None },
        other => other,
    }
}
impl Proto for Receipt {
    const TY: &'static str = "S_Receipt";
    fn to_val(&self) -> Val {
        match self {
            Receipt::Call { id, to, amount, asset_id, gas, param1, param2, pc, is } => Val::E(0, vec![
                vb(id), vb(to), vn(*amount), vb(asset_id), vn(*gas), vn(*param1), vn(*param2), vn(*pc), vn(*is)]),
            Receipt::Return { id, val, pc, is } => Val::E(1, vec![vb(id), vn(*val), vn(*pc), vn(*is)]),
            Receipt::ReturnData { id, ptr, len, digest, pc, is, data } => Val::E(2, vec![
                vb(id), vn(*ptr), vn(*len), vb(digest), vn(*pc), vn(*is), opt_bytes(data)]),
            Receipt::Panic { id, reason, pc, is, contract_id } => Val::E(3, vec![
                vb(id), panic_instr_val(reason), vn(*pc), vn(*is),
                match contract_id { None => Val::Unit, Some(c) => vb(c) }]),
            Receipt::Revert { id, ra, pc, is } => Val::E(4, vec![vb(id), vn(*ra), vn(*pc), vn(*is)]),
            Receipt::Log { id, ra, rb, rc, rd, pc, is } => Val::E(5, vec![vb(id), vn(*ra), vn(*rb), vn(*rc), vn(*rd), vn(*pc), vn(*is)]),
            Receipt::LogData { id, ra, rb, ptr, len, digest, pc, is, data } => Val::E(6, vec![
                vb(id), vn(*ra), vn(*rb), vn(*ptr), vn(*len), vb(digest), vn(*pc), vn(*is), opt_bytes(data)]),
            Receipt::Transfer { id, to, amount, asset_id, pc, is } => Val::E(7, vec![vb(id), vb(to), vn(*amount), vb(asset_id), vn(*pc), vn(*is)]),
            Receipt::TransferOut { id, to, amount, asset_id, pc, is } => Val::E(8, vec![vb(id), vb(to), vn(*amount), vb(asset_id), vn(*pc), vn(*is)]),
            Receipt::ScriptResult { result, gas_used } => Val::E(9, vec![ser_val(result), vn(*gas_used)]),
            Receipt::MessageOut { sender, recipient, amount, nonce, len, digest, data } => Val::E(10, vec![
                vb(sender), vb(recipient), vn(*amount), vb(nonce), vn(*len), vb(digest), opt_bytes(data)]),
            Receipt::Mint { sub_id, contract_id, val, pc, is } => Val::E(11, vec![vb(sub_id), vb(contract_id), vn(*val), vn(*pc), vn(*is)]),
            Receipt::Burn { sub_id, contract_id, val, pc, is } => Val::E(12, vec![vb(sub_id), vb(contract_id), vn(*val), vn(*pc), vn(*is)]),
        }
    }
    fn from_val(v: &Val) -> Option<Self> {
        let Val::E(i, f) = v else { return None };
        let w = |k: usize| -> Option<u64> { Some(f[k].n()? as u64) };
        Some(match i {
            0 => Receipt::Call { id: f[0].b32()?.into(), to: f[1].b32()?.into(), amount: w(2)?, asset_id: f[3].b32()?.into(),
                                 gas: w(4)?, param1: w(5)?, param2: w(6)?, pc: w(7)?, is: w(8)? },
            1 => Receipt::Return { id: f[0].b32()?.into(), val: w(1)?, pc: w(2)?, is: w(3)? },
            2 => Receipt::ReturnData { id: f[0].b32()?.into(), ptr: w(1)?, len: w(2)?, digest: f[3].b32()?.into(), pc: w(4)?, is: w(5)?,
                                       data: opt_bytes_from(&f[6]) },
            3 => {
                let p = f[1].s()?;
                let reason = match &p[0] { Val::Unit => fuel_asm::PanicReason::default(), x => fuel_asm::PanicReason::from(x.n()? as u8) };
                Receipt::Panic { id: f[0].b32()?.into(), reason: fuel_asm::PanicInstruction::error(reason, p[1].n()? as u32),
                                 pc: w(2)?, is: w(3)?, contract_id: f[4].b32().map(Into::into) }
            }
            4 => Receipt::Revert { id: f[0].b32()?.into(), ra: w(1)?, pc: w(2)?, is: w(3)? },
            5 => Receipt::Log { id: f[0].b32()?.into(), ra: w(1)?, rb: w(2)?, rc: w(3)?, rd: w(4)?, pc: w(5)?, is: w(6)? },
            6 => Receipt::LogData { id: f[0].b32()?.into(), ra: w(1)?, rb: w(2)?, ptr: w(3)?, len: w(4)?, digest: f[5].b32()?.into(),
                                    pc: w(6)?, is: w(7)?, data: opt_bytes_from(&f[8]) },
            7 => Receipt::Transfer { id: f[0].b32()?.into(), to: f[1].b32()?.into(), amount: w(2)?, asset_id: f[3].b32()?.into(), pc: w(4)?, is: w(5)? },
            8 => Receipt::TransferOut { id: f[0].b32()?.into(), to: f[1].b32()?.into(), amount: w(2)?, asset_id: f[3].b32()?.into(), pc: w(4)?, is: w(5)? },
            9 => {
                let Val::E(k, g) = &f[0] else { return None };
                let result = match k { 0 => ScriptExecutionResult::Success, 1 => ScriptExecutionResult::Revert, 2 => ScriptExecutionResult::Panic,
                                       3 => ScriptExecutionResult::GenericFailure(g[0].n()? as u64), _ => return None };
                Receipt::ScriptResult { result, gas_used: w(1)? }
            }
            10 => Receipt::MessageOut { sender: f[0].b32()?.into(), recipient: f[1].b32()?.into(), amount: w(2)?, nonce: f[3].b32()?.into(),
                                        len: w(4)?, digest: f[5].b32()?.into(), data: opt_bytes_from(&f[6]) },
            11 => Receipt::Mint { sub_id: f[0].b32()?.into(), contract_id: f[1].b32()?.into(), val: w(2)?, pc: w(3)?, is: w(4)? },
            12 => Receipt::Burn { sub_id: f[0].b32()?.into(), contract_id: f[1].b32()?.into(), val: w(2)?, pc: w(3)?, is: w(4)? },
            _ => return None,
        })
    }
    fn eq_exempt(&self, o: &Self) -> bool {
        // derived-with-ignore PartialEq of Receipt ignores data/contract_id; reason is compared
        // by it, so normalise; then also compare the neutral forms (nothing else may differ)
        let (a, b) = (normalize_receipt(self), normalize_receipt(o));
        a == b && a.to_val() == b.to_val()
    }
}

impl Proto for UpgradePurpose {
    const TY: &'static str = "S_UpgradePurpose";
    fn to_val(&self) -> Val {
        match self {
            UpgradePurpose::ConsensusParameters { witness_index, checksum } => Val::E(0, vec![vn(*witness_index), vb(checksum)]),
            UpgradePurpose::StateTransition { root } => Val::E(1, vec![vb(root)]),
        }
    }
    fn from_val(v: &Val) -> Option<Self> {
        let Val::E(i, f) = v else { return None };
        Some(match i {
            0 => UpgradePurpose::ConsensusParameters { witness_index: f[0].n()? as u16, checksum: f[1].b32()?.into() },
            1 => UpgradePurpose::StateTransition { root: f[0].b32()?.into() },
            _ => return None,
        })
    }
    eq_by_partial_eq!();
}

// ---- transactions
fn list_val<T: Proto>(xs: &[T]) -> Val {
    Val::L(xs.iter().map(|x| x.to_val()).collect())
}
fn list_from<T: Proto>(v: &Val) -> Option<Vec<T>> {
    v.l()?.iter().map(T::from_val).collect()
}
fn meta_val(computed: bool) -> Val {
    if computed { vn(1u8) } else { Val::Unit }
}
fn common_class(p: &Policies, ins: &[Input], wits: &[Witness]) -> Option<&'static str> {
    p.class().or_else(|| ins.iter().find_map(|i| i.class())).or_else(|| wits.iter().find_map(|w| w.class()))
}
fn chain() -> ChainId {
    ChainId::new(0)
}
macro_rules! chargeable_tail {
    ($tx:expr) => {
        vec![$tx.policies().to_val(), list_val($tx.inputs()), list_val($tx.outputs()), list_val($tx.witnesses()), meta_val($tx.is_computed())]
    };
}
fn finish<T: Cacheable>(mut tx: T, meta: &Val) -> Option<T> {
    if *meta != Val::Unit {
        tx.precompute(&chain()).ok()?;
    }
    Some(tx)
}
impl Proto for Script {
    const TY: &'static str = "S_Script";
    fn to_val(&self) -> Val {
        let body = Val::S(vec![vn(*self.script_gas_limit()), vb(self.receipts_root()), pcode(self.script()), Val::B(self.script_data().clone())]);
        let mut v = vec![body];
        v.extend(chargeable_tail!(self));
        Val::S(v)
    }
    fn from_val(v: &Val) -> Option<Self> {
        let s = v.s()?;
        let b = s[0].s()?;
        let mut tx = Transaction::script(b[0].n()? as u64, b[2].s()?[0].b()?.clone(), b[3].b()?.clone(), Policies::from_val(&s[1])?,
                                         list_from(&s[2])?, list_from(&s[3])?, list_from(&s[4])?);
        *tx.receipts_root_mut() = b[1].b32()?.into();
        finish(tx, &s[5])
    }
    eq_by_partial_eq!();
    fn class(&self) -> Option<&'static str> {
        common_class(self.policies(), self.inputs(), self.witnesses())
    }
}
impl Proto for Create {
    const TY: &'static str = "S_Create";
    fn to_val(&self) -> Val {
        let body = Val::S(vec![vn(*self.bytecode_witness_index()), vb(self.salt()), list_val(self.storage_slots())]);
        let mut v = vec![body];
        v.extend(chargeable_tail!(self));
        Val::S(v)
    }
    fn from_val(v: &Val) -> Option<Self> {
        let s = v.s()?;
        let b = s[0].s()?;
        let slots: Vec<StorageSlot> = list_from(&b[2])?;
        let tx = Transaction::create(b[0].n()? as u16, Policies::from_val(&s[1])?, Salt::from(b[1].b32()?), slots.clone(),
                                     list_from(&s[2])?, list_from(&s[3])?, list_from(&s[4])?);
        if tx.storage_slots() != &slots {
            return None;          // the public constructors sort the slots; an unsorted list only arises by decoding
        }
        finish(tx, &s[5])
    }
    eq_by_partial_eq!();
    fn class(&self) -> Option<&'static str> {
        common_class(self.policies(), self.inputs(), self.witnesses())
    }
}
impl Proto for Upgrade {
    const TY: &'static str = "S_Upgrade";
    fn to_val(&self) -> Val {
        let mut v = vec![Val::S(vec![self.upgrade_purpose().to_val()])];
        v.extend(chargeable_tail!(self));
        Val::S(v)
    }
    fn from_val(v: &Val) -> Option<Self> {
        let s = v.s()?;
        let tx = Transaction::upgrade(UpgradePurpose::from_val(&s[0].s()?[0])?, Policies::from_val(&s[1])?,
                                      list_from(&s[2])?, list_from(&s[3])?, list_from(&s[4])?);
        finish(tx, &s[5])
    }
    eq_by_partial_eq!();
    fn class(&self) -> Option<&'static str> {
        common_class(self.policies(), self.inputs(), self.witnesses())
    }
}
impl Proto for Upload {
    const TY: &'static str = "S_Upload";
    fn to_val(&self) -> Val {
        let body = Val::S(vec![vb(self.bytecode_root()), vn(*self.bytecode_witness_index()), vn(*self.subsection_index()),
                               vn(*self.subsections_number()), Val::L(self.proof_set().iter().map(|p| vb(p)).collect())]);
        let mut v = vec![body];
        v.extend(chargeable_tail!(self));
        Val::S(v)
    }
    fn from_val(v: &Val) -> Option<Self> {
        let s = v.s()?;
        let b = s[0].s()?;
        let proof: Option<Vec<Bytes32>> = b[4].l()?.iter().map(|x| x.b32().map(Into::into)).collect();
        let body = UploadBody { root: b[0].b32()?.into(), witness_index: b[1].n()? as u16, subsection_index: b[2].n()? as u16,
                                subsections_number: b[3].n()? as u16, proof_set: proof? };
        let tx = Transaction::upload(body, Policies::from_val(&s[1])?, list_from(&s[2])?, list_from(&s[3])?, list_from(&s[4])?);
        finish(tx, &s[5])
    }
    eq_by_partial_eq!();
    fn class(&self) -> Option<&'static str> {
        common_class(self.policies(), self.inputs(), self.witnesses())
    }
}
impl Proto for Blob {
    const TY: &'static str = "S_Blob";
    fn to_val(&self) -> Val {
        let mut v = vec![Val::S(vec![vb(self.blob_id()), vn(*self.bytecode_witness_index())])];
        v.extend(chargeable_tail!(self));
        Val::S(v)
    }
    fn from_val(v: &Val) -> Option<Self> {
        let s = v.s()?;
        let b = s[0].s()?;
        let body = BlobBody { id: BlobId::from(b[0].b32()?), witness_index: b[1].n()? as u16 };
        let tx = Transaction::blob(body, Policies::from_val(&s[1])?, list_from(&s[2])?, list_from(&s[3])?, list_from(&s[4])?);
        finish(tx, &s[5])
    }
    eq_by_partial_eq!();
    fn class(&self) -> Option<&'static str> {
        common_class(self.policies(), self.inputs(), self.witnesses())
    }
}
impl Proto for Mint {
    const TY: &'static str = "S_Mint";
    fn to_val(&self) -> Val {
        Val::S(vec![self.tx_pointer().to_val(), in_contract_val(self.input_contract()), out_contract_val(self.output_contract()),
                    vn(*self.mint_amount()), vb(self.mint_asset_id()), vn(*self.gas_price()), meta_val(self.is_computed())])
    }
    fn from_val(v: &Val) -> Option<Self> {
        let s = v.s()?;
        let tx = Transaction::mint(TxPointer::from_val(&s[0])?, in_contract_from(&s[1])?, out_contract_from(&s[2])?,
                                   s[3].n()? as u64, s[4].b32()?.into(), s[5].n()? as u64);
        finish(tx, &s[6])
    }
    eq_by_partial_eq!();
}
impl Proto for Transaction {
    const TY: &'static str = "S_Transaction";
    fn to_val(&self) -> Val {
        match self {
            Transaction::Script(t) => Val::E(0, vec![t.to_val()]),
            Transaction::Create(t) => Val::E(1, vec![t.to_val()]),
            Transaction::Mint(t) => Val::E(2, vec![t.to_val()]),
            Transaction::Upgrade(t) => Val::E(3, vec![t.to_val()]),
            Transaction::Upload(t) => Val::E(4, vec![t.to_val()]),
            Transaction::Blob(t) => Val::E(5, vec![t.to_val()]),
        }
    }
    fn from_val(v: &Val) -> Option<Self> {
        let Val::E(i, f) = v else { return None };
        Some(match i {
            0 => Script::from_val(&f[0])?.into(),
            1 => Create::from_val(&f[0])?.into(),
            2 => Mint::from_val(&f[0])?.into(),
            3 => Upgrade::from_val(&f[0])?.into(),
            4 => Upload::from_val(&f[0])?.into(),
            5 => Blob::from_val(&f[0])?.into(),
            _ => return None,
        })
    }
    eq_by_partial_eq!();
    fn class(&self) -> Option<&'static str> {
        match self {
            Transaction::Script(t) => t.class(),
            Transaction::Create(t) => t.class(),
            Transaction::Mint(_) => None,
            Transaction::Upgrade(t) => t.class(),
            Transaction::Upload(t) => t.class(),
            Transaction::Blob(t) => t.class(),
        }
    }
}

// ------------------------------------------------------------------------------- decoding observation
#[derive(Clone, Debug, PartialEq)]
enum DRes {
    Ok { val: Val, consumed: usize },
    Err(&'static str),
    Panic(String),
    /// the child process running the decoder died (abort / signal): allocation failure etc.
    Abort(String),
}
fn err_kind(e: &CErr) -> &'static str {
    match e {
        CErr::BufferIsTooShort => "BufferIsTooShort",
        CErr::UnknownDiscriminant => "UnknownDiscriminant",
        CErr::InvalidPrefix => "InvalidPrefix",
        CErr::AllocationLimit => "AllocationLimit",
        CErr::Unknown(s) if *s == "Invalid policies bits" => "InvalidPoliciesBits",
        CErr::Unknown(s) if s.contains("maturity") => "MaturityTooLarge",
        CErr::Unknown(s) if s.contains("expiration") => "ExpirationTooLarge",
        _ => "OtherUnknown",
    }
}
impl DRes {
    fn coq(&self) -> String {
        match self {
            DRes::Ok { val, consumed } => format!("(DOk {} {})", val.coq(), consumed),
            DRes::Err(k) => format!("(DErr {})", k),
            DRes::Panic(_) | DRes::Abort(_) => "DPanic".into(),
        }
    }
    fn json(&self) -> serde_json::Value {
        match self {
            DRes::Ok { consumed, .. } => json!({"ok": consumed}),
            DRes::Err(k) => json!({"err": k}),
            DRes::Panic(m) => json!({"panic": m}),
            DRes::Abort(m) => json!({"abort": m}),
        }
    }
}

/// decode + the C02 fixed-point oracle on the real code; returns the observation and, if the
/// oracle fails, what failed
fn decode_observe<T: Proto>(bytes: &[u8]) -> (DRes, Option<String>) {
    let r = guarded(|| {
        let mut buf = bytes;
        let r = T::decode(&mut buf);
        (r, bytes.len() - buf.len())
    });
    match r {
        Err(p) => (DRes::Panic(p.clone()), Some(format!("decoder panicked: {p}"))),
        Ok((Err(e), _)) => (DRes::Err(err_kind(&e)), None),
        Ok((Ok(v), consumed)) => {
            let val = v.to_val();
            let fix = guarded(|| {
                let re = v.to_bytes();
                if re.len() != consumed {
                    return Some(format!("re-encoded length {} != consumed {}", re.len(), consumed));
                }
                if v.size() != consumed {
                    return Some(format!("size() {} != consumed {}", v.size(), consumed));
                }
                let mut b2 = &re[..];
                match T::decode(&mut b2) {
                    Err(e) => Some(format!("decode(encode(v)) failed: {}", err_kind(&e))),
                    Ok(v2) => {
                        if !b2.is_empty() {
                            Some("decode(encode(v)) left bytes".to_string())
                        } else if v2.to_val() != val || !v2.eq_exempt(&v) {
                            Some("decode(encode(v)) != v".to_string())
                        } else {
                            None
                        }
                    }
                }
            });
            let problem = match fix {
                Ok(p) => p,
                Err(p) => Some(format!("re-encoding panicked: {p}")),
            };
            (DRes::Ok { val, consumed }, problem)
        }
    }
}

macro_rules! for_ty {
    ($name:expr, $f:ident $(, $arg:expr)*) => {
        match $name {
            "Transaction" => $f::<Transaction>($($arg),*),
            "Script" => $f::<Script>($($arg),*),
            "Create" => $f::<Create>($($arg),*),
            "Mint" => $f::<Mint>($($arg),*),
            "Upgrade" => $f::<Upgrade>($($arg),*),
            "Upload" => $f::<Upload>($($arg),*),
            "Blob" => $f::<Blob>($($arg),*),
            "Input" => $f::<Input>($($arg),*),
            "Output" => $f::<Output>($($arg),*),
            "Witness" => $f::<Witness>($($arg),*),
            "Policies" => $f::<Policies>($($arg),*),
            "StorageSlot" => $f::<StorageSlot>($($arg),*),
            "UtxoId" => $f::<UtxoId>($($arg),*),
            "TxPointer" => $f::<TxPointer>($($arg),*),
            "Receipt" => $f::<Receipt>($($arg),*),
            "UpgradePurpose" => $f::<UpgradePurpose>($($arg),*),
            other => panic!("unknown type {other}"),
        }
    };
}
fn short<T: Proto>() -> &'static str {
    &T::TY[2..]
}

/// run the decoder in a child process (huge length prefixes: an allocation failure aborts the
/// process, which must be an observation, not the death of the harness)
fn decode_in_child(ty: &str, bytes: &[u8]) -> (DRes, Option<String>) {
    let exe = std::env::current_exe().expect("current_exe");
    let out = std::process::Command::new(exe).arg("--child-decode").arg(ty).arg(hexs(bytes)).output();
    match out {
        Err(e) => (DRes::Abort(format!("spawn failed: {e}")), Some(format!("spawn failed: {e}"))),
        Ok(o) => {
            if !o.status.success() {
                let m = format!("decoder process died: {:?}", o.status);
                return (DRes::Abort(m.clone()), Some(m));
            }
            let j: serde_json::Value = serde_json::from_slice(&o.stdout).unwrap_or(json!({}));
            let problem = j.get("problem").and_then(|p| p.as_str()).map(|s| s.to_string());
            let res = if let Some(k) = j.get("err").and_then(|k| k.as_str()) {
                DRes::Err(ERR_KINDS.iter().copied().find(|x| *x == k).unwrap_or("OtherUnknown"))
            } else if let Some(p) = j.get("panic").and_then(|k| k.as_str()) {
                DRes::Panic(p.to_string())
            } else if let Some(v) = j.get("val") {
                DRes::Ok { val: Val::from_json(v).unwrap_or(Val::Unit), consumed: j["consumed"].as_u64().unwrap_or(0) as usize }
            } else {
                DRes::Abort("unparsable child output".into())
            };
            (res, problem)
        }
    }
}
const ERR_KINDS: [&str; 8] = ["BufferIsTooShort", "UnknownDiscriminant", "InvalidPrefix", "AllocationLimit",
                              "InvalidPoliciesBits", "MaturityTooLarge", "ExpirationTooLarge", "OtherUnknown"];
fn child_main(ty: &str, hexbytes: &str) {
    let bytes = hex::decode(hexbytes).expect("hex");
    fn go<T: Proto>(bytes: &[u8]) -> (DRes, Option<String>) {
        decode_observe::<T>(bytes)
    }
    let (res, problem) = for_ty!(ty, go, &bytes);
    let mut j = match &res {
        DRes::Ok { val, consumed } => json!({"val": val.json(), "consumed": consumed}),
        DRes::Err(k) => json!({"err": k}),
        DRes::Panic(m) => json!({"panic": m}),
        DRes::Abort(m) => json!({"panic": m}),
    };
    if let Some(p) = problem {
        j["problem"] = json!(p);
    }
    println!("{}", j);
}

// ------------------------------------------------------------------------------- generators
fn b32(rng: &mut Rng) -> [u8; 32] {
    match rng.below(8) {
        0 => [0u8; 32],
        1 => [0xff; 32],
        _ => rng.bytes32(),
    }
}
/// byte-vector length classes: every length 0..=17, 255..=257, (thorough) 16383..=16385, random
fn blen(rng: &mut Rng, thorough: bool, nonempty: bool) -> usize {
    let l = match rng.below(10) {
        0..=4 => rng.below(18) as usize,
        5 => 255 + rng.below(3) as usize,
        6 if thorough => 16383 + rng.below(3) as usize,
        7 => rng.range(18, 80) as usize,
        _ => rng.below(40) as usize,
    };
    if nonempty && l == 0 { 1 + rng.below(17) as usize } else { l }
}
fn gen_utxo(rng: &mut Rng) -> UtxoId {
    UtxoId::new(b32(rng).into(), rng.u64_biased() as u16)
}
fn gen_txptr(rng: &mut Rng) -> TxPointer {
    TxPointer::new((rng.u64_biased() as u32).into(), rng.u64_biased() as u16)
}
/// well-formed policies for a given mask
fn gen_policies_mask(rng: &mut Rng, mask: u32) -> Policies {
    let mut p = Policies::new();
    for (i, t) in POLICY_TYPES.iter().enumerate() {
        if mask & (1 << i) != 0 {
            let v = match t {
                PolicyType::Maturity | PolicyType::Expiration => rng.u64_biased() & 0xffff_ffff,
                _ => rng.u64_biased(),
            };
            p.set(*t, Some(v));
        }
    }
    p
}
fn gen_policies(rng: &mut Rng) -> Policies {
    let m = rng.below(64) as u32;
    gen_policies_mask(rng, m)
}
/// kind 0..6 in the order of `enum Input`; lengths of (predicate, predicate_data, data)
fn gen_input_kind(rng: &mut Rng, kind: usize, pl: usize, pdl: usize, dl: usize) -> Input {
    let amount = rng.u64_biased();
    let gas = rng.u64_biased();
    let wi = rng.u64_biased() as u16;
    match kind {
        0 => Input::coin_signed(gen_utxo(rng), b32(rng).into(), amount, b32(rng).into(), gen_txptr(rng), wi),
        1 => Input::coin_predicate(gen_utxo(rng), b32(rng).into(), amount, b32(rng).into(), gen_txptr(rng), gas, rng.bytes(pl), rng.bytes(pdl)),
        2 => Input::contract(gen_utxo(rng), b32(rng).into(), b32(rng).into(), gen_txptr(rng), b32(rng).into()),
        3 => Input::message_coin_signed(b32(rng).into(), b32(rng).into(), amount, b32(rng).into(), wi),
        4 => Input::message_coin_predicate(b32(rng).into(), b32(rng).into(), amount, b32(rng).into(), gas, rng.bytes(pl), rng.bytes(pdl)),
        5 => Input::message_data_signed(b32(rng).into(), b32(rng).into(), amount, b32(rng).into(), wi, rng.bytes(dl)),
        _ => Input::message_data_predicate(b32(rng).into(), b32(rng).into(), amount, b32(rng).into(), gas, rng.bytes(dl), rng.bytes(pl), rng.bytes(pdl)),
    }
}
fn gen_input(rng: &mut Rng, thorough: bool) -> Input {
    let k = rng.below(7) as usize;
    let (pl, pdl, dl) = (blen(rng, thorough, true), blen(rng, thorough, false), blen(rng, thorough, true));
    gen_input_kind(rng, k, pl, pdl, dl)
}
fn gen_output_kind(rng: &mut Rng, kind: usize) -> Output {
    match kind {
        0 => Output::coin(b32(rng).into(), rng.u64_biased(), b32(rng).into()),
        1 => Output::contract(rng.u64_biased() as u16, b32(rng).into(), b32(rng).into()),
        2 => Output::change(b32(rng).into(), rng.u64_biased(), b32(rng).into()),
        3 => Output::variable(b32(rng).into(), rng.u64_biased(), b32(rng).into()),
        _ => Output::contract_created(b32(rng).into(), b32(rng).into()),
    }
}
fn gen_output(rng: &mut Rng) -> Output {
    let k = rng.below(5) as usize;
    gen_output_kind(rng, k)
}
fn gen_witness(rng: &mut Rng, thorough: bool) -> Witness {
    let n = blen(rng, thorough, false);
    rng.bytes(n).into()
}
fn gen_receipt_kind(rng: &mut Rng, kind: usize, thorough: bool) -> Receipt {
    let id: ContractId = b32(rng).into();
    let w = |rng: &mut Rng| rng.u64_biased();
    let data = |rng: &mut Rng| -> Option<fuel_types::bytes::Bytes> {
        if rng.chance(1, 3) { None } else { let n = blen(rng, thorough, false); Some(rng.bytes(n).into()) }
    };
    match kind {
        0 => Receipt::Call { id, to: b32(rng).into(), amount: w(rng), asset_id: b32(rng).into(), gas: w(rng), param1: w(rng), param2: w(rng), pc: w(rng), is: w(rng) },
        1 => Receipt::Return { id, val: w(rng), pc: w(rng), is: w(rng) },
        2 => Receipt::ReturnData { id, ptr: w(rng), len: w(rng), digest: b32(rng).into(), pc: w(rng), is: w(rng), data: data(rng) },
        3 => Receipt::Panic {
            id,
            reason: fuel_asm::PanicInstruction::error(fuel_asm::PanicReason::from(rng.below(0x40) as u8), rng.u64_biased() as u32),
            pc: w(rng),
            is: w(rng),
            contract_id: if rng.bool() { Some(b32(rng).into()) } else { None },
        },
        4 => Receipt::Revert { id, ra: w(rng), pc: w(rng), is: w(rng) },
        5 => Receipt::Log { id, ra: w(rng), rb: w(rng), rc: w(rng), rd: w(rng), pc: w(rng), is: w(rng) },
        6 => Receipt::LogData { id, ra: w(rng), rb: w(rng), ptr: w(rng), len: w(rng), digest: b32(rng).into(), pc: w(rng), is: w(rng), data: data(rng) },
        7 => Receipt::Transfer { id, to: b32(rng).into(), amount: w(rng), asset_id: b32(rng).into(), pc: w(rng), is: w(rng) },
        8 => Receipt::TransferOut { id, to: b32(rng).into(), amount: w(rng), asset_id: b32(rng).into(), pc: w(rng), is: w(rng) },
        9 => Receipt::ScriptResult {
            result: match rng.below(5) {
                0 => ScriptExecutionResult::Success,
                1 => ScriptExecutionResult::Revert,
                2 => ScriptExecutionResult::Panic,
                3 => ScriptExecutionResult::GenericFailure(rng.below(4)),
                _ => ScriptExecutionResult::GenericFailure(w(rng)),
            },
            gas_used: w(rng),
        },
        10 => Receipt::MessageOut { sender: b32(rng).into(), recipient: b32(rng).into(), amount: w(rng), nonce: b32(rng).into(), len: w(rng), digest: b32(rng).into(), data: data(rng) },
        11 => Receipt::Mint { sub_id: b32(rng).into(), contract_id: id, val: w(rng), pc: w(rng), is: w(rng) },
        _ => Receipt::Burn { sub_id: b32(rng).into(), contract_id: id, val: w(rng), pc: w(rng), is: w(rng) },
    }
}
fn gen_purpose(rng: &mut Rng) -> UpgradePurpose {
    if rng.bool() {
        UpgradePurpose::ConsensusParameters { witness_index: rng.u64_biased() as u16, checksum: b32(rng).into() }
    } else {
        UpgradePurpose::StateTransition { root: b32(rng).into() }
    }
}
struct Parts {
    policies: Policies,
    inputs: Vec<Input>,
    outputs: Vec<Output>,
    witnesses: Vec<Witness>,
}
fn gen_parts(rng: &mut Rng, thorough: bool) -> Parts {
    let ni = rng.below(4) as usize;
    let no = rng.below(4) as usize;
    let nw = rng.below(4) as usize;
    Parts {
        policies: gen_policies(rng),
        inputs: (0..ni).map(|_| gen_input(rng, thorough)).collect(),
        outputs: (0..no).map(|_| gen_output(rng)).collect(),
        witnesses: (0..nw).map(|_| gen_witness(rng, thorough)).collect(),
    }
}
fn gen_tx_kind(rng: &mut Rng, kind: usize, thorough: bool) -> Transaction {
    let p = gen_parts(rng, thorough);
    let mut tx: Transaction = match kind {
        0 => {
            let (sl, dl) = (blen(rng, thorough, false), blen(rng, thorough, false));
            let mut t = Transaction::script(rng.u64_biased(), rng.bytes(sl), rng.bytes(dl), p.policies, p.inputs, p.outputs, p.witnesses);
            *t.receipts_root_mut() = b32(rng).into();
            t.into()
        }
        1 => {
            let ns = rng.below(4) as usize;
            let slots = (0..ns).map(|_| StorageSlot::new(b32(rng).into(), b32(rng).into())).collect();
            Transaction::create(rng.u64_biased() as u16, p.policies, b32(rng).into(), slots, p.inputs, p.outputs, p.witnesses).into()
        }
        2 => Transaction::mint(
            gen_txptr(rng),
            fuel_tx::input::contract::Contract { utxo_id: gen_utxo(rng), balance_root: b32(rng).into(), state_root: b32(rng).into(), tx_pointer: gen_txptr(rng), contract_id: b32(rng).into() },
            fuel_tx::output::contract::Contract { input_index: rng.u64_biased() as u16, balance_root: b32(rng).into(), state_root: b32(rng).into() },
            rng.u64_biased(),
            b32(rng).into(),
            rng.u64_biased(),
        )
        .into(),
        3 => Transaction::upgrade(gen_purpose(rng), p.policies, p.inputs, p.outputs, p.witnesses).into(),
        4 => {
            let np = rng.below(5) as usize;
            let body = UploadBody {
                root: b32(rng).into(),
                witness_index: rng.u64_biased() as u16,
                subsection_index: rng.u64_biased() as u16,
                subsections_number: rng.u64_biased() as u16,
                proof_set: (0..np).map(|_| b32(rng).into()).collect(),
            };
            Transaction::upload(body, p.policies, p.inputs, p.outputs, p.witnesses).into()
        }
        _ => Transaction::blob(BlobBody { id: b32(rng).into(), witness_index: rng.u64_biased() as u16 }, p.policies, p.inputs, p.outputs, p.witnesses).into(),
    };
    if rng.chance(1, 4) {
        let _ = tx.precompute(&chain()); // cached metadata present: must be exempt
    }
    tx
}


// ------------------------------------------------------------------------------- long vectors (oracle only)
/// (kind, element type, counts): vectors whose in-memory size exceeds 1 MiB, 4 MiB and 16 MiB for
/// every element type that occurs under a Vec in the protocol types.  Too big for vm_compute:
/// implementation-level oracle only.
const LONG_VECTORS: [(&str, &str, [usize; 3]); 6] = [
    ("vec-u64", "u64 (8 B)", [200_000, 600_000, 2_200_000]),
    ("create-storage-slots", "StorageSlot (64 B)", [20_000, 70_000, 270_000]),
    ("script-witnesses", "Witness (24 B)", [50_000, 180_000, 720_000]),
    ("script-inputs", "Input (184 B)", [8_000, 24_000, 95_000]),
    ("script-outputs", "Output (80 B)", [16_000, 56_000, 215_000]),
    ("upload-proof-set", "Bytes32 (32 B)", [40_000, 140_000, 540_000]),
];

fn long_check<T: Serialize + Deserialize + PartialEq>(out: &mut Out, prop: &str, kind: &str, elem: &str, count: usize, seed: u64, v: &T) {
    out.oracle_evaluations += 1;
    let replay = json!({"kind": "long-vector", "which": kind, "count": count, "seed": seed, "prop": prop});
    let r = guarded(|| {
        let bytes = v.to_bytes();
        let size = v.size();
        if bytes.len() != size || size % 8 != 0 {
            return Some(format!("to_bytes().len() {} != size() {}", bytes.len(), size));
        }
        let mut buf = &bytes[..];
        match T::decode(&mut buf) {
            Err(e) => Some(format!("decode(encode(v)) = Err({})", err_kind(&e))),
            Ok(v2) => {
                let consumed = bytes.len() - buf.len();
                if consumed != bytes.len() {
                    Some(format!("decode consumed {} of {} bytes (decoded size() = {})", consumed, bytes.len(), v2.size()))
                } else if v2.size() != consumed {
                    Some(format!("decoded size() {} != consumed {}", v2.size(), consumed))
                } else if v2 != *v {
                    Some("decode(encode(v)) != v".to_string())
                } else if v2.to_bytes() != bytes {
                    Some("re-encoding of the decoded value differs".to_string())
                } else {
                    None
                }
            }
        }
    });
    let problem = match r {
        Ok(p) => p,
        Err(p) => Some(format!("panicked: {p}")),
    };
    match problem {
        Some(what) => out.oracle_fail(
            "long-vector-round-trip",
            &format!("{kind}: Vec of {count} x {elem} does not round-trip: {what}"),
            replay,
        ),
        None => out.count(&format!("oracle/long-vector/{kind}")),
    }
}

/// regenerate the value from (kind, count, seed) and check it
fn long_vector_oracle(out: &mut Out, prop: &str, kind: &str, count: usize, seed: u64) {
    let mut rng = Rng::new(seed);
    let elem = LONG_VECTORS.iter().find(|x| x.0 == kind).map(|x| x.1).unwrap_or("?");
    match kind {
        "vec-u64" => {
            let v: Vec<u64> = (0..count).map(|_| rng.next()).collect();
            long_check(out, prop, kind, elem, count, seed, &v);
        }
        "create-storage-slots" => {
            let slots: Vec<StorageSlot> = (0..count).map(|i| {
                let mut k = [0u8; 32];
                k[..8].copy_from_slice(&(i as u64).to_be_bytes());
                StorageSlot::new(k.into(), rng.bytes32().into())
            }).collect();
            let tx = Transaction::create(0, gen_policies(&mut rng), b32(&mut rng).into(), slots, vec![], vec![], vec![rng.bytes(5).into()]);
            long_check(out, prop, kind, elem, count, seed, &tx);
            long_check(out, prop, kind, elem, count, seed, &Transaction::from(tx));
        }
        "script-witnesses" => {
            let ws: Vec<Witness> = (0..count).map(|i| rng.bytes(i % 9).into()).collect();
            let tx = Transaction::script(1, vec![1, 2, 3], vec![4], gen_policies(&mut rng), vec![], vec![], ws);
            long_check(out, prop, kind, elem, count, seed, &tx);
            long_check(out, prop, kind, elem, count, seed, &Transaction::from(tx));
        }
        "script-inputs" => {
            let ins: Vec<Input> = (0..count).map(|i| {
                let (pl, pdl, dl) = (1 + i % 5, i % 3, 1 + i % 4);
                gen_input_kind(&mut rng, i % 7, pl, pdl, dl)
            }).collect();
            let tx = Transaction::script(1, vec![1, 2, 3], vec![4], gen_policies(&mut rng), ins, vec![gen_output(&mut rng)], vec![]);
            long_check(out, prop, kind, elem, count, seed, &tx);
            long_check(out, prop, kind, elem, count, seed, &Transaction::from(tx));
        }
        "script-outputs" => {
            let outs: Vec<Output> = (0..count).map(|i| gen_output_kind(&mut rng, i % 5)).collect();
            let tx = Transaction::script(1, vec![], vec![], gen_policies(&mut rng), vec![gen_input(&mut rng, false)], outs, vec![]);
            long_check(out, prop, kind, elem, count, seed, &tx);
            long_check(out, prop, kind, elem, count, seed, &Transaction::from(tx));
        }
        "upload-proof-set" => {
            let body = UploadBody {
                root: b32(&mut rng).into(),
                witness_index: 0,
                subsection_index: 1,
                subsections_number: 2,
                proof_set: (0..count).map(|_| rng.bytes32().into()).collect(),
            };
            let tx = Transaction::upload(body, gen_policies(&mut rng), vec![], vec![], vec![rng.bytes(3).into()]);
            long_check(out, prop, kind, elem, count, seed, &tx);
            long_check(out, prop, kind, elem, count, seed, &Transaction::from(tx));
        }
        "script-3000-inputs-3000-outputs" => {
            let ins: Vec<Input> = (0..count).map(|i| gen_input_kind(&mut rng, i % 7, 2, 1, 3)).collect();
            let outs: Vec<Output> = (0..count).map(|i| gen_output_kind(&mut rng, i % 5)).collect();
            let tx: Transaction = Transaction::script(1, vec![1], vec![], gen_policies(&mut rng), ins, outs, vec![]).into();
            long_check(out, prop, kind, "Input (184 B) / Output (80 B)", count, seed, &tx);
        }
        other => out.notes.push(format!("long-vector replay: unknown kind {other}")),
    }
}

fn long_vector_stream(out: &mut Out, prop: &str, seed: u64) {
    for (kind, _, counts) in LONG_VECTORS {
        for (j, count) in counts.iter().enumerate() {
            long_vector_oracle(out, prop, kind, *count, seed.wrapping_add(j as u64));
        }
    }
    long_vector_oracle(out, prop, "script-3000-inputs-3000-outputs", 3000, seed);
}

// ------------------------------------------------------------------------------- C01
fn c01_case<T: Proto>(out: &mut Out, v: &T, stream: &str, model: bool) {
    out.oracle_evaluations += 1;
    let val = v.to_val();
    let class = v.class();
    let big = matches!(&val, Val::S(f) if matches!(f.first(), Some(Val::B(b)) if b.len() > (1 << 20)));
    let mk_replay = || -> serde_json::Value {
        if big {
            if let Val::S(f) = &val { if let Some(Val::B(b)) = f.first() { return json!({"kind": "c01-big-witness", "len": b.len()}); } }
        }
        json!({"kind": "c01", "ty": short::<T>(), "val": val.json()})
    };
    let enc = guarded(|| {
        let bytes = v.to_bytes();
        let mut st = Vec::new();
        v.encode_static(&mut st).expect("encode_static");
        (bytes, v.size(), v.size_static(), v.size_dynamic(), st.len())
    });
    let (bytes, size, ss, sd, st_len) = match enc {
        Err(p) => {
            out.oracle_fail(class.unwrap_or("encode-panic"), &format!("{}: to_bytes panicked: {}", short::<T>(), p), mk_replay());
            return;
        }
        Ok(x) => x,
    };
    let fail = |what: String, out: &mut Out| {
        let c = class.unwrap_or("roundtrip-mismatch");
        out.oracle_fail(c, &format!("{} [{}]: {}", short::<T>(), c, what), mk_replay());
    };
    if bytes.len() != size || size % 8 != 0 || ss.checked_add(sd) != Some(size) || st_len != ss {
        let c = class.unwrap_or("size-mismatch");
        out.oracle_fail(c, &format!("{}: len {} size {} static {} (encoded static {}) dynamic {}", short::<T>(), bytes.len(), size, ss, st_len, sd), mk_replay());
    }
    let dec = guarded(|| {
        let mut buf = &bytes[..];
        let r = T::decode(&mut buf);
        (r, bytes.len() - buf.len())
    });
    let dres = match dec {
        Err(p) => {
            fail(format!("decoder panicked on own encoding: {p}"), out);
            DRes::Panic(p)
        }
        Ok((Err(e), _)) => {
            fail(format!("decode(encode(v)) = Err({})", err_kind(&e)), out);
            DRes::Err(err_kind(&e))
        }
        Ok((Ok(v2), consumed)) => {
            if consumed != bytes.len() {
                fail(format!("decode consumed {} of {} bytes and returned {}", consumed, bytes.len(), variant_name(&v2.to_val())), out);
            } else if !v2.eq_exempt(v) {
                fail(format!("decode(encode(v)) != v (got {})", variant_name(&v2.to_val())), out);
            }
            DRes::Ok { val: v2.to_val(), consumed }
        }
    };
    if model {
        let coq = format!(
            "{{| ec_ty := {}; ec_val := {}; ec_bytes := {}; ec_size := {}; ec_size_static := {}; ec_size_dynamic := {}; ec_dec := {} |}}",
            T::TY, val.coq(), coq_pk(&bytes), size, ss, sd, dres.coq()
        );
        out.push(Case {
            coq,
            json: json!({"kind": "c01", "ty": short::<T>(), "stream": stream, "len": bytes.len(), "class": class, "dec": dres.json(), "val": val.json()}),
            key: format!("{}:{}", short::<T>(), hexs(&bytes)),
            nontrivial: bytes.len() > 8,
            class: format!("{}/{}", short::<T>(), stream),
        });
    } else {
        out.count(&format!("oracle/{}", short::<T>()));
    }
}
fn variant_name(v: &Val) -> String {
    match v {
        Val::E(i, _) => format!("variant #{i}"),
        _ => "a value".into(),
    }
}

fn run_c01(args: &Args, out: &mut Out) {
    let mut rng = Rng::new(args.seed);
    let th = args.thorough();
    let model = !args.oracle_only;
    if let Some(p) = &args.replay {
        let v = read_replay(p);
        replay_c01(out, &v);
        return;
    }
    // ---- stream 1: witnesses of the ill-formedness classes (= the Coq `_refuted` lemmas)
    for k in [1usize, 4, 6] {
        let i = gen_input_kind(&mut rng, k, 0, 8, 5);   // empty predicate, non-empty predicate data
        c01_case(out, &i, "witness", model);
        let i = gen_input_kind(&mut rng, k, 0, 0, 5);   // empty predicate, empty predicate data
        c01_case(out, &i, "witness", model);
    }
    for k in [5usize, 6] {
        let i = gen_input_kind(&mut rng, k, 3, 2, 0);   // empty data
        c01_case(out, &i, "witness", model);
    }
    c01_case(out, &Policies::new().with_maturity(0.into()), "witness", model);
    {
        let mut p = Policies::new();
        p.set(PolicyType::Maturity, Some(1 << 32));
        c01_case(out, &p, "witness", model);
        let mut p = Policies::new();
        p.set(PolicyType::Expiration, Some(u64::MAX));
        c01_case(out, &p, "witness", model);
        let mut p = Policies::new();
        p.set(PolicyType::Owner, Some(u64::MAX)); // owner > u32::MAX is NOT rejected by decode
        c01_case(out, &p, "witness", model);
        if let Some(p) = policies_from_raw(0, [7, 0, 0, 0, 0, 0]) {
            c01_case(out, &p, "witness", model);
        } else {
            out.notes.push("could not build a Policies with a non-zero value under an unset bit through serde_json".into());
        }
        if let Some(p) = policies_from_raw(1 << 6, [0; 6]) {
            c01_case(out, &p, "witness", false); // bits >= 64 is outside the model's typing; oracle only
        } else {
            out.notes.push("could not build a Policies with unknown bits through postcard".into());
        }
        // a transaction carrying an ill-formed input: the bytes left over shift everything after it
        let bad = gen_input_kind(&mut rng, 1, 0, 8, 0);
        let good = gen_input_kind(&mut rng, 0, 0, 0, 0);
        let tx: Transaction = Transaction::script(1, vec![1, 2, 3], vec![], Policies::new(), vec![bad, good], vec![], vec![]).into();
        c01_case(out, &tx, "witness", model);
    }
    // a vector one element above VEC_DECODE_LIMIT: to_bytes() panics (oracle only: the model
    // would need a 100 MiB list)
    big_witness_oracle(out, LIMIT + 1);
    if th {
        big_witness_oracle(out, LIMIT);
    }
    // ---- stream 2: boundary vectors
    let lens: Vec<usize> = {
        let mut l: Vec<usize> = (0..=17).collect();
        l.extend([255, 256, 257]);
        if th {
            l.extend([16383, 16384, 16385]);
        }
        l
    };
    for &n in &lens {
        let w: Witness = rng.bytes(n).into();
        c01_case(out, &w, "boundary", model);
        for k in [1usize, 4, 5, 6] {
            // each vector position in turn gets the boundary length, the others a small one
            for pos in 0..3 {
                let (pl, pdl, dl) = match pos { 0 => (n.max(1), 3, 2), 1 => (2, n, 3), _ => (1, 2, n.max(1)) };
                if (k == 5 && pos != 2) || ((k == 1 || k == 4) && pos == 2) {
                    continue;
                }
                let i = gen_input_kind(&mut rng, k, pl, pdl, dl);
                c01_case(out, &i, "boundary", model);
            }
        }
        let tx: Transaction = Transaction::script(rng.u64_biased(), rng.bytes(n), rng.bytes((n * 7) % 19), gen_policies(&mut rng), vec![], vec![], vec![]).into();
        c01_case(out, &tx, "boundary", model);
        let tx: Transaction = Transaction::script(rng.u64_biased(), rng.bytes(3), rng.bytes(n), Policies::new(), vec![gen_input(&mut rng, false)], vec![gen_output(&mut rng)], vec![rng.bytes(n).into()]).into();
        c01_case(out, &tx, "boundary", model);
        for kind in [2usize, 6, 10] {
            let mut r = gen_receipt_kind(&mut rng, kind, th);
            match &mut r {
                Receipt::ReturnData { data, .. } | Receipt::LogData { data, .. } | Receipt::MessageOut { data, .. } => *data = Some(rng.bytes(n).into()),
                _ => {}
            }
            c01_case(out, &r, "boundary", model);
        }
    }
    // clearing a policy through the public API (set(ty, None)) must give exactly the value that
    // never had it set: build every mask by setting all six policies and clearing the others
    for mask in 0..64u32 {
        let direct = gen_policies_mask(&mut rng, mask);
        let mut cleared = Policies::new();
        for t in POLICY_TYPES.iter() {
            cleared.set(*t, Some(direct.get(*t).unwrap_or(0x55)));
        }
        for (i, t) in POLICY_TYPES.iter().enumerate() {
            if mask & (1 << i) == 0 {
                cleared.set(*t, None);
            }
        }
        out.oracle_evaluations += 1;
        let rt = guarded(|| Policies::from_bytes(&cleared.to_bytes())).ok().and_then(|r| r.ok());
        if cleared != direct || rt.as_ref() != Some(&cleared) {
            out.oracle_fail(
                "policy-cleared-by-set-none-differs-from-never-set",
                &format!("mask {mask:#x}: Policies built by set(Some) x6 then set(None) != Policies with only the mask set, or does not round-trip (raw values {:?})", policies_raw_values(&cleared)),
                serde_json::json!({"kind":"policies-clear","mask":mask}),
            );
        }
    }
    // all 64 policy masks, several value vectors each
    for mask in 0..64u32 {
        for _ in 0..args.scale(3, 40) {
            c01_case(out, &gen_policies_mask(&mut rng, mask), "policy-mask", model);
        }
        let tx: Transaction = Transaction::script(0, vec![], vec![], gen_policies_mask(&mut rng, mask), vec![], vec![], vec![]).into();
        c01_case(out, &tx, "policy-mask", model);
    }
    // every variant of every enum, integer boundaries
    for _ in 0..args.scale(4, 200) {
        for k in 0..7 {
            let (pl, pdl, dl) = (blen(&mut rng, th, true), blen(&mut rng, th, false), blen(&mut rng, th, true));
            c01_case(out, &gen_input_kind(&mut rng, k, pl, pdl, dl), "variants", model);
        }
        for k in 0..5 {
            c01_case(out, &gen_output_kind(&mut rng, k), "variants", model);
        }
        for k in 0..13 {
            c01_case(out, &gen_receipt_kind(&mut rng, k, th), "variants", model);
        }
        c01_case(out, &gen_purpose(&mut rng), "variants", model);
        c01_case(out, &gen_utxo(&mut rng), "variants", model);
        c01_case(out, &gen_txptr(&mut rng), "variants", model);
        c01_case(out, &StorageSlot::new(b32(&mut rng).into(), b32(&mut rng).into()), "variants", model);
    }
    // ---- stream 3: structured mostly-valid transactions of all six kinds
    for _ in 0..args.scale(25, 2500) {
        for kind in 0..6 {
            let tx = gen_tx_kind(&mut rng, kind, th);
            c01_case(out, &tx, "tx", model);
            // the concrete transaction types have their own codec entry points
            if rng.chance(1, 3) {
                match &tx {
                    Transaction::Script(t) => c01_case(out, t, "tx-kind", model),
                    Transaction::Create(t) => c01_case(out, t, "tx-kind", model),
                    Transaction::Mint(t) => c01_case(out, t, "tx-kind", model),
                    Transaction::Upgrade(t) => c01_case(out, t, "tx-kind", model),
                    Transaction::Upload(t) => c01_case(out, t, "tx-kind", model),
                    Transaction::Blob(t) => c01_case(out, t, "tx-kind", model),
                }
            }
        }
    }
    // the crates' own generators (TransactionFactory-style defaults)
    c01_case(out, &Transaction::default_test_tx(), "crate-default", model);
    c01_case(out, &Transaction::default(), "crate-default", model);
    c01_case(out, &Input::default(), "crate-default", model);
    c01_case(out, &Output::default(), "crate-default", model);
    c01_case(out, &Policies::default(), "crate-default", model);
    // ---- long vectors (> 1 MiB / 4 MiB / 16 MiB of elements): oracle only
    long_vector_stream(out, "C01", args.seed ^ 0x10C6);
    // ---- oracle-only volume (implementation-level check, no model)
    let extra = if args.oracle_only { args.scale(20000, 200000) } else { args.scale(2000, 100000) };
    for _ in 0..extra {
        match rng.below(6) {
            0 => c01_case(out, &gen_input(&mut rng, th), "oracle", false),
            1 => c01_case(out, &gen_output(&mut rng), "oracle", false),
            2 => { let k = rng.below(13) as usize; c01_case(out, &gen_receipt_kind(&mut rng, k, th), "oracle", false) }
            3 => c01_case(out, &gen_policies(&mut rng), "oracle", false),
            _ => { let k = rng.below(6) as usize; c01_case(out, &gen_tx_kind(&mut rng, k, th), "oracle", false) }
        }
    }
    out.notes.push(format!(
        "size_of: Input {} Output {} Witness {} StorageSlot {} Transaction {} (a length prefix of VEC_DECODE_LIMIT = {} reserves that many elements before any is decoded)",
        std::mem::size_of::<Input>(), std::mem::size_of::<Output>(), std::mem::size_of::<Witness>(), std::mem::size_of::<StorageSlot>(), std::mem::size_of::<Transaction>(), LIMIT
    ));
}

/// a Witness of `len` zero bytes, checked without building its neutral form (100 MiB copies are
/// slow): to_bytes() must not panic, and must round-trip
fn big_witness_oracle(out: &mut Out, len: usize) {
    out.oracle_evaluations += 1;
    let w: Witness = vec![0u8; len].into();
    let replay = json!({"kind": "c01-big-witness", "len": len});
    let class = w.class().unwrap_or("roundtrip-mismatch");
    match guarded(|| w.to_bytes()) {
        Err(p) => out.oracle_fail(class, &format!("Witness of {} bytes (VEC_DECODE_LIMIT = {}): to_bytes panicked: {}", len, LIMIT, p), replay),
        Ok(bytes) => {
            let ok = bytes.len() == w.size() && matches!(guarded(|| Witness::from_bytes(&bytes)), Ok(Ok(w2)) if w2 == w);
            if !ok {
                out.oracle_fail(class, &format!("Witness of {} bytes does not round-trip", len), replay);
            }
            out.count("oracle/big-witness");
        }
    }
}

fn replay_c01(out: &mut Out, v: &serde_json::Value) {
    if v["kind"] == "long-vector" {
        long_vector_oracle(out, "C01", v["which"].as_str().unwrap_or(""), v["count"].as_u64().unwrap_or(0) as usize, v["seed"].as_u64().unwrap_or(0));
        return;
    }
    if v["kind"] == "c01-big-witness" {
        big_witness_oracle(out, v["len"].as_u64().unwrap_or(0) as usize);
        return;
    }
    let ty = v["ty"].as_str().unwrap_or("").to_string();
    let val = Val::from_json(&v["val"]).expect("replay: val");
    fn go<T: Proto>(out: &mut Out, val: &Val) {
        match T::from_val(val) {
            Some(x) => c01_case(out, &x, "replay", true),
            None => out.notes.push("replay: value cannot be rebuilt through the public API".into()),
        }
    }
    for_ty!(ty.as_str(), go, out, &val);
}

// ------------------------------------------------------------------------------- C02
fn c02_case(out: &mut Out, ty: &'static str, bytes: Vec<u8>, stream: &str, huge: bool, model: bool) {
    out.oracle_evaluations += 1;
    fn go<T: Proto>(bytes: &[u8]) -> (DRes, Option<String>) {
        decode_observe::<T>(bytes)
    }
    let (res, problem) = if huge { decode_in_child(ty, &bytes) } else { for_ty!(ty, go, &bytes) };
    let replay = json!({"kind": "c02", "ty": ty, "bytes": hexs(&bytes)});
    if let Some(p) = &problem {
        let class = match &res {
            DRes::Panic(_) => "decoder-panic",
            DRes::Abort(_) => "decoder-abort-on-huge-length-prefix",
            _ => "decode-not-a-fixed-point",
        };
        out.oracle_fail(class, &format!("{ty}: {p}"), replay.clone());
    }
    if model {
        let coq = format!("{{| dc_ty := S_{}; dc_bytes := {}; dc_res := {} |}}", ty, coq_pk(&bytes), res.coq());
        let kind = match &res { DRes::Ok { .. } => "ok".to_string(), DRes::Err(k) => k.to_string(), _ => "panic".into() };
        out.count(&format!("result/{kind}"));
        out.push(Case {
            coq,
            json: json!({"kind": "c02", "ty": ty, "stream": stream, "len": bytes.len(), "res": res.json(), "bytes": if bytes.len() <= 600 { json!(hexs(&bytes)) } else { json!(null) }}),
            key: format!("{}:{}", ty, hexs(&bytes)),
            nontrivial: !bytes.is_empty() && !matches!(res, DRes::Err("BufferIsTooShort")),
            class: format!("{}/{}", ty, stream),
        });
    } else {
        out.count(&format!("oracle/{ty}"));
    }
}

const INTERESTING: [u64; 16] = [
    0, 1, 2, 3, 4, 5, 6, 7, 1 << 32, LIMIT as u64 - 1, LIMIT as u64, LIMIT as u64 + 1, 1 << 63, u64::MAX, 63, 64,
];

fn mutate_words(out: &mut Out, rng: &mut Rng, ty: &'static str, base: &[u8], budget: usize, model: bool) {
    let words = base.len() / 8;
    if words == 0 {
        return;
    }
    for _ in 0..budget {
        let wi = rng.below(words as u64) as usize;
        let cur = u64::from_be_bytes(base[wi * 8..wi * 8 + 8].try_into().unwrap());
        let newv = match rng.below(8) {
            0 => cur.wrapping_add(1),
            1 => cur.wrapping_sub(1),
            2 => cur ^ (1u64 << rng.below(64)),
            3 => cur | 0xffff_ffff_0000_0000,                 // dirty the padding of a u16/u32 field
            4 => cur | 0xffff_ffff_ffff_0000,
            _ => *rng.pick(&INTERESTING),
        };
        let mut b = base.to_vec();
        b[wi * 8..wi * 8 + 8].copy_from_slice(&newv.to_be_bytes());
        let huge = newv > (1 << 20) && newv <= LIMIT as u64;
        c02_case(out, ty, b, "word-mutation", huge, model);
    }
}

fn run_c02(args: &Args, out: &mut Out) {
    let mut rng = Rng::new(args.seed ^ 0xC02);
    let th = args.thorough();
    let model = !args.oracle_only;
    if let Some(p) = &args.replay {
        let v = read_replay(p);
        if v["kind"] == "long-vector" {
            long_vector_oracle(out, "C02", v["which"].as_str().unwrap_or(""), v["count"].as_u64().unwrap_or(0) as usize, v["seed"].as_u64().unwrap_or(0));
            return;
        }
        let ty: &'static str = ["Transaction", "Input", "Output", "Receipt", "Policies", "Witness", "Script", "Create", "Mint", "Upgrade", "Upload", "Blob",
                                "StorageSlot", "UtxoId", "TxPointer", "UpgradePurpose"]
            .iter().copied().find(|t| Some(*t) == v["ty"].as_str()).expect("replay: ty");
        c02_case(out, ty, hex::decode(v["bytes"].as_str().unwrap()).unwrap(), "replay", true, true);
        return;
    }
    // valid base encodings
    let mut bases: Vec<(&'static str, Vec<u8>)> = vec![];
    for kind in 0..6 {
        for _ in 0..args.scale(2, 20) {
            bases.push(("Transaction", gen_tx_kind(&mut rng, kind, false).to_bytes()));
        }
    }
    for k in 0..7 {
        let (pl, pdl, dl) = (1 + rng.below(12) as usize, rng.below(12) as usize, 1 + rng.below(12) as usize);
        bases.push(("Input", gen_input_kind(&mut rng, k, pl, pdl, dl).to_bytes()));
    }
    for k in 0..5 {
        bases.push(("Output", gen_output_kind(&mut rng, k).to_bytes()));
    }
    for k in 0..13 {
        bases.push(("Receipt", gen_receipt_kind(&mut rng, k, false).to_bytes()));
    }
    for m in [0u32, 1, 4, 16, 21, 63] {
        bases.push(("Policies", gen_policies_mask(&mut rng, m).to_bytes()));
    }
    bases.push(("Witness", Witness::from(rng.bytes(11)).to_bytes()));
    // the encodings themselves decode
    for (ty, b) in bases.clone() {
        c02_case(out, ty, b, "valid", false, model);
    }
    // 1. word mutations: discriminants, length prefixes, policy bits, padding
    let per_base = args.scale(if args.oracle_only { 200 } else { 14 }, 150);
    for (ty, b) in bases.clone() {
        mutate_words(out, &mut rng, ty, &b, per_base, model);
    }
    // 2. systematic: first word (discriminant) x interesting values; every length-like word
    for (ty, b) in bases.iter().take(if th { bases.len() } else { 24 }) {
        for v in INTERESTING {
            let mut x = b.clone();
            if x.len() >= 8 {
                x[..8].copy_from_slice(&v.to_be_bytes());
                c02_case(out, ty, x, "discriminant", false, model);
            }
        }
    }
    // 2b. the concrete transaction types check their #[canonical(prefix)] themselves
    for kind in 0..6usize {
        let tx = gen_tx_kind(&mut rng, kind, false);
        let ty: &'static str = ["Script", "Create", "Mint", "Upgrade", "Upload", "Blob"][kind];
        let b = tx.to_bytes();
        c02_case(out, ty, b.clone(), "valid", false, model);
        for v in [0u64, 1, 2, 3, 4, 5, 6, u64::MAX] {
            let mut x = b.clone();
            x[..8].copy_from_slice(&v.to_be_bytes());
            c02_case(out, ty, x, "prefix", false, model);
        }
        c02_case(out, ty, b[..4].to_vec(), "prefix", false, model);
        mutate_words(out, &mut rng, ty, &b, args.scale(6, 60), model);
    }
    // 3. policy bits 6..31 and values above u32::MAX inside a transaction
    {
        let tx: Transaction = Transaction::script(0, vec![], vec![], Policies::new().with_maturity(7.into()).with_expiration(9.into()), vec![], vec![], vec![]).into();
        let b = tx.to_bytes();
        // layout: prefix, gas limit, receipts root(4 words), script len, data len, policy bits, ...
        let bits_at = 8 * 8;
        for bit in 0..32 {
            let mut x = b.clone();
            let cur = u64::from_be_bytes(x[bits_at..bits_at + 8].try_into().unwrap());
            x[bits_at..bits_at + 8].copy_from_slice(&(cur ^ (1u64 << bit)).to_be_bytes());
            c02_case(out, "Transaction", x, "policy-bits", false, model);
        }
        for hi in [1u64 << 32, u64::MAX, (1 << 32) - 1] {
            for which in 0..2 {
                let mut x = b.clone();
                let at = x.len() - 16 + which * 8;
                x[at..at + 8].copy_from_slice(&hi.to_be_bytes());
                c02_case(out, "Transaction", x, "policy-values", false, model);
            }
        }
        for bits in [0u64, 1, 63, 64, 65, 1 << 31, 1 << 32, (1 << 32) | 5, u64::MAX] {
            let mut x = bits.to_be_bytes().to_vec();
            x.extend(std::iter::repeat(0u8).take(48));
            c02_case(out, "Policies", x, "policy-bits", false, model);
        }
    }
    // 4. every truncation point of small encodings, every 8th (+-1) of larger ones
    for (ty, b) in bases.iter() {
        let small = b.len() <= 400;
        if !small && !th && rng.chance(2, 3) {
            continue;
        }
        for cut in 0..b.len() {
            if small && (th || cut % 3 == 0 || cut % 8 == 0) || (!small && (cut % 8 == 0 || cut % 8 == 7) && (th || cut % 5 == 0)) {
                c02_case(out, ty, b[..cut].to_vec(), "truncation", false, model);
            }
        }
    }
    // 5. dirty padding: every zero byte that is padding in the valid encoding set to 0xff, one at
    //    a time would be too many; flip random bytes instead (hits padding about half the time)
    for (ty, b) in bases.iter() {
        for _ in 0..args.scale(6, 60) {
            let mut x = b.clone();
            if x.is_empty() { continue; }
            let n = 1 + rng.below(3);
            for _ in 0..n {
                let i = rng.below(x.len() as u64) as usize;
                x[i] ^= 1 << rng.below(8);
            }
            c02_case(out, ty, x, "byte-flip", false, model);
        }
    }
    // 6. trailing garbage and random strings
    for (ty, b) in bases.iter().take(12) {
        let mut x = b.clone();
        x.extend(rng.bytes_upto(24));
        c02_case(out, ty, x, "trailing", false, model);
    }
    for _ in 0..args.scale(150, 3000) {
        let ty = *rng.pick(&["Transaction", "Input", "Output", "Receipt", "Policies", "Witness", "UtxoId", "TxPointer", "StorageSlot", "UpgradePurpose"]);
        let words = rng.below(40) as usize;
        let mut x = vec![];
        for _ in 0..words {
            let w: u64 = match rng.below(4) { 0 => rng.next(), 1 => rng.below(8), 2 => rng.below(40), _ => 0 };
            x.extend(w.to_be_bytes());
        }
        x.extend(rng.bytes_upto(7));
        c02_case(out, ty, x, "random", false, model);
    }
    // 7. huge counts directly in front of each vector type (child process)
    {
        let mk = |disc: u64, words_before: usize, count: u64| -> Vec<u8> {
            let mut x = disc.to_be_bytes().to_vec();
            for _ in 0..words_before { x.extend(0u64.to_be_bytes()); }
            x.extend(count.to_be_bytes());
            x.extend(vec![0u8; 64]);
            x
        };
        for count in [LIMIT as u64, LIMIT as u64 - 1, LIMIT as u64 + 1, 1 << 32, 1 << 63, u64::MAX] {
            // script tx: words: prefix gas root*4 script_len data_len bits inputs outputs witnesses
            for pos in [6usize, 7, 9, 10, 11] {
                let mut x = vec![0u8; 12 * 8 + 64];
                x[pos * 8..pos * 8 + 8].copy_from_slice(&count.to_be_bytes());
                c02_case(out, "Transaction", x, "huge-count", true, model);
            }
            c02_case(out, "Witness", mk(count, 0, 0)[..16].to_vec(), "huge-count", true, model);
            let _ = &mk;
        }
    }
    // 8. long valid encodings (oracle only): decode -> size == consumed -> re-encode equal
    long_vector_stream(out, "C02", args.seed ^ 0x10C6);
    out.notes.push("C02 'never panics' is a runtime property: it is exercised by this guarded mutation stream only (testing, not proof)".into());
}

fn main() {
    quiet_panics();
    let raw: Vec<String> = std::env::args().collect();
    if raw.len() >= 4 && raw[1] == "--child-decode" {
        child_main(&raw[2], &raw[3]);
        return;
    }
    let args = Args::parse();
    let mut out = Out::new();
    let header = "From Coq Require Import Uint63.\nFrom FV Require Import Base.Bytes Codec.Schema Gen.Schemas Run.Codec.\nOpen Scope N_scope.";
    match args.prop.as_str() {
        "C01" => {
            run_c01(&args, &mut out);
            Rng::new(args.seed ^ 0x5AFE).shuffle(&mut out.cases); // balance the model shards
            out.write(&args, header, "enc_case", "bad_enc");
        }
        "C02" => {
            run_c02(&args, &mut out);
            Rng::new(args.seed ^ 0x5AFE).shuffle(&mut out.cases);
            out.write(&args, header, "dec_case", "bad_dec");
        }
        p => {
            eprintln!("codec: unknown property {p}");
            std::process::exit(2);
        }
    }
    let _ = (Address::zeroed(), AssetId::zeroed(), Nonce::zeroed(), SubAssetId::zeroed(), CoinSigned::default(), CoinPredicate::default(),
             MessageCoinSigned::default(), MessageCoinPredicate::default(), MessageDataSigned::default(), MessageDataPredicate::default());
}
