//! C34 "Calls and returns preserve the caller's frame": trace validation cases + implementation-level oracle.
//!
//! Scenarios (call trees up to ~30 frames deep: chains of contracts, self-recursion through Call.a,
//! forwarding of coins and gas, RET / RETD of many lengths, callee heap allocation, LDC in callees)
//! are run on the real interpreter through vmtrace's single-step tracer.  Run/Frames.v replays the
//! frame model at every CALL / RET / RETD; the oracle below checks the property text directly:
//! registers at the instruction after the matching return vs. registers at the CALL, caller's memory
//! [vm_hi, $sp at call) byte-for-byte vs. a snapshot taken at the CALL, depth, callee's initial
//! registers, and that loads from callee-allocated heap after the return succeed with the stored value.
#[path = "../vmown/mod.rs"]
mod vmown;
use fvh::vmtrace::*;
use fvh::*;
use serde_json::{json, Value};
use std::collections::BTreeMap;
use vmown::*;

struct Pending {
    regs: [u64; 64],
    depth: usize,
    snapshot: Vec<u8>,
    vm_hi: u64,
}

struct Stats {
    steps: u64,
    calls: u64,
    returns: u64,
    retd_lens: BTreeMap<u64, u64>,
    max_depth: usize,
    depth_hist: BTreeMap<usize, u64>,
    heap_reads_after_return: u64,
    callee_alloc_returns: u64,
    forwarded_coins: u64,
    build_errors: u64,
    sp_residues: BTreeMap<String, u64>,
    unaligned_calls: u64,
    zero_coin_calls_under_nonzero_bal: u64,
}

const NOT_RESTORED: [usize; 6] = [R_CGAS, R_GGAS, R_RET, R_RETL, R_HP, R_PC];

fn be64(b: &[u8]) -> u64 { u64::from_be_bytes(b.try_into().unwrap_or([0; 8])) }

fn run_scenario(out: &mut Out, st: &mut Stats, world: &World, tx: &TxSpec, replay: Value, stream: &str, oracle_only: bool) {
    let opts = TraceOpts { max_steps: 12000, mem_diff: true, storage: false, frames: true };
    let tr = match guarded(|| trace(world, tx, &opts)) {
        Ok(Ok(t)) => t,
        Ok(Err(_)) => { st.build_errors += 1; return; }
        Err(p) => { out.oracle_fail("host-panic-in-interpreter", &format!("host panic: {p}"), replay); return; }
    };
    let init = match initial_stack(world, tx) { Ok(v) => v, Err(_) => { st.build_errors += 1; return; } };
    let vm_hi = tr.regs_initial[R_SSP];
    let mut coq_steps: Vec<String> = vec![];
    let mut quiet: (u64, usize) = (0, 0);
    let mut sig = String::new();
    let mut pend: Vec<Pending> = vec![];
    let mut fails: Vec<(String, String)> = vec![];
    let mut pairs = 0u64;
    let mut scen_max_depth = 0usize;
    let mut last_return_hp: Option<(u64, u64)> = None; // (hp after return, hp at call)
    track(&tr, &init, |t, sh| {
        let s = t.step;
        st.steps += 1;
        out.oracle_evaluations += 1;
        let m = s.mnemonic.as_str();
        let (rb, ra) = (&s.regs_before, &s.regs_after);
        let d_after = s.frames_after.len();
        scen_max_depth = scen_max_depth.max(d_after);
        let changed = coq_runs(&t.changed);
        let is_quiet = t.call.is_none() && t.changed.is_empty() && !(m == "RET" || m == "RETD") && d_after == s.frames_before.len();
        if !(is_quiet && quiet.0 > 0 && quiet.1 == d_after) && quiet.0 > 0 { coq_steps.push(format!("FQuiet {} {}", quiet.0, quiet.1)); quiet = (0, 0); }
        let completed_ret = (m == "RET" && matches!(s.outcome, Outcome::Return(_))) || (m == "RETD" && s.outcome == Outcome::ReturnData);
        // ---- loads: the value must be what the shadow memory holds (ties the shadow to the VM, and
        // shows callee-allocated heap stays readable after the return)
        if m == "LW" && s.outcome == Outcome::Proceed {
            let dst = s.fields()[0] as usize;
            if let Some(w) = t.mem_before_word {
                if ra[dst] != w { fails.push(("load-differs-from-memory-image".into(), format!("LW at pc {} loaded {} but memory holds {}", s.pc, ra[dst], w))); }
            }
            if let Some((hp_new, hp_old)) = last_return_hp {
                let a = s.field_values()[1].wrapping_add(8 * s.imm as u64);
                if hp_new <= a && a < hp_old { st.heap_reads_after_return += 1; }
            }
        }
        if let Some(c) = &t.call {
            // ---- completed CALL
            st.calls += 1;
            let fv = s.field_values();
            let to = &c.call_struct[0..32];
            let (a, b) = (be64(&c.call_struct[32..40]), be64(&c.call_struct[40..48]));
            let code: Vec<u8> = world.contracts.iter().find(|d| d.id.as_ref() == to).map(|d| d.code.clone()).unwrap_or_default();
            let padded = code.len().div_ceil(8) * 8;
            let mut expect_area = code.clone();
            expect_area.resize(padded, 0);
            let code_ok = c.code_area == expect_area;
            if fv[1] > 0 { st.forwarded_coins += 1; }
            // oracle: callee's initial registers, from the property text
            let fp1 = ra[R_FP];
            let mut bad: Vec<(&str, String)> = vec![];
            if fp1 != rb[R_SP] { bad.push(("call-frame-not-at-caller-sp", format!("callee $fp {} != caller $sp {} (sp mod 8 = {})", fp1, rb[R_SP], rb[R_SP] % 8))); }
            if ra[R_SSP] != rb[R_SP] + 600 + padded as u64 || ra[R_SP] != ra[R_SSP] { bad.push(("callee-stack-not-after-frame-and-code", format!("ssp {} sp {} expected {}", ra[R_SSP], ra[R_SP], rb[R_SP] + 600 + padded as u64))); }
            if ra[12] != rb[R_SP] + 600 || ra[R_PC] != rb[R_SP] + 600 { bad.push(("callee-is-pc-not-code-start", format!("is {} pc {} expected caller sp + 600 = {}", ra[12], ra[R_PC], rb[R_SP] + 600))); }
            if ra[11] != fv[1] { bad.push(("callee-bal-not-forwarded-amount", format!("$bal {} but {} coins forwarded (caller's $bal {})", ra[11], fv[1], rb[11]))); }
            if ra[15] != 0 { bad.push(("callee-flag-not-zero", format!("$flag {}", ra[15]))); }
            if ra[R_CGAS] > fv[3] || ra[R_CGAS] > rb[R_CGAS] { bad.push(("callee-cgas-above-forwarded", format!("cgas {} forwarded {} available {}", ra[R_CGAS], fv[3], rb[R_CGAS]))); }
            if ra[R_HP] != rb[R_HP] { bad.push(("call-changed-hp", format!("{} -> {}", rb[R_HP], ra[R_HP]))); }
            for k in (0..64usize).filter(|k| ![R_FP, R_SSP, R_SP, R_PC, 12, 11, 15, R_CGAS, R_GGAS].contains(k)) {
                if ra[k] != rb[k] { bad.push(("call-changed-other-register", format!("register {k}: {} -> {}", rb[k], ra[k]))); break; }
            }
            if d_after != s.frames_before.len() + 1 { bad.push(("call-depth-not-plus-one", format!("{} -> {}", s.frames_before.len(), d_after))); }
            if !code_ok { bad.push(("callee-code-area-not-code-plus-padding", "bytes after the frame differ from contract code ++ zero padding".into())); }
            // the frame must hold the callee id at its very first byte, i.e. exactly at the caller's $sp
            if c.frame.len() >= 32 && &sh.read(rb[R_SP], 32)[..] != to { bad.push(("call-frame-not-at-caller-sp", format!("memory at caller $sp {} does not start with the callee id", rb[R_SP]))); }
            // the CALL itself must not touch the caller's stack [vm_hi, sp): compare with the image BEFORE the step
            if let Some(pre) = &t.pre_call_stack {
                let now = sh.read(0, pre.len());
                if let Some(i) = ((vm_hi as usize).min(pre.len())..pre.len()).find(|&i| now[i] != pre[i]) {
                    bad.push(("caller-stack-changed-across-call", format!("the CALL at pc {} changed byte {} of the caller's stack (caller $sp {}, {} bytes below it): {} -> {}", s.pc, i, rb[R_SP], rb[R_SP] - i as u64, pre[i], now[i])));
                }
            }
            for (cl, w) in bad { fails.push((cl.to_string(), format!("CALL at pc {}: {}", s.pc, w))); }
            *st.sp_residues.entry(format!("depth{}:sp%8={}", match d_after { 1 => "1", 2 => "2", 3..=5 => "3-5", _ => "6+" }, rb[R_SP] % 8)).or_insert(0) += 1;
            if rb[R_SP] % 4 != 0 { st.unaligned_calls += 1; }
            if fv[1] == 0 && rb[11] != 0 { st.zero_coin_calls_under_nonzero_bal += 1; }
            pend.push(Pending { regs: *rb, depth: s.frames_before.len(), snapshot: t.pre_call_stack.clone().unwrap_or_default(), vm_hi });
            coq_steps.push(format!("FCall {} {} {} {} {} {} {} {} {} {} {} {} {}",
                coq_regs64(rb), coq_regs64(ra), coq_bytes(to), coq_bytes(&c.asset), a, b, fv[1], fv[3], code.len(),
                coq_list(&c.frame.chunks(8).map(|w| be64(w).to_string()).collect::<Vec<_>>()), coq_bool(code_ok), d_after, changed));
            sig.push_str(&format!("C{};", d_after));
        } else if completed_ret {
            let fv = s.field_values();
            if m == "RETD" { *st.retd_lens.entry(fv[1]).or_insert(0) += 1; }
            if !s.frames_before.is_empty() {
                // ---- return to a caller
                st.returns += 1;
                pairs += 1;
                match pend.pop() {
                    None => fails.push(("return-without-call".into(), format!("{m} at pc {}", s.pc))),
                    Some(p) => {
                        let mut bad = vec![];
                        // --perturb 1 (self-test of the oracle, never used by ./check)
                        if std::env::args().any(|a| a == "--perturb") && ra[20] == p.regs[20] { bad.push("self-test perturbation".to_string()); }
                        for k in (0..64usize).filter(|k| !NOT_RESTORED.contains(k)) {
                            if ra[k] != p.regs[k] { bad.push(format!("register {k}: {} at the call, {} after the return", p.regs[k], ra[k])); }
                        }
                        if ra[R_PC] != p.regs[R_PC] + 4 { bad.push(format!("pc {} != call pc {} + 4", ra[R_PC], p.regs[R_PC])); }
                        if d_after != p.depth { bad.push(format!("depth {} != depth at the call {}", d_after, p.depth)); }
                        if !bad.is_empty() { fails.push(("registers-not-restored-after-return".into(), format!("{m} at pc {}: {}", s.pc, bad.join("; ")))); }
                        // caller's memory [vm_hi, sp at call) byte for byte (sh = memory after this step)
                        let now = sh.read(0, p.regs[R_SP] as usize);
                        let lo = p.vm_hi as usize;
                        if let Some(i) = (lo..now.len()).find(|&i| now[i] != p.snapshot[i]) {
                            fails.push(("caller-stack-changed-across-call".into(), format!("byte {} of the caller's stack changed between the CALL at pc {} and the return ({} -> {})", i, p.regs[R_PC], p.snapshot[i], now[i])));
                        }
                        if ra[R_HP] > p.regs[R_HP] { fails.push(("heap-pointer-moved-up".into(), format!("hp {} after return > {} at the call", ra[R_HP], p.regs[R_HP]))); }
                        if ra[R_HP] < p.regs[R_HP] { st.callee_alloc_returns += 1; }
                        last_return_hp = Some((ra[R_HP], p.regs[R_HP]));
                    }
                }
            }
            coq_steps.push(format!("FRet {} {} {} {} {} {} {}", coq_bool(m == "RETD"), s.fields()[0], coq_regs64(rb), coq_regs64(ra), fv[1], d_after, changed));
            sig.push_str(&format!("R{}:{};", d_after, if m == "RETD" { fv[1] } else { 0 }));
        } else {
            if d_after != s.frames_before.len() && !(m == "CALL") {
                fails.push(("depth-changed-without-call-or-return".into(), format!("{m} at pc {}: depth {} -> {}", s.pc, s.frames_before.len(), d_after)));
            }
            if is_quiet { quiet = (quiet.0 + 1, d_after); } else { coq_steps.push(format!("FOther {} {}", d_after, changed)); }
        }
    });
    if quiet.0 > 0 { coq_steps.push(format!("FQuiet {} {}", quiet.0, quiet.1)); }
    st.max_depth = st.max_depth.max(scen_max_depth);
    *st.depth_hist.entry(scen_max_depth).or_insert(0) += 1;
    for (class, what) in fails.into_iter().take(2) { out.oracle_fail(&class, &what, replay.clone()); }
    if oracle_only { return; }
    let coq = format!("{{| fc_vm_hi := {}; fc_steps := {} |}}", vm_hi, coq_list(&coq_steps));
    let key = format!("{:x}", { use std::hash::{Hash, Hasher}; let mut h = std::collections::hash_map::DefaultHasher::new(); sig.hash(&mut h); h.finish() });
    out.push(Case {
        coq,
        json: json!({"stream": stream, "steps": tr.steps.len(), "max_depth": scen_max_depth, "call_return_pairs": pairs,
                     "final": format!("{:?}", tr.final_state).chars().take(60).collect::<String>(), "replay": replay}),
        key,
        nontrivial: pairs > 0,
        class: format!("{stream}:depth{}", match scen_max_depth { 0 => "0", 1 => "1", 2..=4 => "2-4", 5..=9 => "5-9", 10..=19 => "10-19", _ => "20+" }),
    });
}

fn main() {
    quiet_panics();
    let args = Args::parse();
    if args.prop != "C34" { eprintln!("frames: unknown property {}", args.prop); std::process::exit(2); }
    let mut out = Out::new();
    let mut st = Stats { steps: 0, calls: 0, returns: 0, retd_lens: BTreeMap::new(), max_depth: 0, depth_hist: BTreeMap::new(), heap_reads_after_return: 0,
                         callee_alloc_returns: 0, forwarded_coins: 0, build_errors: 0, sp_residues: BTreeMap::new(), unaligned_calls: 0, zero_coin_calls_under_nonzero_bal: 0 };
    let mut rng = Rng::new(args.seed ^ 0xC34);
    let oo = args.oracle_only;
    if let Some(p) = &args.replay {
        let v = read_replay(p);
        let v = if v.get("replay").is_some() && v.get("kind").is_none() { v["replay"].clone() } else { v };
        match v["kind"].as_str().unwrap_or("") {
            "tree" => match TreeScenario::from_json(&v["input"]) {
                Ok(t) => run_scenario(&mut out, &mut st, &t.scn.world, &t.scn.tx, v.clone(), "replay", oo),
                Err(e) => { eprintln!("replay: {e}"); std::process::exit(2); }
            },
            _ => match Scenario::from_json(&v["input"]) {
                Ok(s) => run_scenario(&mut out, &mut st, &s.world, &s.tx, v.clone(), "replay", oo),
                Err(e) => { eprintln!("replay: {e}"); std::process::exit(2); }
            },
        }
    } else {
        // stream A: call trees
        for k in 0..args.scale(70, 400) {
            let n = rng.range(1, 4) as usize;
            let recursion = match k % 5 { 0 => 0, 1 => rng.range(1, 4), 2 => rng.range(5, 12), 3 => rng.range(10, 20), _ => rng.range(20, 27) };
            let cfg = TreeCfg { n_contracts: n, recursion, hostile: Hostile::None, hostile_unit: 0, ldc: rng.chance(1, 4),
                                actions: if recursion > 9 { rng.range(0, 3) as usize } else { rng.range(0, 8) as usize },
                                schedule: if rng.chance(1, 5) { GasSchedule::Unit } else { GasSchedule::Default }, gas_limit: 90_000_000, touch: false, misalign_per_mille: 700 };
            let t = gen_tree(&mut rng, &cfg);
            let rj = json!({"kind": "tree", "input": t.to_json()});
            run_scenario(&mut out, &mut st, &t.scn.world, &t.scn.tx, rj, "tree", oo);
        }
        // stream B: vmtrace's grammar (random register contents, all instruction kinds between calls)
        for _ in 0..args.scale(50, 300) {
            let mut cfg = GenCfg::default();
            cfg.n_contracts = rng.range(1, 4) as usize;
            cfg.unit_items = rng.range(4, 16) as usize;
            cfg.recursion_depth = rng.below(9);
            cfg.fault_per_mille = *rng.pick(&[0u64, 0, 3]);
            cfg.gas_limit = 20_000_000;
            cfg.schedule = match rng.below(4) { 0 => GasSchedule::Unit, 1 => GasSchedule::Random(rng.next()), _ => GasSchedule::Default };
            let scn = gen_scenario(&mut rng, &cfg);
            let rj = json!({"kind": "vmtrace", "input": scn.to_json()});
            run_scenario(&mut out, &mut st, &scn.world, &scn.tx, rj, "grammar", oo);
        }
    }
    rng.shuffle(&mut out.cases);   // balance the shards
    out.notes.push(format!("steps {}, completed calls {}, returns to a caller {}, max depth {}, returns after callee allocation {}, loads from callee-allocated heap after return {}, calls forwarding coins {}, scenarios not buildable {}",
        st.steps, st.calls, st.returns, st.max_depth, st.callee_alloc_returns, st.heap_reads_after_return, st.forwarded_coins, st.build_errors));
    out.notes.push(format!("calls with $sp not a multiple of 4: {}; calls forwarding 0 coins from a frame whose own $bal is non-zero: {}; caller $sp mod 8 at CALL by callee depth: {:?}", st.unaligned_calls, st.zero_coin_calls_under_nonzero_bal, st.sp_residues));
    out.notes.push(format!("max depth per scenario: {:?}", st.depth_hist));
    out.notes.push(format!("RETD lengths: {:?}", st.retd_lens));
    out.write(&args, "From FV Require Import Base.Bytes Run.Frames.\nOpen Scope N_scope.", "fcase", "bad_fcases");
}
