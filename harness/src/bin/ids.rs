//! Identifier family (C15): contract code root, initial state root, contract id, predicate owner.
//!
//! For every case the real fuel-tx / fuel-vm code is run and (a) printed as a Coq term for the
//! Gallina L1 model (coq/Ids/IdsModel.v via coq/Run/Ids.v), which must recompute the same 32
//! bytes, and (b) checked directly against an independent recomputation written here from the
//! property text (implementation-level oracle): own chunking + RFC 6962 `mth` + recursive
//! compact sparse Merkle root + fuel_crypto::Hasher.
//!
//! VM side: a real `Transactor::deploy` on a fresh `MemoryStorage` (which key holds the
//! bytecode), a second deployment of the same transaction, a script executing `CROO` on the
//! deployed contract, and `check_predicates` with a right / wrong predicate owner.
use fuel_vm::checked_transaction::{CheckError, CheckPredicateParams, CheckPredicates, EstimatePredicates, IntoChecked, ParallelExecutor};
use fuel_vm::error::{InterpreterError, PredicateVerificationFailed};
use fuel_vm::fuel_asm::{op, PanicReason, RegId};
use fuel_vm::fuel_storage::StorageInspect;
use fuel_vm::fuel_tx::{
    policies::Policies, Cacheable, Bytes32, ConsensusParameters, Contract, ContractId, Finalizable, Input, Output, Receipt, Salt,
    FormatValidityChecks, StorageSlot, Transaction, TransactionBuilder, TxPointer, UniqueIdentifier, UtxoId, ValidityError, Witness,
};
use fuel_vm::fuel_types::{Address, AssetId, Nonce, Word};
use fuel_vm::interpreter::{InterpreterParams, MemoryInstance, NotSupportedEcal};
use fuel_vm::pool::DummyPool;
use fuel_vm::prelude::{predicates, Create, InterpreterStorage, Script};
use fuel_vm::storage::predicate::EmptyStorage;
use fuel_vm::storage::{ContractsRawCode, MemoryStorage};
use fuel_vm::transactor::Transactor;
use fvh::vmtrace::{run_plain, FinalState, GasSchedule, TxSpec, World};
use fvh::*;
use serde_json::{json, Value};
use std::collections::BTreeMap;
use std::sync::atomic::{AtomicU64, Ordering};
use std::sync::Mutex;

type B32 = [u8; 32];
const AMOUNT: u64 = 1000;

// ------------------------------------------------------------------ independent reference
fn sha(parts: &[&[u8]]) -> B32 {
    let mut h = fuel_crypto::Hasher::default();
    for p in parts {
        h.input(p);
    }
    *h.digest()
}
/// RFC 6962 Merkle tree hash (as in bmt.rs)
fn mth(leaves: &[Vec<u8>]) -> B32 {
    match leaves.len() {
        0 => sha(&[]),
        1 => sha(&[&[0u8], &leaves[0]]),
        n => {
            let mut k = 1usize;
            while k * 2 < n {
                k *= 2;
            }
            sha(&[&[1u8], &mth(&leaves[..k]), &mth(&leaves[k..])])
        }
    }
}
/// the property text: 16 KiB chunks, the final partial chunk zero-padded to a multiple of 8
fn ref_code_leaves(code: &[u8]) -> Vec<Vec<u8>> {
    let mut leaves = vec![];
    let mut i = 0usize;
    while i < code.len() {
        let end = (i + 16 * 1024).min(code.len());
        let mut leaf = code[i..end].to_vec();
        if end == code.len() {
            while leaf.len() % 8 != 0 {
                leaf.push(0);
            }
        }
        leaves.push(leaf);
        i = end;
    }
    leaves
}
fn ref_code_root(code: &[u8]) -> B32 {
    mth(&ref_code_leaves(code))
}
fn bit(k: &B32, i: usize) -> bool {
    (k[i / 8] >> (7 - (i % 8))) & 1 == 1
}
/// compact sparse Merkle root of distinct (key, value) entries, by recursion on the depth
fn ref_smt(entries: &[(B32, Vec<u8>)], depth: usize) -> B32 {
    match entries.len() {
        0 => [0u8; 32],
        1 => sha(&[&[0u8], &entries[0].0, &sha(&[&entries[0].1])]),
        _ => {
            let l: Vec<_> = entries.iter().filter(|e| !bit(&e.0, depth)).cloned().collect();
            let r: Vec<_> = entries.iter().filter(|e| bit(&e.0, depth)).cloned().collect();
            sha(&[&[1u8], &ref_smt(&l, depth + 1), &ref_smt(&r, depth + 1)])
        }
    }
}
fn ref_state_root(slots: &[(B32, B32)]) -> B32 {
    // map { sha256(key) -> value }, a later slot with the same key replaces an earlier one
    let mut m: BTreeMap<B32, Vec<u8>> = BTreeMap::new();
    for (k, v) in slots {
        m.insert(sha(&[k]), v.to_vec());
    }
    let es: Vec<(B32, Vec<u8>)> = m.into_iter().collect();
    ref_smt(&es, 0)
}
fn ref_contract_id(salt: &B32, root: &B32, state_root: &B32) -> B32 {
    sha(&[&[0x46, 0x55, 0x45, 0x4C], salt, root, state_root])
}
fn ref_predicate_owner(code: &[u8]) -> B32 {
    sha(&[&[0x46, 0x55, 0x45, 0x4C], &ref_code_root(code)])
}

// ------------------------------------------------------------------ printers
/// long byte strings as a concatenation of hex literals (a single 100 KB string literal overflows
/// coqc's stack)
fn coq_long(b: &[u8]) -> String {
    if b.len() <= 4096 {
        return coq_bytes(b);
    }
    let parts: Vec<String> = b.chunks(4096).map(|c| format!("hex \"{}\"", hex::encode(c))).collect();
    format!("({})", parts.join(" ++ "))
}
fn coq_slots(s: &[(B32, B32)]) -> String {
    coq_list(&s.iter().map(|(k, v)| coq_pair(&coq_bytes(k), &coq_bytes(v))).collect::<Vec<_>>())
}
fn json_slots(s: &[(B32, B32)]) -> Value {
    json!(s.iter().map(|(k, v)| json!([hexs(k), hexs(v)])).collect::<Vec<_>>())
}
fn slots_from_json(v: &Value) -> Vec<(B32, B32)> {
    v.as_array().map(|a| a.iter().map(|p| (b32(&p[0]), b32(&p[1]))).collect()).unwrap_or_default()
}
fn b32(v: &Value) -> B32 {
    let b = hex::decode(v.as_str().unwrap_or("")).unwrap_or_default();
    let mut o = [0u8; 32];
    for (i, x) in b.iter().take(32).enumerate() {
        o[i] = *x;
    }
    o
}
fn bytes_of(v: &Value) -> Vec<u8> {
    hex::decode(v.as_str().unwrap_or("")).unwrap_or_default()
}
fn to_storage_slots(s: &[(B32, B32)]) -> Vec<StorageSlot> {
    s.iter().map(|(k, v)| StorageSlot::new(Bytes32::from(*k), Bytes32::from(*v))).collect()
}

// ------------------------------------------------------------------ generators
/// A code of a given length with a description the Coq side can regenerate (`gcode kind seed len`
/// of Run/Ids.v): zeros / 0xFF / counter / LCG bytes, so that zero padding is distinguishable
/// from content and long codes need no 100 KB literals.
#[derive(Clone)]
struct Code {
    bytes: Vec<u8>,
    kind: u64,
    seed: u64,
}
fn gen_code(rng: &mut Rng, len: usize) -> Code {
    let kind = match rng.below(5) {
        0 => 0,
        1 => 1,
        2 => 2,
        _ => 3,
    };
    let seed = rng.below(1 << 31);
    let bytes = match kind {
        0 => vec![0u8; len],
        1 => vec![0xFFu8; len],
        2 => (0..len).map(|i| (i % 251) as u8 + 1).collect(),
        _ => {
            let mut x = seed;
            (0..len)
                .map(|_| {
                    x = (x * 1103515245 + 12345) % 2147483648;
                    ((x / 65536) % 256) as u8
                })
                .collect()
        }
    };
    Code { bytes, kind, seed }
}
impl Code {
    fn literal(bytes: Vec<u8>) -> Code {
        Code { bytes, kind: u64::MAX, seed: 0 }
    }
    fn coq(&self) -> String {
        if self.kind == u64::MAX || self.bytes.len() <= 256 {
            coq_long(&self.bytes)
        } else {
            format!("(gcode {} {} {})", self.kind, self.seed, self.bytes.len())
        }
    }
}
fn code_lengths(args: &Args) -> Vec<usize> {
    let mut v: Vec<usize> = (0..=24).collect();
    v.extend(16376..=16392);
    v.extend(32760..=32776);
    for d in [0i64, 1, 7, 8] {
        v.push((3 * 16384 + d) as usize);
        if d != 0 {
            v.push((3 * 16384 - d) as usize);
        }
    }
    if args.thorough() {
        v.extend(25..=80);
        v.extend([4 * 16384 - 1, 4 * 16384, 4 * 16384 + 1, 5 * 16384 + 4, 6 * 16384 - 8, 100 * 1024]);
    }
    v
}
fn gen_salt(rng: &mut Rng) -> B32 {
    match rng.below(6) {
        0 => [0u8; 32],
        1 => [0xFFu8; 32],
        _ => rng.bytes32(),
    }
}
/// slot lists for the direct API: duplicates (same key, different values), unsorted, empty values
fn gen_slots(rng: &mut Rng, max: usize) -> Vec<(B32, B32)> {
    let n = rng.below(max as u64 + 1) as usize;
    let mut pool: Vec<B32> = (0..n.max(1)).map(|_| rng.bytes32()).collect();
    if rng.chance(1, 4) {
        pool.push([0u8; 32]);
        pool.push([0xFFu8; 32]);
        let mut one = [0u8; 32];
        one[31] = 1;
        pool.push(one);
    }
    let mut s = vec![];
    for _ in 0..n {
        let k = *rng.pick(&pool);
        let v = match rng.below(5) {
            0 => [0u8; 32],
            _ => rng.bytes32(),
        };
        s.push((k, v));
    }
    if rng.chance(1, 3) && !s.is_empty() {
        // explicit duplicate key with another value at the end / the start
        let (k, _) = s[rng.below(s.len() as u64) as usize];
        if rng.bool() {
            s.push((k, rng.bytes32()));
        } else {
            s.insert(0, (k, rng.bytes32()));
        }
    }
    if rng.bool() {
        rng.shuffle(&mut s);
    }
    s
}
fn sorted_unique(s: &[(B32, B32)]) -> Vec<(B32, B32)> {
    let mut m: BTreeMap<B32, B32> = BTreeMap::new();
    for (k, v) in s {
        m.insert(*k, *v);
    }
    m.into_iter().collect()
}

// ------------------------------------------------------------------ cases: pure functions
fn code_case(out: &mut Out, rng: &mut Rng, codev: Code, class: &str, with_model: bool) {
    let code = codev.bytes.clone();
    out.oracle_evaluations += 1;
    let res = guarded(|| {
        let root: B32 = *Contract::root_from_code(&code);
        let root2: B32 = *Contract::from(code.clone()).root();
        let owner: B32 = *Input::predicate_owner(&code);
        (root, root2, owner)
    });
    let replay = json!({"kind":"code","code":hexs(&code)});
    let (root, root2, owner) = match res {
        Ok(x) => x,
        Err(p) => {
            out.oracle_fail("code-root-panic", &format!("root_from_code / predicate_owner panicked for a code of {} bytes: {p}", code.len()), replay);
            return;
        }
    };
    let want = ref_code_root(&code);
    if root != want || root2 != want {
        out.oracle_fail("code-root-mismatch", &format!("Contract::root_from_code != MTH of the padded 16 KiB chunks for a code of {} bytes", code.len()), replay.clone());
    }
    if owner != ref_predicate_owner(&code) {
        out.oracle_fail("predicate-owner-mismatch", &format!("Input::predicate_owner != sha256(seed || code root) for a predicate of {} bytes", code.len()), replay.clone());
    }
    // owner validity probe: the right owner, the code root itself (a classic confusion), a one-bit change
    let probe: B32 = match rng.below(4) {
        0 => owner,
        1 => root,
        2 => {
            let mut o = owner;
            o[rng.below(32) as usize] ^= 1 << rng.below(8);
            o
        }
        _ => rng.bytes32(),
    };
    let valid = Input::is_predicate_owner_valid(&Address::from(probe), &code);
    if valid != (probe == ref_predicate_owner(&code)) {
        out.oracle_fail("predicate-owner-check-mismatch", "is_predicate_owner_valid disagrees with owner == sha256(seed || code root)", replay.clone());
    }
    if with_model {
        out.push(Case {
            coq: format!("CCode {} {} {} {} {}", codev.coq(), coq_bytes(&root), coq_bytes(&owner), coq_bytes(&probe), coq_bool(valid)),
            json: json!({"kind":"code","len":code.len(),"root":hexs(&root),"owner":hexs(&owner),"code": if code.len() <= 64 { hexs(&code) } else { format!("{}..", hexs(&code[..32])) }}),
            key: format!("code:{}:{}", code.len(), hexs(&root)),
            nontrivial: !code.is_empty(),
            class: class.to_string(),
        });
    } else {
        out.count(&format!("{class}-oracle-only"));
    }
}

fn state_case(out: &mut Out, slots: Vec<(B32, B32)>, class: &str, with_model: bool) {
    out.oracle_evaluations += 1;
    let ss = to_storage_slots(&slots);
    let replay = json!({"kind":"state","slots":json_slots(&slots)});
    let root: B32 = match guarded(|| *Contract::initial_state_root(ss.iter())) {
        Ok(r) => r,
        Err(p) => {
            out.oracle_fail("state-root-panic", &format!("initial_state_root panicked: {p}"), replay);
            return;
        }
    };
    if root != ref_state_root(&slots) {
        out.oracle_fail("state-root-mismatch", &format!("initial_state_root != compact sparse Merkle root of {{sha256(key) -> value}} for {} slots", slots.len()), replay.clone());
    }
    if slots.is_empty() && root != *Contract::default_state_root() {
        out.oracle_fail("default-state-root-mismatch", "default_state_root != initial_state_root([])", replay.clone());
    }
    if with_model {
        let distinct = sorted_unique(&slots).len();
        out.push(Case {
            coq: format!("CState {} {}", coq_slots(&slots), coq_bytes(&root)),
            json: json!({"kind":"state","n":slots.len(),"distinct_keys":distinct,"root":hexs(&root),"slots":json_slots(&slots)}),
            key: format!("state:{}", hexs(&root)),
            nontrivial: distinct >= 2,
            class: class.to_string(),
        });
    }
}

fn id_case(out: &mut Out, salt: B32, root: B32, sroot: B32, class: &str) {
    out.oracle_evaluations += 1;
    let id: B32 = *Contract::id(&Salt::from(salt), &Bytes32::from(root), &Bytes32::from(sroot));
    if id != ref_contract_id(&salt, &root, &sroot) {
        out.oracle_fail("contract-id-mismatch", "Contract::id != sha256(seed || salt || code root || state root)",
            json!({"kind":"id","salt":hexs(&salt),"root":hexs(&root),"state_root":hexs(&sroot)}));
    }
    out.push(Case {
        coq: format!("CId {} {} {} {}", coq_bytes(&salt), coq_bytes(&root), coq_bytes(&sroot), coq_bytes(&id)),
        json: json!({"kind":"id","salt":hexs(&salt),"root":hexs(&root),"state_root":hexs(&sroot),"id":hexs(&id)}),
        key: format!("id:{}", hexs(&id)),
        nontrivial: true,
        class: class.to_string(),
    });
}

// ------------------------------------------------------------------ Create transactions
fn predicate_true() -> Vec<u8> {
    vec![op::ret(RegId::ONE)].into_iter().collect()
}
fn fee_input() -> Input {
    let p = predicate_true();
    Input::coin_predicate(Default::default(), Input::predicate_owner(&p), AMOUNT, AssetId::BASE, Default::default(), Default::default(), p, vec![])
}
fn build_create(salt: &B32, code: &[u8], slots: &[(B32, B32)], created: &[(B32, B32)]) -> Create {
    let mut outputs: Vec<Output> = created.iter().map(|(id, sr)| Output::contract_created(ContractId::from(*id), Bytes32::from(*sr))).collect();
    outputs.push(Output::change(Address::zeroed(), 0, AssetId::BASE));
    Transaction::create(0, Policies::new().with_max_fee(AMOUNT), Salt::from(*salt), to_storage_slots(slots), vec![fee_input()], outputs, vec![Witness::from(code.to_vec())])
}

/// which ContractCreated outputs are put into the transaction
#[derive(Clone, Copy, Debug)]
enum CreatedKind {
    Right,
    WrongId,
    WrongStateRoot,
    Twice,
    Missing,
    RootAsId,
}

fn create_case(out: &mut Out, rng: &mut Rng, salt: B32, codev: Code, slots: Vec<(B32, B32)>, kind: CreatedKind, class: &str) {
    let code = codev.bytes.clone();
    out.oracle_evaluations += 1;
    let want_root = ref_code_root(&code);
    let want_sroot = ref_state_root(&slots);
    let want_id = ref_contract_id(&salt, &want_root, &want_sroot);
    let created: Vec<(B32, B32)> = match kind {
        CreatedKind::Right => vec![(want_id, want_sroot)],
        CreatedKind::WrongId => {
            let mut i = want_id;
            i[rng.below(32) as usize] ^= 0x10;
            vec![(i, want_sroot)]
        }
        CreatedKind::WrongStateRoot => vec![(want_id, rng.bytes32())],
        CreatedKind::Twice => vec![(want_id, want_sroot), (want_id, want_sroot)],
        CreatedKind::Missing => vec![],
        CreatedKind::RootAsId => vec![(want_root, want_sroot)],
    };
    let replay = json!({"kind":"create","salt":hexs(&salt),"code":hexs(&code),"slots":json_slots(&slots),
                        "created": json!(created.iter().map(|(a,b)| json!([hexs(a),hexs(b)])).collect::<Vec<_>>())});
    let tx = build_create(&salt, &code, &slots, &created);
    let params = ConsensusParameters::standard();
    let res = guarded(|| {
        let mut t = tx.clone();
        t.precompute(&params.chain_id()).map_err(|e| format!("{e:?}"))?;
        let md = t.metadata().clone().ok_or_else(|| "no metadata".to_string())?;
        let verdict = tx.clone().into_checked_basic(1u32.into(), &params).map(|_| ()).map_err(|e| format!("{e:?}"));
        Ok::<_, String>((*md.body.contract_id, *md.body.contract_root, *md.body.state_root, verdict))
    });
    let (md_id, md_root, md_sroot, verdict) = match res {
        Ok(Ok(x)) => x,
        Ok(Err(e)) => {
            out.notes.push(format!("create case skipped: {e}"));
            return;
        }
        Err(p) => {
            out.oracle_fail("create-metadata-panic", &format!("CreateMetadata::compute panicked: {p}"), replay);
            return;
        }
    };
    if md_id != want_id || md_root != want_root || md_sroot != want_sroot {
        out.oracle_fail("create-metadata-mismatch", "CreateMetadata (contract id / code root / state root) differs from the specification values", replay.clone());
    }
    // the verdict of the ContractCreated rule; any other rejection makes the case unusable
    let created_ok = match &verdict {
        Ok(()) => true,
        Err(e) if e.contains("TransactionCreateOutputContractCreatedDoesntMatch") || e.contains("TransactionCreateOutputContractCreatedMultiple")
            || e.contains("TransactionOutputDoesntContainContractCreated") => false,
        Err(e) => {
            out.notes.push(format!("create case rejected by another rule: {e}"));
            return;
        }
    };
    let expect_ok = matches!(kind, CreatedKind::Right);
    if created_ok != expect_ok {
        out.oracle_fail("create-output-rule", &format!("Create check verdict {:?} for ContractCreated outputs of kind {:?}", verdict, kind), replay.clone());
    }
    out.push(Case {
        coq: format!("CCreate {} {} {} {} {} {} {} {}", coq_bytes(&salt), codev.coq(), coq_slots(&slots), coq_slots(&created),
                     coq_bytes(&md_id), coq_bytes(&md_root), coq_bytes(&md_sroot), coq_bool(created_ok)),
        json: json!({"kind":"create","code_len":code.len(),"slots":slots.len(),"created_kind":format!("{kind:?}"),"id":hexs(&md_id),"accepted":created_ok}),
        key: format!("create:{}:{:?}", hexs(&md_id), kind),
        nontrivial: !code.is_empty() || !slots.is_empty(),
        class: class.to_string(),
    });
}

// ------------------------------------------------------------------ VM side
fn vm_case(out: &mut Out, salt: B32, codev: Code, slots_in: Vec<(B32, B32)>, class: &str, with_model: bool) {
    let code = codev.bytes.clone();
    out.oracle_evaluations += 1;
    let slots = sorted_unique(&slots_in);
    let want_root = ref_code_root(&code);
    let want_sroot = ref_state_root(&slots);
    let want_id = ref_contract_id(&salt, &want_root, &want_sroot);
    let replay = json!({"kind":"vm","salt":hexs(&salt),"code":hexs(&code),"slots":json_slots(&slots)});
    let params = ConsensusParameters::standard();
    let tx = build_create(&salt, &code, &slots, &[(want_id, want_sroot)]);
    let checked = match guarded(|| tx.clone().into_checked_basic(1u32.into(), &params)) {
        Ok(Ok(c)) => c,
        Ok(Err(e)) => {
            out.oracle_fail("create-rejected", &format!("a Create naming the specification id / state root in ContractCreated is rejected: {e:?}"), replay);
            return;
        }
        Err(p) => {
            out.oracle_fail("create-check-panic", &format!("into_checked_basic panicked: {p}"), replay);
            return;
        }
    };
    let mut world = World::new(GasSchedule::Default, 1, vec![AssetId::BASE]);
    // 1. real deployment
    let first = guarded(|| {
        let mut t = Transactor::<MemoryInstance, &mut MemoryStorage, Script>::new(MemoryInstance::new(), &mut world.storage, InterpreterParams::default());
        t.deploy(checked.clone()).map(|_| ()).map_err(|e| format!("{e:?}"))
    });
    match first {
        Ok(Ok(())) => {}
        Ok(Err(e)) => {
            out.oracle_fail("deploy-failed", &format!("Transactor::deploy of a checked Create failed: {e}"), replay);
            return;
        }
        Err(p) => {
            out.oracle_fail("deploy-panic", &format!("Transactor::deploy panicked: {p}"), replay);
            return;
        }
    }
    // where did the bytecode go?  the expected id must hold exactly the code
    let stored = <MemoryStorage as StorageInspect<ContractsRawCode>>::get(&world.storage, &ContractId::from(want_id)).ok().flatten().map(|c| c.as_ref().as_ref().to_vec());
    let stored_id: B32 = if stored.as_deref() == Some(&code[..]) {
        want_id
    } else {
        out.oracle_fail("deploy-wrong-id", "after deploy, ContractsRawCode[specification id] does not hold the bytecode", replay.clone());
        [0u8; 32]
    };
    for (k, v) in &slots {
        let got = world.storage.contract_state(&ContractId::from(want_id), &Bytes32::from(*k)).ok().flatten().map(|d| d.as_ref().as_ref().to_vec());
        if got.as_deref() != Some(&v[..]) {
            out.oracle_fail("deploy-slot-missing", "after deploy, a storage slot of the Create is not stored under the specification id", replay.clone());
            break;
        }
    }
    // 2. the same transaction again
    let second = guarded(|| {
        let mut t = Transactor::<MemoryInstance, &mut MemoryStorage, Script>::new(MemoryInstance::new(), &mut world.storage, InterpreterParams::default());
        t.deploy(checked.clone()).map(|_| ())
    });
    let second_code: u64 = match second {
        Ok(Ok(())) => 0,
        Ok(Err(InterpreterError::Panic(PanicReason::ContractIdAlreadyDeployed))) => 1,
        Ok(Err(e)) => {
            out.oracle_fail("redeploy-other-error", &format!("second deployment failed with {e:?}"), replay.clone());
            2
        }
        Err(p) => {
            out.oracle_fail("deploy-panic", &format!("second deploy panicked: {p}"), replay.clone());
            2
        }
    };
    if second_code == 0 {
        out.oracle_fail("redeploy-accepted", "the same Create was deployed twice", replay.clone());
    }
    // 3. CROO on the deployed contract, from a script
    let script: Vec<u8> = vec![
        op::gtf_args(0x10, RegId::ZERO, fuel_vm::fuel_asm::GTFArgs::ScriptData),
        op::movi(0x11, 32),
        op::aloc(0x11),
        op::croo(RegId::HP, 0x10),
        op::logd(RegId::ZERO, RegId::ZERO, RegId::HP, 0x11),
        op::ret(RegId::ONE),
    ]
    .into_iter()
    .collect();
    let mut spec = TxSpec::new(script, want_id.to_vec(), 10_000_000);
    spec.contract_inputs.push(ContractId::from(want_id));
    let croo: Option<B32> = match guarded(|| run_plain(&world, &spec)) {
        Ok(Ok(run)) => {
            let data = run.receipts.iter().find_map(|r| match r {
                Receipt::LogData { data, .. } => data.clone(),
                _ => None,
            });
            match (&run.final_state, data) {
                (FinalState::Return(1), Some(d)) if d.len() == 32 => {
                    let mut o = [0u8; 32];
                    o.copy_from_slice(&d);
                    Some(o)
                }
                (st, _) => {
                    out.oracle_fail("croo-script-failed", &format!("the CROO script ended in {st:?}"), replay.clone());
                    None
                }
            }
        }
        Ok(Err(e)) => {
            out.oracle_fail("croo-script-failed", &format!("the CROO script could not be built: {e}"), replay.clone());
            None
        }
        Err(p) => {
            out.oracle_fail("croo-panic", &format!("the CROO script panicked the host: {p}"), replay.clone());
            None
        }
    };
    if let Some(r) = croo {
        if r != want_root {
            out.oracle_fail("croo-mismatch", &format!("CROO wrote a value different from the specification code root for a code of {} bytes", code.len()), replay.clone());
        }
    }
    if with_model {
        out.push(Case {
            coq: format!("CVm {} {} {} {} {} {}", coq_bytes(&salt), codev.coq(), coq_slots(&slots), coq_bytes(&stored_id), second_code,
                         coq_opt(croo.map(|r| coq_bytes(&r)))),
            json: json!({"kind":"vm","code_len":code.len(),"slots":slots.len(),"id":hexs(&stored_id),"second":second_code,"croo":croo.map(|r| hexs(&r))}),
            key: format!("vm:{}", hexs(&stored_id)),
            nontrivial: !code.is_empty(),
            class: class.to_string(),
        });
    }
}

/// predicate-owner validation inside the VM's `check_predicates`: a predicate `ret 1` followed by
/// `tail` (never executed), owned by the right / a wrong address.  Oracle only (the gating logic
/// of check_predicates is modelled under property C20).
fn predicate_vm_case(out: &mut Out, rng: &mut Rng, tail: Vec<u8>) {
    out.oracle_evaluations += 1;
    let mut code = predicate_true();
    code.extend_from_slice(&tail);
    let right: B32 = ref_predicate_owner(&code);
    let which = rng.below(3);
    let owner: B32 = match which {
        0 => right,
        1 => ref_code_root(&code),
        _ => {
            let mut o = right;
            o[31] ^= 1;
            o
        }
    };
    let replay = json!({"kind":"predicate","code":hexs(&code),"owner":hexs(&owner)});
    let params = ConsensusParameters::standard();
    let res = guarded(|| {
        let mut b = TransactionBuilder::script(vec![op::ret(RegId::ONE)].into_iter().collect(), vec![]);
        b.with_params(params.clone());
        b.script_gas_limit(10_000).max_fee_limit(0);
        b.add_input(Input::coin_predicate(Default::default(), Address::from(owner), AMOUNT, AssetId::BASE, Default::default(), 0, code.clone(), vec![]));
        b.add_output(Output::change(Address::zeroed(), 0, AssetId::BASE));
        let mut tx: Script = b.finalize();
        let cpp: CheckPredicateParams = (&params).into();
        tx.estimate_predicates(&cpp, MemoryInstance::new(), &EmptyStorage).map_err(|e| format!("estimate: {e:?}"))?;
        let checked = tx.into_checked_basic(1u32.into(), &params).map_err(|e| format!("basic: {e:?}"))?;
        Ok::<_, String>(match checked.check_predicates(&cpp, MemoryInstance::new(), &EmptyStorage, NotSupportedEcal) {
            Ok(_) => 0u8,
            Err(fuel_vm::checked_transaction::CheckError::PredicateVerificationFailed(PredicateVerificationFailed::InvalidOwner { index: 0 })) => 1,
            Err(_) => 2,
        })
    });
    match res {
        Ok(Ok(v)) => {
            let want = if owner == right { 0 } else { 1 };
            if v != want {
                out.oracle_fail("check-predicates-owner", &format!("check_predicates verdict {v} (0 ok, 1 InvalidOwner, 2 other) but owner {} sha256(seed || code root)", if want == 0 { "==" } else { "!=" }), replay);
            } else {
                out.count(if want == 0 { "vm-predicate-owner-accepted" } else { "vm-predicate-owner-rejected" });
            }
        }
        Ok(Err(e)) => out.notes.push(format!("predicate vm case skipped: {e}")),
        Err(p) => out.oracle_fail("check-predicates-panic", &format!("check_predicates panicked: {p}"), replay),
    }
    // and the signature-stage check of the same rule
    let inp = Input::coin_predicate(Default::default(), Address::from(owner), AMOUNT, AssetId::BASE, Default::default(), 0, code.clone(), vec![]);
    let r = inp.check_signature(0, &Bytes32::zeroed(), &[], &mut None);
    let rejected = matches!(r, Err(ValidityError::InputPredicateOwner { index: 0 }));
    if rejected == (owner == right) {
        out.oracle_fail("check-signature-predicate-owner", "Input::check_signature verdict on a predicate input disagrees with owner == sha256(seed || code root)",
            json!({"kind":"predicate","code":hexs(&code),"owner":hexs(&owner)}));
    }
}

// ------------------------------------------------------------------ predicate owner through EVERY entry point
static SHUFFLE_SEED: AtomicU64 = AtomicU64::new(0);
static LAST_ORDER: Mutex<Vec<usize>> = Mutex::new(Vec::new());

/// Runs the tasks on tokio's blocking pool and delivers the results in a seeded random order
/// (a copy of the executor of auth.rs; binaries do not share files).
struct ShuffleExec;
impl ParallelExecutor for ShuffleExec {
    type Task = tokio::task::JoinHandle<(usize, Result<Word, PredicateVerificationFailed>)>;

    fn create_task<F>(func: F) -> Self::Task
    where
        F: FnOnce() -> (usize, Result<Word, PredicateVerificationFailed>) + Send + 'static,
    {
        tokio::task::spawn_blocking(func)
    }

    fn execute_tasks<'async_trait>(
        futures: Vec<Self::Task>,
    ) -> core::pin::Pin<Box<dyn core::future::Future<Output = Vec<(usize, Result<Word, PredicateVerificationFailed>)>> + Send + 'async_trait>> {
        Box::pin(async move {
            let mut res = vec![];
            for f in futures {
                res.push(Some(f.await.expect("predicate task panicked")));
            }
            let mut order: Vec<usize> = (0..res.len()).collect();
            let mut rng = Rng::new(SHUFFLE_SEED.load(Ordering::SeqCst));
            rng.shuffle(&mut order);
            let delivered = order.iter().map(|&k| res[k].take().unwrap()).collect();
            *LAST_ORDER.lock().unwrap() = order;
            delivered
        })
    }
}

/// verdict of one entry point with respect to predicate ownership
#[derive(Clone, Debug, PartialEq)]
enum OwnerVerdict {
    Accepted,
    /// rejected because of the owner of the predicate input at this index
    /// (PredicateVerificationFailed::InvalidOwner / ValidityError::InputPredicateOwner)
    Owner(usize),
    Other(String),
}
impl OwnerVerdict {
    fn coq(&self) -> String {
        match self {
            OwnerVerdict::Accepted => "None".into(),
            OwnerVerdict::Owner(i) => format!("(Some {i})"),
            OwnerVerdict::Other(_) => "None".into(),
        }
    }
}
fn ov_pred<T>(r: Result<T, PredicateVerificationFailed>) -> OwnerVerdict {
    match r {
        Ok(_) => OwnerVerdict::Accepted,
        Err(PredicateVerificationFailed::InvalidOwner { index }) => OwnerVerdict::Owner(index),
        Err(e) => OwnerVerdict::Other(format!("{e:?}")),
    }
}
fn ov_check<T>(r: Result<T, CheckError>) -> OwnerVerdict {
    match r {
        Ok(_) => OwnerVerdict::Accepted,
        Err(CheckError::PredicateVerificationFailed(PredicateVerificationFailed::InvalidOwner { index })) => OwnerVerdict::Owner(index),
        Err(CheckError::Validity(ValidityError::InputPredicateOwner { index })) => OwnerVerdict::Owner(index),
        Err(e) => OwnerVerdict::Other(format!("{e:?}")),
    }
}
fn ov_validity(r: Result<(), ValidityError>) -> OwnerVerdict {
    match r {
        Ok(()) => OwnerVerdict::Accepted,
        Err(ValidityError::InputPredicateOwner { index }) => OwnerVerdict::Owner(index),
        Err(e) => OwnerVerdict::Other(format!("{e:?}")),
    }
}

#[derive(Clone, Copy, Debug, PartialEq)]
enum OwnerKind {
    Right,
    Foreign,
    FlippedBit,
    /// the code root itself, without the seed
    BareCodeRoot,
    /// the (right) owner of ANOTHER predicate of the same transaction
    OtherPredicate,
}

/// One transaction with 1..3 predicate inputs (Coin / MessageCoin / MessageData), optionally
/// behind a contract input, each `ret 1 ++ tail`; every public entry point that is supposed
/// to validate predicate ownership is run on it.  Expected everywhere: rejected exactly when
/// some owner != sha256(seed || code root), naming the first such input (any such input for a
/// shuffled parallel delivery).
fn owner_paths_case(out: &mut Out, rt: &tokio::runtime::Runtime, case_seed: u64, with_model: bool) {
    let mut rng = Rng::new(case_seed);
    let replay = json!({"kind":"owners","case_seed":case_seed});
    let params = ConsensusParameters::standard();
    let cpp: CheckPredicateParams = (&params).into();
    let n = 1 + rng.below(3) as usize;
    let lead_contract = rng.chance(1, 4);
    // distinct codes
    let codes: Vec<Vec<u8>> = (0..n)
        .map(|j| {
            let mut c = predicate_true();
            let tail_len = *rng.pick(&[0usize, 0, 3, 4, 8, 12, 40, 100, 16381]);
            let mut tail = gen_code(&mut rng, tail_len).bytes;
            tail.push(j as u8 + 1);
            c.extend(tail);
            c
        })
        .collect();
    let all_right = rng.chance(1, 4);
    let kinds: Vec<OwnerKind> = (0..n)
        .map(|_| {
            if all_right {
                OwnerKind::Right
            } else {
                *rng.pick(&[OwnerKind::Right, OwnerKind::Foreign, OwnerKind::FlippedBit, OwnerKind::BareCodeRoot, OwnerKind::OtherPredicate])
            }
        })
        .collect();
    let mut inputs: Vec<Input> = vec![];
    if lead_contract {
        inputs.push(Input::contract(UtxoId::new(rng.bytes32().into(), 0), Bytes32::zeroed(), Bytes32::zeroed(), TxPointer::default(), ContractId::from(rng.bytes32())));
    }
    let mut abstract_inputs: Vec<Option<(B32, Vec<u8>)>> = inputs.iter().map(|_| None).collect();
    let mut desc = vec![];
    for j in 0..n {
        let right = ref_predicate_owner(&codes[j]);
        let (kind, owner): (OwnerKind, B32) = match kinds[j] {
            OwnerKind::Right => (OwnerKind::Right, right),
            OwnerKind::Foreign => (OwnerKind::Foreign, rng.bytes32()),
            OwnerKind::FlippedBit => {
                let mut o = right;
                o[rng.below(32) as usize] ^= 1 << rng.below(8);
                (OwnerKind::FlippedBit, o)
            }
            OwnerKind::BareCodeRoot => (OwnerKind::BareCodeRoot, ref_code_root(&codes[j])),
            OwnerKind::OtherPredicate if n >= 2 => (OwnerKind::OtherPredicate, ref_predicate_owner(&codes[(j + 1) % n])),
            OwnerKind::OtherPredicate => (OwnerKind::Foreign, rng.bytes32()),
        };
        // input kind: the first predicate is spendable (coin / message coin), the others any of the three
        let ik = if j == 0 { rng.below(2) } else { rng.below(3) };
        let o = Address::from(owner);
        let input = match ik {
            0 => Input::coin_predicate(UtxoId::new(rng.bytes32().into(), j as u16), o, AMOUNT, AssetId::BASE, TxPointer::default(), 0, codes[j].clone(), vec![]),
            1 => Input::message_coin_predicate(Address::from(rng.bytes32()), o, AMOUNT, Nonce::from(rng.bytes32()), 0, codes[j].clone(), vec![]),
            _ => Input::message_data_predicate(Address::from(rng.bytes32()), o, AMOUNT, Nonce::from(rng.bytes32()), 0, vec![1, 2, 3], codes[j].clone(), vec![]),
        };
        let ik_name = ["coin", "message-coin", "message-data"][ik as usize];
        desc.push(json!({"input":ik_name,"owner":format!("{kind:?}"),"code_len":codes[j].len()}));
        inputs.push(input);
        abstract_inputs.push(Some((owner, codes[j].clone())));
    }
    let mut outputs = vec![];
    if lead_contract {
        outputs.push(Output::contract(0, Bytes32::zeroed(), Bytes32::zeroed()));
    }
    outputs.push(Output::change(Address::zeroed(), 0, AssetId::BASE));
    let tx0: Script = Transaction::script(10_000, predicate_true(), vec![], Policies::new().with_max_fee(0), inputs, outputs, vec![]);
    // reference: the inputs whose owner is not the specification's predicate owner
    let wrong: Vec<usize> = abstract_inputs.iter().enumerate().filter_map(|(i, a)| a.as_ref().and_then(|(o, c)| if *o != ref_predicate_owner(c) { Some(i) } else { None })).collect();
    let want = match wrong.first() {
        None => OwnerVerdict::Accepted,
        Some(i) => OwnerVerdict::Owner(*i),
    };
    out.oracle_evaluations += 1;

    // ---- estimation (sequential and parallel).  Reference: estimation computes gas and does
    // NOT validate ownership (check_predicate compares the owner only when verifying), so its
    // verdict is recorded, not judged; the two estimations must write the same gas.
    let mut t_seq = tx0.clone();
    let e_seq = guarded(|| ov_pred(predicates::estimate_predicates(&mut t_seq, &cpp, MemoryInstance::new(), &EmptyStorage, NotSupportedEcal)));
    let mut t_par = tx0.clone();
    SHUFFLE_SEED.store(rng.next(), Ordering::SeqCst);
    let e_par = guarded(|| rt.block_on(async { ov_pred(predicates::estimate_predicates_async::<Script, NotSupportedEcal, ShuffleExec>(&mut t_par, &cpp, &DummyPool, &EmptyStorage, NotSupportedEcal).await) }));
    let mut t_trait = tx0.clone();
    let e_trait = guarded(|| ov_check(t_trait.estimate_predicates(&cpp, MemoryInstance::new(), &EmptyStorage)));
    for (name, e) in [("estimate_predicates", &e_seq), ("estimate_predicates_async", &e_par), ("EstimatePredicates::estimate_predicates", &e_trait)] {
        match e {
            Ok(OwnerVerdict::Accepted) => out.count(if wrong.is_empty() { "estimation-right-owners-ok" } else { "estimation-accepts-wrong-owner(by design: ownership is checked only when verifying)" }),
            Ok(OwnerVerdict::Owner(_)) => out.count("estimation-rejects-wrong-owner"),
            Ok(OwnerVerdict::Other(x)) => out.oracle_fail("estimate-fails-on-true-predicates", &format!("{name} failed with {x} on always-true predicates"), replay.clone()),
            Err(p) => out.oracle_fail("estimate-predicates-panic", &format!("{name} panicked: {p}"), replay.clone()),
        }
    }
    let gas = |t: &Script| -> Vec<u64> { fuel_vm::fuel_tx::field::Inputs::inputs(t).iter().map(|i| i.predicate_gas_used().unwrap_or(0)).collect() };
    if e_seq == Ok(OwnerVerdict::Accepted) && e_par == Ok(OwnerVerdict::Accepted) && (gas(&t_seq) != gas(&t_par) || gas(&t_seq) != gas(&t_trait)) {
        out.oracle_fail("estimate-seq-par-gas", &format!("sequential and parallel estimation wrote different gas: {:?} vs {:?} vs {:?}", gas(&t_seq), gas(&t_par), gas(&t_trait)), replay.clone());
    }
    if e_seq != Ok(OwnerVerdict::Accepted) {
        // no estimated transaction to continue with (only possible if estimation validates owners)
        out.notes.push("owners case: estimation did not succeed; verification paths run on the sequentially estimated copy anyway".into());
    }
    let tx = t_seq;
    let id = tx.id(&params.chain_id());
    let ins = fuel_vm::fuel_tx::field::Inputs::inputs(&tx).to_vec();

    let judge = |out: &mut Out, path: &str, class_path: &str, got: Result<OwnerVerdict, String>, any_wrong_index: bool| -> Option<OwnerVerdict> {
        match got {
            Err(p) => {
                out.oracle_fail(&format!("predicate-owner-panic-on-{class_path}"), &format!("{path} panicked: {p}"), replay.clone());
                None
            }
            Ok(v) => {
                let ok = match (&v, &want) {
                    (OwnerVerdict::Accepted, OwnerVerdict::Accepted) => true,
                    (OwnerVerdict::Owner(i), OwnerVerdict::Owner(w)) => i == w || (any_wrong_index && wrong.contains(i)),
                    _ => false,
                };
                if !ok {
                    let class = match (&v, &want) {
                        (OwnerVerdict::Accepted, OwnerVerdict::Owner(_)) => format!("predicate-owner-not-checked-on-{class_path}"),
                        (OwnerVerdict::Owner(_), OwnerVerdict::Accepted) => format!("predicate-owner-rejected-although-right-on-{class_path}"),
                        (OwnerVerdict::Owner(_), OwnerVerdict::Owner(_)) => format!("predicate-owner-wrong-index-on-{class_path}"),
                        _ => format!("predicate-owner-other-error-on-{class_path}"),
                    };
                    out.oracle_fail(&class, &format!("{path}: got {v:?}, but the inputs whose owner != sha256(seed || code root) are {wrong:?} (expected {want:?})"), replay.clone());
                }
                Some(v)
            }
        }
    };

    // ---- 1. Input-level: is_predicate_owner_valid and check_signature on every input
    for (i, a) in abstract_inputs.iter().enumerate() {
        if let Some((o, c)) = a {
            let valid = Input::is_predicate_owner_valid(&Address::from(*o), c);
            if valid == wrong.contains(&i) {
                out.oracle_fail("predicate-owner-not-checked-on-is-predicate-owner-valid-path", &format!("is_predicate_owner_valid = {valid} for input {i}"), replay.clone());
            }
            let r = ov_validity(ins[i].check_signature(i, &id, &[], &mut None));
            let expect = if wrong.contains(&i) { OwnerVerdict::Owner(i) } else { OwnerVerdict::Accepted };
            if r != expect {
                out.oracle_fail("predicate-owner-not-checked-on-input-check-signature-path", &format!("Input::check_signature on input {i}: {r:?}, expected {expect:?}"), replay.clone());
            }
        }
    }
    // ---- 2. transaction-level signature stage
    let v_sig = judge(out, "Script::check_signatures", "check-signatures-path", guarded(|| ov_validity(tx.check_signatures(&params.chain_id()))), false);
    // ---- 3. basic checking must not care; then the predicate stage through every entry point
    let checked = match guarded(|| tx.clone().into_checked_basic(1u32.into(), &params)) {
        Ok(Ok(c)) => c,
        Ok(Err(e)) => {
            out.notes.push(format!("owners case skipped after the signature stage: into_checked_basic: {e:?}"));
            return;
        }
        Err(p) => {
            out.oracle_fail("create-check-panic", &format!("into_checked_basic panicked: {p}"), replay.clone());
            return;
        }
    };
    let v_seq = judge(out, "predicates::check_predicates", "sequential-path",
        guarded(|| ov_pred(predicates::check_predicates(&checked, &cpp, MemoryInstance::new(), &EmptyStorage, NotSupportedEcal))), false);
    let mut par_verdicts = vec![];
    for _ in 0..2 {
        SHUFFLE_SEED.store(rng.next(), Ordering::SeqCst);
        let v = judge(out, "predicates::check_predicates_async (shuffled delivery)", "async-path",
            guarded(|| rt.block_on(async { ov_pred(predicates::check_predicates_async::<Script, NotSupportedEcal, ShuffleExec>(&checked, &cpp, &DummyPool, &EmptyStorage, NotSupportedEcal).await) })), true);
        par_verdicts.push(v);
    }
    let _ = judge(out, "Checked::check_predicates", "checked-sequential-path",
        guarded(|| ov_check(checked.clone().check_predicates(&cpp, MemoryInstance::new(), &EmptyStorage, NotSupportedEcal))), false);
    SHUFFLE_SEED.store(rng.next(), Ordering::SeqCst);
    let _ = judge(out, "Checked::check_predicates_async (shuffled delivery)", "checked-async-path",
        guarded(|| rt.block_on(async { ov_check(checked.clone().check_predicates_async::<NotSupportedEcal, ShuffleExec>(&cpp, &DummyPool, &EmptyStorage, NotSupportedEcal).await) })), true);
    // ---- 4. the one-call entry points
    let v_full = judge(out, "IntoChecked::into_checked", "into-checked-path", guarded(|| ov_check(tx.clone().into_checked(1u32.into(), &params))), false);
    let _ = judge(out, "IntoChecked::into_checked_reusable_memory", "into-checked-reusable-memory-path",
        guarded(|| ov_check(tx.clone().into_checked_reusable_memory(1u32.into(), &params, MemoryInstance::new(), &EmptyStorage))), false);
    let _ = judge(out, "Transaction::into_checked", "transaction-into-checked-path",
        guarded(|| ov_check(Transaction::from(tx.clone()).into_checked(1u32.into(), &params))), false);

    // ---- the model case: validity of every (owner, code) pair decides all verdicts
    if let (true, Some(sg), Some(sq), Some(Some(p1)), Some(Some(p2)), Some(fl)) = (with_model, v_sig, v_seq, par_verdicts.first().cloned(), par_verdicts.get(1).cloned(), v_full) {
        if [&sg, &sq, &p1, &p2, &fl].iter().any(|v| matches!(v, OwnerVerdict::Other(_))) {
            return;
        }
        let coq_ins = coq_list(&abstract_inputs.iter().map(|a| coq_opt(a.as_ref().map(|(o, c)| coq_pair(&coq_bytes(o), &coq_long(c))))).collect::<Vec<_>>());
        out.push(Case {
            coq: format!("COwners {} {} {} {} {} {}", coq_ins, sg.coq(), sq.coq(), p1.coq(), p2.coq(), fl.coq()),
            json: json!({"kind":"owners","inputs":desc,"lead_contract":lead_contract,"wrong":wrong,"check_signatures":format!("{sg:?}"),"sequential":format!("{sq:?}"),
                         "parallel":[format!("{p1:?}"),format!("{p2:?}")],"into_checked":format!("{fl:?}"),"replay":replay}),
            key: format!("owners:{}:{:?}", hexs(&*id), wrong),
            nontrivial: !wrong.is_empty() || n >= 2,
            class: if wrong.is_empty() { "owners-all-right".into() } else { "owners-some-wrong".into() },
        });
    }
}

// ------------------------------------------------------------------ driver
fn replay(args: &Args, out: &mut Out, path: &str) {
    let v = read_replay(path);
    let mut rng = Rng::new(args.seed);
    match v["kind"].as_str().unwrap_or("") {
        "code" => code_case(out, &mut rng, Code::literal(bytes_of(&v["code"])), "replay", true),
        "state" => state_case(out, slots_from_json(&v["slots"]), "replay", true),
        "id" => id_case(out, b32(&v["salt"]), b32(&v["root"]), b32(&v["state_root"]), "replay"),
        "create" => create_case(out, &mut rng, b32(&v["salt"]), Code::literal(bytes_of(&v["code"])), slots_from_json(&v["slots"]), CreatedKind::Right, "replay"),
        "vm" => vm_case(out, b32(&v["salt"]), Code::literal(bytes_of(&v["code"])), slots_from_json(&v["slots"]), "replay", true),
        "owners" => {
            let rt = tokio::runtime::Builder::new_multi_thread().worker_threads(4).enable_all().build().expect("tokio runtime");
            owner_paths_case(out, &rt, v["case_seed"].as_u64().unwrap_or(0), true)
        }
        "predicate" => predicate_vm_case(out, &mut rng, bytes_of(&v["code"]).get(4..).map(|x| x.to_vec()).unwrap_or_default()),
        k => eprintln!("ids: unknown replay kind {k}"),
    }
}

fn run_c15(args: &Args, out: &mut Out) {
    let mut rng = Rng::new(args.seed);
    if let Some(p) = &args.replay {
        replay(args, out, p);
        return;
    }
    let model = !args.oracle_only;
    // ---- code roots and predicate owners at the boundary lengths
    for len in code_lengths(args) {
        let code = gen_code(&mut rng, len);
        let class = if len <= 24 { "code-small" } else if len < 16384 + 16 { "code-one-chunk-boundary" } else if len < 2 * 16384 + 16 { "code-two-chunk-boundary" } else { "code-three-chunk-boundary" };
        code_case(out, &mut rng, code, class, model);
    }
    // oracle volume: random lengths, biased to chunk and word boundaries (model not run)
    for _ in 0..args.scale(150, 3000) {
        let len = match rng.below(6) {
            0 => rng.range(0, 200) as usize,
            1 => (rng.range(1, 6) * 16384) as usize + rng.range(0, 16) as usize - 8,
            2 => (rng.range(0, 2000) * 8) as usize,
            3 => (rng.range(0, 6) * 16384) as usize + rng.range(0, 16383) as usize,
            _ => rng.range(0, 40_000) as usize,
        };
        let code = gen_code(&mut rng, len);
        code_case(out, &mut rng, code, "code-random", false);
    }
    // ---- state roots
    state_case(out, vec![], "state-empty", model);
    for i in 0..args.scale(24, 200) {
        let max = if i % 6 == 5 { 40 } else { 8 };
        state_case(out, gen_slots(&mut rng, max), "state-dup-unsorted", model);
    }
    for _ in 0..args.scale(100, 2000) {
        state_case(out, gen_slots(&mut rng, 64), "state-random", false);
    }
    // ---- contract ids on raw arguments
    for _ in 0..args.scale(10, 60) {
        id_case(out, gen_salt(&mut rng), rng.bytes32(), rng.bytes32(), "id-raw");
    }
    id_case(out, [0u8; 32], ref_code_root(&[]), ref_state_root(&[]), "id-empty-contract");
    // ---- built Create transactions
    let kinds = [CreatedKind::Right, CreatedKind::WrongId, CreatedKind::WrongStateRoot, CreatedKind::Twice, CreatedKind::Missing, CreatedKind::RootAsId];
    let create_lens = [0usize, 1, 4, 7, 8, 9, 100, 1000, 16383, 16384, 16385];
    for i in 0..args.scale(18, 120) {
        let len = create_lens[i % create_lens.len()];
        let code = gen_code(&mut rng, len);
        let slots = sorted_unique(&gen_slots(&mut rng, 6));
        let kind = if i < kinds.len() { kinds[i] } else if rng.chance(1, 2) { CreatedKind::Right } else { *rng.pick(&kinds) };
        let salt = gen_salt(&mut rng);
        create_case(out, &mut rng, salt, code, slots, kind, "create");
    }
    // ---- VM: deploy / redeploy / CROO
    let vm_lens: Vec<usize> = if args.thorough() {
        vec![0, 1, 3, 4, 7, 8, 9, 12, 24, 1000, 16376, 16380, 16383, 16384, 16385, 16391, 16392, 32767, 32768, 32769, 49152, 49153, 49160]
    } else {
        vec![0, 4, 7, 8, 9, 1000, 16383, 16384, 16385, 32769]
    };
    for (i, len) in vm_lens.iter().enumerate() {
        let code = gen_code(&mut rng, *len);
        let slots = if i % 3 == 0 { vec![] } else { gen_slots(&mut rng, 5) };
        let salt = gen_salt(&mut rng);
        vm_case(out, salt, code, slots, "vm-deploy-croo", model);
    }
    for _ in 0..args.scale(20, 300) {
        let len = match rng.below(4) {
            0 => rng.range(0, 64) as usize,
            1 => (rng.range(1, 3) * 16384) as usize + rng.range(0, 16) as usize - 8,
            _ => rng.range(0, 50_000) as usize,
        };
        let code = gen_code(&mut rng, len);
        let slots = gen_slots(&mut rng, 6);
        let salt = gen_salt(&mut rng);
        vm_case(out, salt, code, slots, "vm-random", false);
    }
    // ---- VM: predicate owner inside check_predicates and check_signature
    for i in 0..args.scale(40, 400) {
        let tail_len = match i % 8 {
            0 => 0,
            1 => 4,
            2 => 3,
            3 => 16384 - 4,
            4 => 16384 - 3,
            5 => 16384,
            _ => rng.range(0, 300) as usize,
        };
        let tail = gen_code(&mut rng, tail_len).bytes;
        predicate_vm_case(out, &mut rng, tail);
    }
    // ---- predicate ownership through every public entry point (sequential, parallel, estimation, one-call)
    let rt = tokio::runtime::Builder::new_multi_thread().worker_threads(4).enable_all().build().expect("tokio runtime");
    for _ in 0..args.scale(30, 200) {
        owner_paths_case(out, &rt, rng.next(), model);
    }
    for _ in 0..args.scale(150, 3000) {
        owner_paths_case(out, &rt, rng.next(), false);
    }
}

fn main() {
    quiet_panics();
    let args = Args::parse();
    let mut out = Out::new();
    let header = "From FV Require Import Base.Bytes Ids.IdsModel Run.Ids.\nOpen Scope N_scope.";
    match args.prop.as_str() {
        "C15" => {
            run_c15(&args, &mut out);
            // spread the expensive (long-code) cases over the shards: shard s gets cases s, s+k, ..
            let k = args.shards.max(1);
            let n = out.cases.len();
            let per = n.div_ceil(k).max(1);
            let mut slots: Vec<Option<Case>> = std::mem::take(&mut out.cases).into_iter().map(Some).collect();
            let mut order = vec![];
            for s in 0..k {
                let mut j = s;
                while j < n && order.len() < (s + 1) * per {
                    order.push(j);
                    j += k;
                }
            }
            let mut seen = vec![false; n];
            for &j in &order {
                seen[j] = true;
            }
            order.extend((0..n).filter(|j| !seen[*j]));
            out.cases = order.into_iter().map(|j| slots[j].take().unwrap()).collect();
            out.write(&args, header, "ids_case", "bad_ids");
        }
        p => {
            eprintln!("ids: unknown property {p}");
            std::process::exit(2);
        }
    }
}
