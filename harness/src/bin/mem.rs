//! C23 — VM memory behaves like a zero-initialised array with two regions.
//!
//! Histories of <= 60 operations on ONE real `MemoryInstance` (living inside one real
//! `Interpreter`, so that `memcopy` — whose `OwnershipRegisters` argument cannot be built
//! outside the crate — is reached through the `MCP` instruction), including `reset` between
//! "transactions", clone + `collect_rollback_data` + `rollback`.  Every operation's observable
//! result is recorded (unit / error kind / bytes read in sparse form) and
//!   (a) printed as a Coq case replayed by the Gallina L1 model (coq/Run/Mem.v), and
//!   (b) compared on the spot with `Flat`, a reference model written here directly from the
//!       property text (one sparse flat array + two bounds): the implementation-level oracle.
use fuel_vm::constraints::reg_key::{Reg, RegMut, HP, SP};
use fuel_vm::fuel_asm::{op, PanicReason, RegId};
use fuel_vm::interpreter::{Interpreter, MemoryInstance};
use fuel_vm::prelude::{InterpreterError, MemoryStorage, Script};
use fvh::*;
use serde_json::json;
use std::collections::HashMap;

const MEM: u64 = 64 * 1024 * 1024;

#[derive(Clone, Debug)]
enum Op {
    GrowStack(u64),
    GrowHeap { sp: u64, amount: u64 },
    Verify(u64, u64),
    Read(u64, u64),
    Write(u64, Vec<u8>),
    Copy { dst: u64, src: u64, len: u64, sp: u64, ssp: u64, hp: u64 },
    Reset,
    Snapshot,
    Rollback,
}

#[derive(Clone, Debug, PartialEq, Eq)]
enum Res {
    Unit,
    Err(&'static str),
    Bytes(u64, Vec<(u64, u8)>),
}

fn kind(r: PanicReason) -> &'static str {
    match r {
        PanicReason::MemoryOverflow => "MemoryOverflow",
        PanicReason::MemoryGrowthOverlap => "MemoryGrowthOverlap",
        PanicReason::UninitalizedMemoryAccess => "UninitalizedMemoryAccess",
        PanicReason::MemoryWriteOverlap => "MemoryWriteOverlap",
        PanicReason::MemoryOwnership => "MemoryOwnership",
        _ => "OtherPanicReason",
    }
}

fn sparse(b: &[u8]) -> Vec<(u64, u8)> {
    // fast scan: skip zero words
    let mut v = vec![];
    let mut i = 0usize;
    let n = b.len();
    while i < n {
        if i + 8 <= n && b[i..i + 8] == [0u8; 8] {
            i += 8;
            continue;
        }
        if b[i] != 0 {
            v.push((i as u64, b[i]));
        }
        i += 1;
    }
    v
}

// ------------------------------------------------------------------ the real thing
struct Real {
    vm: Interpreter<MemoryInstance, MemoryStorage, Script>,
    hp_reg: u64,
    snap: Option<(MemoryInstance, u64)>,
}

impl Real {
    fn new() -> Self {
        Real { vm: Interpreter::<MemoryInstance, MemoryStorage, Script>::with_memory_storage(), hp_reg: MEM, snap: None }
    }
    fn step(&mut self, op: &Op) -> Res {
        let r = guarded(|| self.step_inner(op));
        match r {
            Ok(r) => r,
            Err(_) => Res::Err("HostPanic"),
        }
    }
    fn step_inner(&mut self, op: &Op) -> Res {
        match op {
            Op::GrowStack(n) => match self.vm.memory_mut().grow_stack(*n) {
                Ok(()) => Res::Unit,
                Err(e) => Res::Err(kind(e)),
            },
            Op::GrowHeap { sp, amount } => {
                let spv = *sp;
                let mut hpv = self.hp_reg;
                let r = self.vm.memory_mut().grow_heap_by(Reg::<SP>::new(&spv), RegMut::<HP>::new(&mut hpv), *amount);
                match r {
                    Ok(()) => {
                        self.hp_reg = hpv;
                        Res::Unit
                    }
                    Err(e) => Res::Err(kind(e)),
                }
            }
            Op::Verify(a, n) => match self.vm.memory().verify(*a, *n) {
                Ok(r) => {
                    // the returned range must be exactly [a, a+n)
                    if r.start() as u64 != *a || r.len() as u64 != *n {
                        Res::Err("VerifyWrongRange")
                    } else {
                        Res::Unit
                    }
                }
                Err(e) => Res::Err(kind(e)),
            },
            Op::Read(a, n) => match self.vm.memory().read(*a, *n) {
                Ok(b) => Res::Bytes(b.len() as u64, sparse(b)),
                Err(e) => Res::Err(kind(e)),
            },
            Op::Write(a, data) => match self.vm.memory_mut().write_noownerchecks(*a, data.len()) {
                Ok(b) => {
                    b.copy_from_slice(data);
                    Res::Unit
                }
                Err(e) => Res::Err(kind(e)),
            },
            Op::Copy { dst, src, len, sp, ssp, hp } => {
                let regs = self.vm.registers_mut();
                regs[RegId::SP.to_u8() as usize] = *sp;
                regs[RegId::SSP.to_u8() as usize] = *ssp;
                regs[RegId::HP.to_u8() as usize] = *hp;
                regs[RegId::CGAS.to_u8() as usize] = u64::MAX;
                regs[RegId::GGAS.to_u8() as usize] = u64::MAX;
                regs[RegId::PC.to_u8() as usize] = 0;
                regs[0x10] = *dst;
                regs[0x11] = *src;
                regs[0x12] = *len;
                match self.vm.instruction::<_, false>(op::mcp(0x10, 0x11, 0x12)) {
                    Ok(_) => Res::Unit,
                    Err(InterpreterError::PanicInstruction(p)) => Res::Err(kind(*p.reason())),
                    Err(_) => Res::Err("OtherInterpreterError"),
                }
            }
            Op::Reset => {
                self.vm.memory_mut().reset();
                self.hp_reg = MEM;
                Res::Unit
            }
            Op::Snapshot => {
                self.snap = Some((self.vm.memory().clone(), self.hp_reg));
                Res::Unit
            }
            Op::Rollback => {
                let Some((m0, hp0)) = self.snap.as_ref() else { return Res::Unit };
                let data = self.vm.memory().collect_rollback_data(m0);
                if let Some(d) = data {
                    let hp0 = *hp0;
                    self.vm.memory_mut().rollback(&d);
                    self.hp_reg = hp0;
                }
                Res::Unit
            }
        }
    }
}

// ------------------------------------------------------------------ reference model (oracle)
/// One flat zero-initialised array (sparse), the stack extent and the heap pointer: the
/// property text, nothing else.
#[derive(Clone, Default)]
struct Flat {
    stk_hi: u64,
    hp: u64,
    data: HashMap<u64, u8>,
}
struct Ref {
    f: Flat,
    snap: Option<Flat>,
}
fn owns(sp: u64, ssp: u64, hp: u64, prev: u64, s: u64, e: u64) -> bool {
    // a writer owns [s,e) if it is inside its own stack frame [ssp,sp) or its own heap [hp,prev)
    let empty = e <= s;
    let stack = if empty && s == ssp {
        true
    } else {
        ssp <= s && s < sp && e <= MEM && ssp <= e && e <= sp
    };
    let heap = if empty && s == hp { true } else { s >= hp && hp != prev && e <= prev };
    stack || heap
}
impl Flat {
    fn new() -> Self {
        Flat { stk_hi: 0, hp: MEM, data: HashMap::new() }
    }
    fn check(&self, a: u64, n: u64) -> Option<&'static str> {
        let end = a as u128 + n as u128;
        if end > MEM as u128 {
            return Some("MemoryOverflow");
        }
        let end = end as u64;
        if end <= self.stk_hi || a >= self.hp { None } else { Some("UninitalizedMemoryAccess") }
    }
    fn zero(&mut self, lo: u64, hi: u64) {
        self.data.retain(|k, _| !(lo <= *k && *k < hi));
    }
}
impl Ref {
    fn new() -> Self {
        Ref { f: Flat::new(), snap: None }
    }
    fn step(&mut self, op: &Op) -> Res {
        let f = &mut self.f;
        match op {
            Op::GrowStack(n) => {
                if *n > MEM {
                    Res::Err("MemoryOverflow")
                } else if *n <= f.stk_hi {
                    Res::Unit
                } else if *n > f.hp {
                    Res::Err("MemoryGrowthOverlap")
                } else {
                    let (lo, hi) = (f.stk_hi, *n);
                    f.zero(lo, hi);
                    f.stk_hi = *n;
                    Res::Unit
                }
            }
            Op::GrowHeap { sp, amount } => {
                if *amount > f.hp {
                    return Res::Err("MemoryOverflow");
                }
                let new_hp = f.hp - amount;
                if new_hp < *sp {
                    return Res::Err("MemoryGrowthOverlap");
                }
                let old = f.hp;
                f.zero(new_hp, old);
                f.hp = new_hp;
                f.stk_hi = f.stk_hi.min(new_hp);
                Res::Unit
            }
            Op::Verify(a, n) => match f.check(*a, *n) {
                Some(e) => Res::Err(e),
                None => Res::Unit,
            },
            Op::Read(a, n) => match f.check(*a, *n) {
                Some(e) => Res::Err(e),
                None => {
                    let mut v: Vec<(u64, u8)> =
                        f.data.iter().filter(|(k, b)| *a <= **k && **k < a + n && **b != 0).map(|(k, b)| (*k - a, *b)).collect();
                    v.sort();
                    Res::Bytes(*n, v)
                }
            },
            Op::Write(a, d) => match f.check(*a, d.len() as u64) {
                Some(e) => Res::Err(e),
                None => {
                    for (i, b) in d.iter().enumerate() {
                        f.data.insert(a + i as u64, *b);
                    }
                    Res::Unit
                }
            },
            Op::Copy { dst, src, len, sp, ssp, hp } => {
                if let Some(e) = f.check(*dst, *len) {
                    return Res::Err(e);
                }
                if let Some(e) = f.check(*src, *len) {
                    return Res::Err(e);
                }
                let share = *len > 0 && *dst < src + len && *src < dst + len;
                if share {
                    return Res::Err("MemoryWriteOverlap");
                }
                if !owns(*sp, *ssp, *hp, MEM, *dst, dst + len) {
                    return Res::Err("MemoryOwnership");
                }
                let moved: Vec<(u64, u8)> =
                    f.data.iter().filter(|(k, _)| *src <= **k && **k < src + len).map(|(k, b)| (*k - src + dst, *b)).collect();
                f.zero(*dst, dst + len);
                for (k, b) in moved {
                    f.data.insert(k, b);
                }
                Res::Unit
            }
            Op::Reset => {
                *f = Flat::new();
                Res::Unit
            }
            Op::Snapshot => {
                self.snap = Some(f.clone());
                Res::Unit
            }
            Op::Rollback => match &self.snap {
                None => Res::Unit,
                Some(s) => {
                    if s.hp < f.hp {
                        Res::Err("HostPanic") // documented: only shrinking of the heap is allowed
                    } else {
                        *f = s.clone();
                        Res::Unit
                    }
                }
            },
        }
    }
}

// ------------------------------------------------------------------ printing
fn op_json(op: &Op) -> serde_json::Value {
    match op {
        Op::GrowStack(n) => json!({"op":"grow_stack","new_sp":n}),
        Op::GrowHeap { sp, amount } => json!({"op":"grow_heap_by","sp":sp,"amount":amount}),
        Op::Verify(a, n) => json!({"op":"verify","addr":a,"len":n}),
        Op::Read(a, n) => json!({"op":"read","addr":a,"len":n}),
        Op::Write(a, d) => json!({"op":"write","addr":a,"data":hexs(d)}),
        Op::Copy { dst, src, len, sp, ssp, hp } => json!({"op":"memcopy","dst":dst,"src":src,"len":len,"sp":sp,"ssp":ssp,"hp":hp}),
        Op::Reset => json!({"op":"reset"}),
        Op::Snapshot => json!({"op":"snapshot"}),
        Op::Rollback => json!({"op":"rollback"}),
    }
}
fn op_from_json(v: &serde_json::Value) -> Op {
    let u = |k: &str| v[k].as_u64().unwrap();
    match v["op"].as_str().unwrap() {
        "grow_stack" => Op::GrowStack(u("new_sp")),
        "grow_heap_by" => Op::GrowHeap { sp: u("sp"), amount: u("amount") },
        "verify" => Op::Verify(u("addr"), u("len")),
        "read" => Op::Read(u("addr"), u("len")),
        "write" => Op::Write(u("addr"), hex::decode(v["data"].as_str().unwrap()).unwrap()),
        "memcopy" => Op::Copy { dst: u("dst"), src: u("src"), len: u("len"), sp: u("sp"), ssp: u("ssp"), hp: u("hp") },
        "reset" => Op::Reset,
        "snapshot" => Op::Snapshot,
        "rollback" => Op::Rollback,
        o => panic!("unknown op {o}"),
    }
}
fn op_coq(op: &Op) -> String {
    match op {
        Op::GrowStack(n) => format!("SGrowStack {n}"),
        Op::GrowHeap { sp, amount } => format!("SGrowHeap {sp} {amount}"),
        Op::Verify(a, n) => format!("SVerify {a} {n}"),
        Op::Read(a, n) => format!("SRead {a} {n}"),
        Op::Write(a, d) => format!("SWrite {a} {}", coq_bytes(d)),
        Op::Copy { dst, src, len, sp, ssp, hp } => format!("SCopy {dst} {src} {len} (ow {sp} {ssp} {hp} {MEM})"),
        Op::Reset => "SReset".into(),
        Op::Snapshot => "SSnapshot".into(),
        Op::Rollback => "SRollback".into(),
    }
}
fn res_coq(r: &Res) -> String {
    match r {
        Res::Unit => "EUnit".into(),
        Res::Err(k) => format!("(EErr {k})"),
        Res::Bytes(n, v) => format!("(EBytes {n} {})", coq_list(&v.iter().map(|(o, b)| format!("({o}, {b})")).collect::<Vec<_>>())),
    }
}
fn res_json(r: &Res) -> serde_json::Value {
    match r {
        Res::Unit => json!("ok"),
        Res::Err(k) => json!({"err":k}),
        Res::Bytes(n, v) => json!({"len":n,"nonzero":v}),
    }
}

// ------------------------------------------------------------------ generator
const SMALL: [u64; 9] = [0, 1, 7, 8, 9, 255, 256, 257, 32];

fn size(rng: &mut Rng, scale_bits: u64) -> u64 {
    match rng.below(10) {
        0..=3 => *rng.pick(&SMALL),
        4..=5 => 1u64 << rng.below(scale_bits + 1),
        6 => (1u64 << rng.below(scale_bits + 1)).saturating_sub(1),
        7 => (1u64 << rng.below(scale_bits + 1)) + 1,
        8 if scale_bits >= 26 => *rng.pick(&[MEM - 1, MEM, MEM + 1]),
        _ => rng.below(1 << scale_bits),
    }
}

struct Gen {
    rng: Rng,
    scale_bits: u64,  // histories live at addresses < 2^scale_bits away from the two ends
    marks: Vec<u64>,  // addresses at which data has been written (also in earlier transactions)
}

impl Gen {
    fn addr_in(&mut self, lo: u64, hi: u64) -> u64 {
        // an address in [lo, hi] biased to the ends and to marks
        if hi <= lo {
            return lo;
        }
        match self.rng.below(6) {
            0 => lo,
            1 => hi,
            2 => lo + self.rng.below((hi - lo).min(16) + 1),
            3 => hi - self.rng.below((hi - lo).min(16) + 1),
            4 if !self.marks.is_empty() => {
                let m = *self.rng.pick(&self.marks);
                m.clamp(lo, hi)
            }
            _ => self.rng.range(lo, hi),
        }
    }
    /// shrink a length so that it fits in the larger accessible region (3 times out of 4)
    fn fit(&mut self, f: &Flat, n: u64) -> u64 {
        let room = f.stk_hi.max(MEM - f.hp);
        if n > room && self.rng.chance(3, 4) { if self.rng.bool() { room } else { self.rng.below(room + 1) } } else { n }
    }
    /// a (mostly accessible) range of length n
    fn range_for(&mut self, f: &Flat, n: u64) -> u64 {
        let in_stack = f.stk_hi >= n && (f.hp + n > MEM || self.rng.bool());
        match self.rng.below(12) {
            0 => self.addr_in(f.stk_hi.saturating_sub(n), f.stk_hi + 1), // straddles the stack end
            1 => self.addr_in(f.hp.saturating_sub(n + 1), f.hp),         // straddles hp
            2 => self.addr_in(MEM.saturating_sub(n), MEM + 1),          // around the end of memory
            3 => size(&mut self.rng, 26),
            _ => {
                if in_stack {
                    self.addr_in(0, f.stk_hi - n)
                } else if f.hp + n <= MEM {
                    self.addr_in(f.hp, MEM - n)
                } else {
                    self.addr_in(0, MEM)
                }
            }
        }
    }
    fn next_op(&mut self, f: &Flat, has_snap: bool, rollback_defined: bool, i: usize) -> Op {
        let sb = self.scale_bits;
        let w = self.rng.below(100);
        if i < 2 {
            // start every history by opening both regions
            return if i == 0 { Op::GrowStack(size(&mut self.rng, sb).min(f.hp)) } else { Op::GrowHeap { sp: 0, amount: size(&mut self.rng, sb).min(f.hp - f.stk_hi) } };
        }
        let _ = w;
        match w {
            0..=9 => {
                let n = match self.rng.below(8) {
                    0 if sb >= 26 => f.hp,
                    1 => f.hp + 1,
                    2 if sb >= 26 => f.hp.saturating_sub(self.rng.below(9)),
                    3 => MEM + 1,
                    4 => f.stk_hi + self.rng.below(300),
                    5 => f.stk_hi.saturating_sub(self.rng.below(9)),
                    _ => f.stk_hi.saturating_add(size(&mut self.rng, sb)),
                };
                Op::GrowStack(n)
            }
            10..=21 => {
                let amount = match self.rng.below(8) {
                    0 if sb >= 26 => f.hp - f.stk_hi,
                    1 if sb >= 26 => (f.hp - f.stk_hi) + 1,
                    2 if sb >= 26 => f.hp,
                    3 => f.hp + 1,
                    4 => self.rng.below(300),
                    5 => u64::MAX - self.rng.below(2),
                    _ => size(&mut self.rng, sb),
                };
                let new_hp = f.hp.saturating_sub(amount);
                let sp = match self.rng.below(6) {
                    0 => f.stk_hi,
                    1 => new_hp,
                    2 => new_hp.saturating_add(1),
                    3 => f.stk_hi / 2,
                    _ => 0,
                };
                Op::GrowHeap { sp, amount }
            }
            22..=29 => {
                let (a, n) = (size(&mut self.rng, 26), size(&mut self.rng, 26));
                match self.rng.below(4) {
                    0 => Op::Verify(a, n),
                    1 => Op::Verify(self.rng.u64_biased(), self.rng.u64_biased()),
                    _ => {
                        let a = self.range_for(f, n);
                        Op::Verify(a, n)
                    }
                }
            }
            30..=49 => {
                let n = match self.rng.below(5) {
                    0 => 0,
                    1 => 1,
                    2 => 8,
                    3 => 32,
                    _ => self.rng.range(1, 12),
                } as usize;
                let n = self.fit(f, n as u64) as usize;
                let a = self.range_for(f, n as u64);
                let d: Vec<u8> = (0..n).map(|_| if self.rng.chance(1, 6) { 0 } else { self.rng.range(1, 255) as u8 }).collect();
                Op::Write(a, d)
            }
            50..=69 => match self.rng.below(6) {
                0 => Op::Read(0, f.stk_hi),
                1 => Op::Read(f.hp, MEM - f.hp),
                2 => {
                    let n = size(&mut self.rng, 26);
                    Op::Read(size(&mut self.rng, 26), n)
                }
                _ => {
                    let n = if self.rng.bool() { self.rng.below(40) } else { size(&mut self.rng, sb) };
                    let n = self.fit(f, n);
                    let a = self.range_for(f, n);
                    Op::Read(a, n)
                }
            },
            70..=84 => {
                let len = match self.rng.below(6) {
                    0 => 0,
                    1 => size(&mut self.rng, sb),
                    2 => 1,
                    _ => self.rng.range(1, 40),
                };
                let len = self.fit(f, len);
                let len = if self.rng.chance(2, 3) { len.min(f.stk_hi.max(MEM - f.hp) / 2) } else { len };
                let src = self.range_for(f, len);
                let dst = match self.rng.below(8) {
                    0 => src,
                    1 => src.saturating_add(len.saturating_sub(1)),
                    2 => src.saturating_sub(len.saturating_sub(1)),
                    3 => src.saturating_add(len),
                    4 => src.saturating_sub(len),
                    5 => src.saturating_add(self.rng.below(len + 2)),
                    _ => self.range_for(f, len),
                };
                let (sp, ssp, hp) = match self.rng.below(8) {
                    0 => (f.stk_hi, f.stk_hi / 2, f.hp),
                    1 => (f.stk_hi, 0, MEM), // hp == prev_hp: no heap ownership
                    2 => (0, 0, f.hp),
                    3 => (dst.saturating_add(len), dst, f.hp),
                    _ => (f.stk_hi, 0, f.hp),
                };
                Op::Copy { dst, src, len, sp, ssp, hp }
            }
            85..=89 => Op::Reset,
            90..=94 => if sb >= 26 && self.rng.chance(2, 3) { Op::Verify(f.stk_hi, 1) } else { Op::Snapshot },
            _ => {
                if has_snap && (rollback_defined || self.rng.chance(1, 8)) {
                    Op::Rollback
                } else {
                    Op::Snapshot
                }
            }
        }
    }
}

/// run one history on the real instance and on the reference; returns (ops, real results)
fn run_history(out: &mut Out, ops_in: Option<Vec<Op>>, rng: &mut Rng, scale_bits: u64, max_ops: usize, class: &str) {
    let mut real = Real::new();
    let mut rf = Ref::new();
    let mut g = Gen { rng: rng.clone(), scale_bits, marks: vec![] };
    let mut hist: Vec<(Op, Res)> = vec![];
    let n_ops = match &ops_in {
        Some(v) => v.len(),
        None => max_ops,
    };
    let mut nonzero_read = false;
    let mut errors = 0;
    let mut failed = false;
    for i in 0..n_ops {
        let op = match &ops_in {
            Some(v) => v[i].clone(),
            None => {
                // a rollback to a snapshot whose heap pointer is below the current one panics
                // (documented assertion) and ends the history: issue those rarely.  A snapshot whose
                // stack extent exceeds the current one is fine since 75e7afe.
                let defined = rf.snap.as_ref().map(|s| s.hp >= rf.f.hp).unwrap_or(true);
                g.next_op(&rf.f, rf.snap.is_some(), defined, i)
            }
        };
        let t1 = std::time::Instant::now();
        let r_real = real.step(&op);
        let t2 = std::time::Instant::now();
        let r_ref = rf.step(&op);
        if std::env::var("MEM_TIMING").is_ok() {
            let nm = op_json(&op)["op"].as_str().unwrap().to_string();
            *out.dist.entry(format!("us-real:{scale_bits}:{nm}")).or_insert(0) += (t2 - t1).as_micros() as u64;
            *out.dist.entry(format!("us-ref:{scale_bits}:{nm}")).or_insert(0) += t2.elapsed().as_micros() as u64;
        }
        out.oracle_evaluations += 1;
        if let Op::Write(a, d) = &op {
            if r_real == Res::Unit && !d.is_empty() {
                g.marks.push(*a);
            }
        }
        if let Res::Bytes(_, v) = &r_real {
            nonzero_read |= !v.is_empty();
        }
        if matches!(r_real, Res::Err(_)) {
            errors += 1;
        }
        let opname = op_json(&op)["op"].as_str().unwrap().to_string();
        *out.dist.entry(format!("op:{opname}:{}", match &r_real { Res::Unit => "ok", Res::Bytes(..) => "bytes", Res::Err(k) => k })).or_insert(0) += 1;
        hist.push((op.clone(), r_real.clone()));
        if r_real != r_ref && !failed {
            failed = true;
            // precise class of the failing input
            let cls = match (&op, &r_real, &r_ref) {
                (Op::Rollback, Res::Err("HostPanic"), Res::Unit) => {
                    let s = rf.snap.as_ref().map(|s| s.stk_hi).unwrap_or(0);
                    // rf.f has already been replaced by the snapshot; the real stack extent before the
                    // rollback is what the previous reference state had: recompute from history
                    let _ = s;
                    "rollback-panics-when-snapshot-stack-extent-exceeds-current".to_string()
                }
                (_, Res::Err("HostPanic"), _) => format!("{opname}-host-panic"),
                (_, Res::Bytes(..), Res::Bytes(..)) => format!("{opname}-bytes-differ-from-flat-array"),
                _ => format!("{opname}-result-differs-from-flat-array"),
            };
            out.oracle_fail(
                &cls,
                &format!("op #{i} {:?}: MemoryInstance returned {:?}, the flat zero-initialised array gives {:?}", op, short(&r_real), short(&r_ref)),
                json!({"kind":"history","ops": hist.iter().map(|(o, _)| op_json(o)).collect::<Vec<_>>(),
                       "observed": res_json(&r_real), "expected": res_json(&r_ref)}),
            );
        }
        if r_real == Res::Err("HostPanic") || failed {
            break; // the instance may be half-updated after a panic: the history ends here
        }
    }
    *rng = g.rng.clone();
    let coq = format!(
        "{{| mc_history := {} |}}",
        coq_list(&hist.iter().map(|(o, r)| format!("({}, {})", op_coq(o), res_coq(r))).collect::<Vec<_>>())
    );
    let mut keyh = 0xcbf29ce484222325u64;
    for b in coq.bytes() {
        keyh = (keyh ^ b as u64).wrapping_mul(0x100000001b3);
    }
    let n = hist.len();
    out.push(Case {
        coq,
        json: json!({"kind":"history","ops": hist.iter().map(|(o, _)| op_json(o)).collect::<Vec<_>>(),
                     "results": hist.iter().map(|(_, r)| res_json(r)).collect::<Vec<_>>()}),
        key: format!("{keyh:016x}"),
        nontrivial: n >= 5 && nonzero_read && errors >= 1,
        class: class.to_string(),
    });
}

fn short(r: &Res) -> String {
    match r {
        Res::Bytes(n, v) if v.len() > 8 => format!("Bytes(len {n}, {} non-zero, first {:?})", v.len(), &v[..8]),
        r => format!("{r:?}"),
    }
}

// hand-written histories for the corner cases named in the property text
fn corpus() -> Vec<(&'static str, Vec<Op>)> {
    let full = |dst, src, len, stk, hp| Op::Copy { dst, src, len, sp: stk, ssp: 0, hp };
    vec![
        // heap reuse after reset, in-place branch: the dirty buffer must read zero again
        ("reset-inplace", vec![
            Op::GrowHeap { sp: 0, amount: 256 }, Op::Write(MEM - 256, vec![1, 2, 3, 4, 5, 6, 7, 8]), Op::Write(MEM - 8, vec![9; 8]),
            Op::Reset, Op::Read(MEM - 8, 8), Op::GrowHeap { sp: 0, amount: 8 }, Op::Read(MEM - 8, 8),
            Op::GrowHeap { sp: 0, amount: 248 }, Op::Read(MEM - 256, 256),
        ]),
        // heap reuse after reset, reallocation branch: dirty prefix cleared before the move
        ("reset-realloc", vec![
            Op::GrowHeap { sp: 0, amount: 256 }, Op::Write(MEM - 256, vec![0xAA; 32]), Op::Write(MEM - 32, vec![0xBB; 32]),
            Op::Reset, Op::GrowHeap { sp: 0, amount: 16 }, Op::Write(MEM - 16, vec![0xCC; 16]),
            Op::GrowHeap { sp: 0, amount: 1000 }, Op::Read(MEM - 1016, 1016),
            Op::Reset, Op::GrowHeap { sp: 0, amount: 5000 }, Op::Read(MEM - 5000, 5000),
        ]),
        // the whole memory as heap, then as stack
        ("whole-memory", vec![
            Op::GrowHeap { sp: 0, amount: MEM }, Op::Write(0, vec![7]), Op::Write(MEM - 1, vec![8]), Op::Read(0, MEM), Op::Verify(0, MEM + 1),
            Op::GrowHeap { sp: 0, amount: 1 }, Op::GrowStack(1), Op::Reset, Op::GrowStack(MEM), Op::Read(0, MEM), Op::GrowHeap { sp: MEM, amount: 0 },
            Op::GrowHeap { sp: 0, amount: 1 }, Op::Read(0, MEM), Op::Read(0, MEM - 1), Op::Read(MEM - 1, 1), Op::GrowStack(MEM), Op::GrowStack(MEM + 1),
        ]),
        // heap overtakes the stack high-water mark, stack grows again: old stack bytes are gone
        ("heap-overtakes-stack", vec![
            Op::GrowStack(1024), Op::Write(1000, vec![1, 2, 3, 4]), Op::Write(10, vec![5]),
            Op::GrowHeap { sp: 100, amount: MEM - 512 }, Op::Read(0, 512), Op::Read(512, 512), Op::Verify(0, 513),
            Op::Reset, Op::GrowStack(1024), Op::Read(0, 1024),
        ]),
        // overlapping copies
        ("copy-overlap", vec![
            Op::GrowStack(64), Op::Write(0, (1..=32).collect()), full(16, 0, 16, 64, MEM), Op::Read(0, 64), full(15, 0, 16, 64, MEM), full(0, 15, 16, 64, MEM),
            full(8, 8, 0, 64, MEM), full(8, 8, 1, 64, MEM), full(0, 1, 0, 64, MEM), full(32, 0, 32, 64, MEM), Op::Read(0, 64),
            Op::GrowHeap { sp: 64, amount: 64 }, full(MEM - 64, 0, 64, 64, MEM - 64), Op::Read(MEM - 64, 64), full(0, MEM - 32, 32, 64, MEM - 64), Op::Read(0, 64),
            full(MEM - 64, MEM - 32, 32, 64, MEM - 64), full(MEM - 64, MEM - 33, 32, 64, MEM - 64), Op::Read(MEM - 64, 64),
        ]),
        // snapshot / rollback
        ("rollback", vec![
            Op::GrowStack(100), Op::GrowHeap { sp: 100, amount: 50 }, Op::Write(10, vec![1, 2, 3]), Op::Write(MEM - 50, vec![4, 5, 6]), Op::Snapshot,
            Op::Write(11, vec![9, 9, 9, 9]), Op::Write(MEM - 49, vec![8]), Op::GrowStack(300), Op::Write(200, vec![7; 8]), Op::GrowHeap { sp: 300, amount: 1000 },
            Op::Write(MEM - 1050, vec![6; 9]), Op::Rollback, Op::Read(0, 100), Op::Read(MEM - 50, 50), Op::Verify(0, 101), Op::Verify(MEM - 51, 1),
            Op::GrowStack(300), Op::Read(0, 300), Op::GrowHeap { sp: 300, amount: 1000 }, Op::Read(MEM - 1050, 1050), Op::Rollback, Op::Rollback, Op::Read(0, 100),
        ]),
        // rollback to a snapshot whose heap pointer is lower: documented panic
        ("rollback-heap-grew", vec![Op::GrowHeap { sp: 0, amount: 100 }, Op::Snapshot, Op::Reset, Op::Rollback]),
        // rollback after the heap has overtaken the snapshot's stack extent (panicked before 75e7afe)
        ("rollback-stack-short", vec![
            Op::GrowStack(1000), Op::Write(900, vec![1, 2, 3]), Op::Snapshot, Op::GrowHeap { sp: 0, amount: MEM - 500 }, Op::Rollback, Op::Read(898, 6), Op::Read(0, 1000),
            Op::Verify(0, 1001), Op::GrowHeap { sp: 1000, amount: 16 }, Op::Read(MEM - 16, 16),
        ]),
        // the same after a reset, and with a dirty region between the two extents
        ("rollback-stack-short-after-reset", vec![
            Op::GrowStack(300), Op::Write(0, vec![7; 16]), Op::Write(280, vec![9; 20]), Op::Snapshot, Op::Reset, Op::Rollback, Op::Read(0, 300),
            Op::Reset, Op::GrowStack(100), Op::Write(50, vec![5; 8]), Op::Rollback, Op::Read(0, 300), Op::Rollback,
        ]),
    ]
}

fn main() {
    quiet_panics();
    let args = Args::parse();
    let mut out = Out::new();
    let header = "From FV Require Import Base.Bytes Mem.SVec Mem.MemSpec Mem.MemModel Run.Mem.\nOpen Scope N_scope.";
    if args.prop != "C23" {
        eprintln!("mem: unknown property {}", args.prop);
        std::process::exit(2);
    }
    let mut rng = Rng::new(args.seed);
    if let Some(p) = &args.replay {
        let v = read_replay(p);
        let ops: Vec<Op> = v["ops"].as_array().unwrap().iter().map(op_from_json).collect();
        run_history(&mut out, Some(ops), &mut rng, 26, 0, "replay");
    } else {
        for (name, ops) in corpus() {
            run_history(&mut out, Some(ops), &mut rng, 26, 0, &format!("corpus:{name}"));
        }
        let mut tm: std::collections::BTreeMap<u64, f64> = Default::default();
        let n = if args.oracle_only { args.scale(1200, 6000) } else { args.scale(400, 4000) };
        for k in 0..n {
            // address scale: small instances (everything within 4 KiB of the ends), medium, full 64 MiB
            let sb = match k % 80 {
                79 => 26,
                x if x % 4 == 3 => 20,
                x if x % 4 == 2 => 16,
                _ => 12,
            };
            let len = if sb == 26 { 30 } else if k % 7 == 0 { 20 } else { 60 };
            let t0 = std::time::Instant::now();
            run_history(&mut out, None, &mut rng, sb, len, &format!("random:2^{sb}"));
            *tm.entry(sb).or_insert(0.0) += t0.elapsed().as_secs_f64();
        }
        out.notes.push(format!("harness seconds per address scale (bits -> s): {:?}", tm));
    }
    if args.oracle_only {
        out.cases.clear();
    }
    out.write(&args, header, "mem_case", "bad_mem");
}
