//! Instruction-encoding family (C08): run the real fuel-asm decoder / encoder / constructors and
//! the interpreter's decode step, print cases for the Gallina L1 model (coq/Run/Asm.v), and check
//! the property directly on the implementation (oracle; exhaustive over all 2^32 words in the
//! thorough tier and in --oracle-only mode).
//!
//! The list of opcodes is NOT written here: `../gen/asm_optable.rs` is regenerated from
//! /repo/fuel-asm/src/lib.rs by tools/gen_optable.py on every check.
use fuel_asm::{op, Imm06, Imm12, Imm18, Imm24, Instruction, Opcode, PanicReason, RegId};
use fuel_vm::prelude::{Interpreter, InterpreterError, MemoryInstance, MemoryStorage, Script};
use fvh::*;
use serde_json::json;

include!("../gen/asm_optable.rs");

/// --oracle-only: no model cases are emitted
static ORACLE_ONLY: std::sync::atomic::AtomicBool = std::sync::atomic::AtomicBool::new(false);

#[allow(clippy::enum_variant_names)]
#[derive(Clone, Copy, PartialEq, Eq, Debug)]
enum Ty {
    RegId,
    Imm06,
    Imm12,
    Imm18,
    Imm24,
}
impl Ty {
    /// width in the instruction word — written from the specification (6/6/12/18/24), used only
    /// by the independent reference computations of the oracle
    fn width(self) -> u32 {
        match self {
            Ty::RegId | Ty::Imm06 => 6,
            Ty::Imm12 => 12,
            Ty::Imm18 => 18,
            Ty::Imm24 => 24,
        }
    }
    /// width of the Rust parameter type of the shorthand constructor (u8 / u16 / u32)
    fn param_bits(self) -> u32 {
        match self {
            Ty::RegId | Ty::Imm06 => 8,
            Ty::Imm12 => 16,
            Ty::Imm18 | Ty::Imm24 => 32,
        }
    }
}
struct Row {
    byte: u8,
    name: &'static str,
    ctor: &'static str,
    shape: &'static [Ty],
}

// ---- unpacked arguments as numbers, generically over the tuple returned by unpack()
trait ArgVal {
    fn val(self) -> u32;
}
impl ArgVal for RegId {
    fn val(self) -> u32 {
        u8::from(self) as u32
    }
}
impl ArgVal for Imm06 {
    fn val(self) -> u32 {
        u8::from(self) as u32
    }
}
impl ArgVal for Imm12 {
    fn val(self) -> u32 {
        u16::from(self) as u32
    }
}
impl ArgVal for Imm18 {
    fn val(self) -> u32 {
        u32::from(self)
    }
}
impl ArgVal for Imm24 {
    fn val(self) -> u32 {
        u32::from(self)
    }
}
trait ToArgs {
    fn to_args(self) -> Vec<u32>;
}
impl<A: ArgVal> ToArgs for A {
    fn to_args(self) -> Vec<u32> {
        vec![self.val()]
    }
}
impl<A: ArgVal, B: ArgVal> ToArgs for (A, B) {
    fn to_args(self) -> Vec<u32> {
        vec![self.0.val(), self.1.val()]
    }
}
impl<A: ArgVal, B: ArgVal, C: ArgVal> ToArgs for (A, B, C) {
    fn to_args(self) -> Vec<u32> {
        vec![self.0.val(), self.1.val(), self.2.val()]
    }
}
impl<A: ArgVal, B: ArgVal, C: ArgVal, D: ArgVal> ToArgs for (A, B, C, D) {
    fn to_args(self) -> Vec<u32> {
        vec![self.0.val(), self.1.val(), self.2.val(), self.3.val()]
    }
}

macro_rules! args_of {
    ($o:expr, []) => {{
        let _ = $o;
        Vec::<u32>::new()
    }};
    ($o:expr, [$($f:ident)+]) => {
        $o.unpack().to_args()
    };
}
// value -> parameter of the shorthand constructor (the generators only produce values that fit)
macro_rules! conv {
    (RegId, $x:expr) => {
        $x as u8
    };
    (Imm06, $x:expr) => {
        $x as u8
    };
    (Imm12, $x:expr) => {
        $x as u16
    };
    (Imm18, $x:expr) => {
        $x as u32
    };
    (Imm24, $x:expr) => {
        $x as u32
    };
}
// value -> typed argument through the masking constructor T::new
macro_rules! mk {
    (RegId, $x:expr) => {
        RegId::new($x as u8)
    };
    (Imm06, $x:expr) => {
        Imm06::new($x as u8)
    };
    (Imm12, $x:expr) => {
        Imm12::new($x as u16)
    };
    (Imm18, $x:expr) => {
        Imm18::new($x as u32)
    };
    (Imm24, $x:expr) => {
        Imm24::new($x as u32)
    };
}

macro_rules! gen_table {
    ($($ix:literal $Op:ident $op:ident [$($f:ident)*])*) => {
        static ROWS: &[Row] = &[
            $(Row { byte: $ix, name: stringify!($Op), ctor: stringify!($op), shape: &[$(Ty::$f),*] },)*
        ];
        /// unpack() of whatever variant the instruction is
        fn inst_args(i: Instruction) -> Vec<u32> {
            match i {
                $(Instruction::$Op(o) => args_of!(o, [$($f)*]),)*
            }
        }
        /// op::X::from_raw_args(raw) for the struct X whose OPCODE byte is `b`, then unpack()
        #[allow(unreachable_patterns)]
        fn raw_parse(b: u8, raw: [u8; 3]) -> Option<Result<Vec<u32>, ()>> {
            match b {
                $($ix => Some(op::$Op::from_raw_args(raw).map(|o| args_of!(o, [$($f)*])).map_err(|_| ())),)*
                _ => None,
            }
        }
        /// shorthand constructor op::x(..)  (panics on an out-of-range argument)
        #[allow(unreachable_patterns, unused_mut, unused_variables)]
        fn shorthand(b: u8, args: &[u32]) -> Option<Instruction> {
            let mut it = args.iter().copied();
            match b {
                $($ix => Some(op::$op($(conv!($f, it.next().unwrap())),*)),)*
                _ => None,
            }
        }
        /// op::X::new(T::new(v)..) (masking constructors)
        #[allow(unreachable_patterns, unused_mut, unused_variables)]
        fn typed_new(b: u8, args: &[u32]) -> Option<Instruction> {
            let mut it = args.iter().copied();
            match b {
                $($ix => Some(op::$Op::new($(mk!($f, it.next().unwrap())),*).into()),)*
                _ => None,
            }
        }
    };
}
asm_optable!(gen_table);

fn row_of(b: u8) -> Option<&'static Row> {
    ROWS.iter().find(|r| r.byte == b)
}

// ---------------------------------------------------------------- reference computations (oracle)
fn used_bits(shape: &[Ty]) -> u32 {
    shape.iter().map(|t| t.width()).sum()
}
/// mask of the payload bits that no argument of the shape uses
fn reserved_mask(shape: &[Ty]) -> u32 {
    let r = 24 - used_bits(shape);
    if r == 0 { 0 } else { (1u32 << r) - 1 }
}
/// arguments MSB-first directly below the opcode byte
fn ref_args(shape: &[Ty], w: u32) -> Vec<u32> {
    let mut top = 24u32;
    let mut v = vec![];
    for t in shape {
        top -= t.width();
        v.push((w >> top) & ((1u32 << t.width()) - 1));
    }
    v
}
fn ref_word(row: &Row, args: &[u32]) -> u32 {
    let mut top = 24u32;
    let mut w = (row.byte as u32) << 24;
    for (t, a) in row.shape.iter().zip(args) {
        top -= t.width();
        w |= a << top;
    }
    w
}
fn in_range(shape: &[Ty], args: &[u32]) -> bool {
    shape.len() == args.len() && shape.iter().zip(args).all(|(t, a)| (*a as u64) < (1u64 << t.width()))
}

// ---------------------------------------------------------------- observations
type Dec = Option<(u8, String, Vec<u32>)>;
fn dec_of(r: Result<Instruction, fuel_asm::InvalidOpcode>) -> Dec {
    r.ok().map(|i| (i.opcode() as u8, format!("{:?}", i.opcode()), inst_args(i)))
}
fn coq_nlist(v: &[u32]) -> String {
    coq_list(&v.iter().map(|x| x.to_string()).collect::<Vec<_>>())
}
fn coq_dec(d: &Dec) -> String {
    match d {
        None => "None".into(),
        Some((b, _, a)) => format!("(Some ({}, {}))", b, coq_nlist(a)),
    }
}
fn json_dec(d: &Dec) -> serde_json::Value {
    match d {
        None => json!("InvalidOpcode"),
        Some((b, n, a)) => json!({"byte": b, "name": n, "args": a}),
    }
}

type Vm = Interpreter<MemoryInstance, MemoryStorage, Script>;
/// the interpreter's own decode step: does executing the raw word end in InvalidInstruction?
/// (a fresh interpreter has no gas: every instruction that parses stops at its gas charge)
fn interp_invalid(vm: &mut Vm, w: u32) -> Result<bool, String> {
    guarded(|| match vm.instruction::<u32, false>(w) {
        Err(InterpreterError::PanicInstruction(pi)) => *pi.reason() == PanicReason::InvalidInstruction,
        _ => false,
    })
}

struct Ctx {
    vm: Vm,
    n_since_new: u32,
}
impl Ctx {
    fn new() -> Self {
        Ctx { vm: Vm::with_memory_storage(), n_since_new: 0 }
    }
    fn vm(&mut self) -> &mut Vm {
        self.n_since_new += 1;
        if self.n_since_new > 4096 {
            self.vm = Vm::with_memory_storage();
            self.n_since_new = 0;
        }
        &mut self.vm
    }
}

/// property checked directly on the implementation for one word; returns failures (class, what)
fn oracle_word(w: u32, d32: &Dec, reenc: Option<u32>) -> Vec<(&'static str, String)> {
    let mut f = vec![];
    let b0 = (w >> 24) as u8;
    let defined = Opcode::try_from(b0).is_ok();
    let row = row_of(b0);
    if defined != row.is_some() {
        f.push(("opcode-table-mismatch", format!("Opcode::try_from({b0:#x}) and the impl_instructions! rows disagree")));
        return f;
    }
    let should_decode = row.map(|r| w & reserved_mask(r.shape) == 0).unwrap_or(false);
    match d32 {
        Some((b, _, args)) => {
            if !defined {
                f.push(("undefined-opcode-accepted", format!("word {w:#010x} with undefined top byte decodes")));
            } else if !should_decode {
                f.push(("reserved-bits-accepted", format!("word {w:#010x} decodes although a reserved bit is set")));
            }
            if *b != b0 {
                f.push(("decoded-opcode-differs", format!("word {w:#010x} decodes to opcode byte {b:#x}")));
            }
            if let Some(r) = row {
                if *args != ref_args(r.shape, w) {
                    f.push(("args-mispositioned", format!("word {w:#010x}: unpack() = {args:?}, positions say {:?}", ref_args(r.shape, w))));
                }
            }
            if reenc != Some(w) {
                f.push(("reencode-differs", format!("word {w:#010x} decodes but re-encodes to {reenc:?}")));
            }
        }
        None => {
            if should_decode {
                f.push(("valid-word-rejected", format!("word {w:#010x} has a defined opcode and zero reserved bits but does not decode")));
            }
        }
    }
    f
}

fn word_case(out: &mut Out, ctx: &mut Ctx, w: u32, class: &str) {
    out.oracle_evaluations += 1;
    let rj = json!({"kind": "word", "w": w});
    let obs = guarded(|| {
        let r32 = Instruction::try_from(w);
        let reenc = r32.as_ref().ok().map(|i| u32::from(*i));
        let bytes = r32.as_ref().ok().map(|i| i.to_bytes());
        let d32 = dec_of(r32);
        let db = dec_of(Instruction::try_from(w.to_be_bytes()));
        let raw = w.to_be_bytes();
        let rawp: Option<Option<Vec<u32>>> = Opcode::try_from(raw[0])
            .ok()
            .map(|opc| raw_parse(opc as u8, [raw[1], raw[2], raw[3]]).expect("row for a defined opcode").ok());
        (d32, db, reenc, bytes, rawp)
    });
    let (d32, db, reenc, bytes, rawp) = match obs {
        Ok(x) => x,
        Err(p) => {
            out.oracle_fail("panic", &format!("decoding word {w:#010x} panicked: {p}"), rj);
            return;
        }
    };
    let inv = match interp_invalid(ctx.vm(), w) {
        Ok(b) => b,
        Err(p) => {
            out.oracle_fail("panic", &format!("Interpreter::instruction({w:#010x}) panicked: {p}"), rj);
            ctx.vm = Vm::with_memory_storage();
            return;
        }
    };
    // ---- implementation-level oracle
    for (class, what) in oracle_word(w, &d32, reenc) {
        out.oracle_fail(class, &what, rj.clone());
    }
    if d32 != db {
        out.oracle_fail("decode-u32-vs-bytes-differ", &format!("try_from(u32) and try_from([u8;4]) differ on {w:#010x}"), rj.clone());
    }
    if let Some(b) = bytes {
        if b != w.to_be_bytes() {
            out.oracle_fail("reencode-differs", &format!("to_bytes() of decoded {w:#010x} = {b:?}"), rj.clone());
        }
    }
    let general = d32.as_ref().map(|(_, _, a)| a.clone());
    let interp_like = rawp.clone().flatten();
    if general != interp_like {
        out.oracle_fail("interp-parser-disagrees", &format!("from_raw_args/unpack gives {interp_like:?}, general decoder {general:?} on {w:#010x}"), rj.clone());
    }
    if inv != d32.is_none() {
        out.oracle_fail("interp-dispatch-disagrees", &format!("Interpreter::instruction({w:#010x}) InvalidInstruction={inv}, general decoder ok={}", d32.is_some()), rj.clone());
    }
    if ORACLE_ONLY.load(std::sync::atomic::Ordering::Relaxed) {
        return;
    }
    let b0 = (w >> 24) as u8;
    let valid_std = matches!(&d32, Some((b, _, a)) if *b == b0 && rawp == Some(Some(a.clone())))
        && d32 == db
        && reenc == Some(w)
        && bytes == Some(w.to_be_bytes())
        && !inv;
    let invalid_std = d32.is_none() && db.is_none() && inv && matches!(rawp, None | Some(None));
    let coq = if valid_std {
        format!("(wv {} {})%uint63", w, coq_nlist(&d32.as_ref().unwrap().2))
    } else if invalid_std {
        format!("(wi {} {})%uint63", w, if rawp.is_none() { 0 } else { 1 })
    } else {
        format!(
            "(wf {} {} {} {} {} {} {})%uint63",
            w,
            coq_dec(&d32),
            coq_bool(d32 == db),
            coq_opt(reenc.map(|x| x.to_string())),
            coq_opt(bytes.map(|b| u32::from_be_bytes(b).to_string())),
            coq_opt(rawp.map(|o| coq_opt(o.map(|a| coq_nlist(&a))))),
            coq_bool(inv)
        )
    };
    out.push(Case {
        coq,
        json: json!({"kind": "word", "w": w, "hex": format!("{w:#010x}"), "decoded": json_dec(&d32), "interp_invalid": inv}),
        key: format!("w{w}"),
        nontrivial: row_of((w >> 24) as u8).is_some(),
        class: class.to_string(),
    });
}

fn ctor_case(out: &mut Out, b: u8, args: &[u32], class: &str) {
    out.oracle_evaluations += 1;
    let rj = json!({"kind": "ctor", "byte": b, "args": args});
    let row = match row_of(b) {
        Some(r) => r,
        None => return,
    };
    if args.len() != row.shape.len() || row.shape.iter().zip(args).any(|(t, a)| t.param_bits() < 32 && (*a >> t.param_bits()) != 0) {
        return; // not expressible as a call of the Rust constructor
    }
    let short = guarded(|| shorthand(b, args).map(u32::from)).ok().flatten();
    let masked = match guarded(|| typed_new(b, args).map(u32::from)) {
        Ok(Some(x)) => x,
        other => {
            out.oracle_fail("panic", &format!("op::{}::new panicked or missing: {other:?}", row.name), rj);
            return;
        }
    };
    let dmask = dec_of(Instruction::try_from(masked));
    // ---- implementation-level oracle
    let ok = in_range(row.shape, args);
    match (ok, short) {
        (true, None) => out.oracle_fail("constructor-rejects-in-range", &format!("op::{}({args:?}) panicked on in-range arguments", row.ctor), rj.clone()),
        (false, Some(_)) => out.oracle_fail("constructor-accepts-out-of-range", &format!("op::{}({args:?}) accepted an out-of-range argument", row.ctor), rj.clone()),
        (true, Some(w)) => {
            let d = dec_of(Instruction::try_from(w));
            let want: Dec = Some((b, row.name.to_string(), args.to_vec()));
            if d != want {
                out.oracle_fail("constructed-does-not-roundtrip", &format!("op::{}({args:?}) = {w:#010x} decodes to {d:?}", row.ctor), rj.clone());
            }
            if w != ref_word(row, args) {
                out.oracle_fail("args-mispositioned", &format!("op::{}({args:?}) = {w:#010x}, positions say {:#010x}", row.ctor, ref_word(row, args)), rj.clone());
            }
            if masked != w {
                out.oracle_fail("constructed-does-not-roundtrip", &format!("op::{}::new and op::{} differ on {args:?}", row.name, row.ctor), rj.clone());
            }
        }
        (false, None) => {}
    }
    {
        // masking constructors: the result is a valid word of this opcode holding the masked values
        let margs: Vec<u32> = row.shape.iter().zip(args).map(|(t, a)| a & ((1u32 << t.width()) - 1)).collect();
        let want: Dec = Some((b, row.name.to_string(), margs));
        if dmask != want {
            out.oracle_fail("constructed-does-not-roundtrip", &format!("op::{}::new(masked {args:?}) = {masked:#010x} decodes to {dmask:?}", row.name), rj.clone());
        }
    }
    if ORACLE_ONLY.load(std::sync::atomic::Ordering::Relaxed) {
        return;
    }
    let std = short == Some(masked) && matches!(&dmask, Some((db, _, da)) if *db == b && da.as_slice() == args);
    let coq = if std {
        format!("(cs {} {} {})%uint63", b, coq_nlist(args), masked)
    } else {
        format!("(cf {} {} {} {} {})%uint63", b, coq_nlist(args), coq_opt(short.map(|x| x.to_string())), masked, coq_dec(&dmask))
    };
    out.push(Case {
        coq,
        json: json!({"kind": "ctor", "byte": b, "name": row.name, "args": args, "word": short, "masked_word": masked}),
        key: format!("c{b}:{args:?}"),
        nontrivial: true,
        class: class.to_string(),
    });
}

/// every combination of per-field candidate values
fn product(cands: &[Vec<u32>]) -> Vec<Vec<u32>> {
    let mut acc: Vec<Vec<u32>> = vec![vec![]];
    for c in cands {
        let mut next = vec![];
        for a in &acc {
            for v in c {
                let mut x = a.clone();
                x.push(*v);
                next.push(x);
            }
        }
        acc = next;
    }
    acc
}

/// native sweep of all 2^32 words: decode ok => re-encode == word, opcode defined, reserved bits
/// zero; decode err => opcode undefined or a reserved bit set.  Returns (#decodable, failures)
fn exhaustive_sweep(threads: u32) -> (u64, Vec<(String, String, u32)>) {
    let mut masks: [Option<u32>; 256] = [None; 256];
    for r in ROWS {
        masks[r.byte as usize] = Some(reserved_mask(r.shape));
    }
    let chunk = (1u64 << 32) / threads as u64;
    let handles: Vec<_> = (0..threads)
        .map(|t| {
            std::thread::spawn(move || {
                let lo = t as u64 * chunk;
                let hi = if t == threads - 1 { 1u64 << 32 } else { lo + chunk };
                let mut ok = 0u64;
                let mut fails: Vec<(String, String, u32)> = vec![];
                for w in lo..hi {
                    let w = w as u32;
                    let should = matches!(masks[(w >> 24) as usize], Some(m) if w & m == 0);
                    match Instruction::try_from(w) {
                        Ok(i) => {
                            ok += 1;
                            let back = u32::from(i);
                            if (!should || back != w) && fails.len() < 4 {
                                let class = if back != w {
                                    "reencode-differs"
                                } else if masks[(w >> 24) as usize].is_none() {
                                    "undefined-opcode-accepted"
                                } else {
                                    "reserved-bits-accepted"
                                };
                                fails.push((class.into(), format!("sweep: word {w:#010x} decodes, re-encodes to {back:#010x}, valid={should}"), w));
                            }
                        }
                        Err(_) => {
                            if should && fails.len() < 4 {
                                fails.push(("valid-word-rejected".into(), format!("sweep: valid word {w:#010x} does not decode"), w));
                            }
                        }
                    }
                }
                (ok, fails)
            })
        })
        .collect();
    let mut ok = 0;
    let mut fails = vec![];
    for h in handles {
        let (o, f) = h.join().expect("sweep thread");
        ok += o;
        fails.extend(f);
    }
    (ok, fails)
}

fn boundary(t: Ty) -> Vec<u32> {
    let max = (1u32 << t.width()) - 1;
    vec![0, 1, max - 1, max]
}

fn run_c08(args: &Args, out: &mut Out) {
    let mut rng = Rng::new(args.seed);
    let mut ctx = Ctx::new();
    // the generated table must describe the crate that is linked in
    for b in 0..=255u8 {
        let d = Opcode::try_from(b).ok().map(|o| format!("{o:?}"));
        let r = row_of(b).map(|r| r.name.to_string());
        if d != r {
            eprintln!("asm: generated opcode table is stale for byte {b:#x}: crate {d:?}, table {r:?}");
            std::process::exit(3);
        }
    }
    if let Some(p) = &args.replay {
        let v = read_replay(p);
        match v["kind"].as_str() {
            Some("word") => word_case(out, &mut ctx, v["w"].as_u64().unwrap() as u32, "replay"),
            Some("ctor") => {
                let a: Vec<u32> = v["args"].as_array().unwrap().iter().map(|x| x.as_u64().unwrap() as u32).collect();
                ctor_case(out, v["byte"].as_u64().unwrap() as u8, &a, "replay");
            }
            _ => panic!("replay: unknown kind"),
        }
        return;
    }
    let thorough = args.thorough();

    // 0. Debug name of every opcode byte (defined or not)
    for b in 0..=255u8 {
        let name = Opcode::try_from(b).ok().map(|o| format!("{o:?}"));
        out.push(Case {
            coq: format!("(nm {} {})%uint63", b, coq_opt(name.clone().map(|n| format!("\"{}\"%string", n)))),
            json: json!({"kind": "name", "byte": b, "name": name}),
            key: format!("n{b}"),
            nontrivial: name.is_some(),
            class: "opcode-name".into(),
        });
    }

    // 1. every opcode x boundary argument tuples {0, 1, max-1, max} per field
    let mut full_done: Vec<&[Ty]> = vec![];
    for row in ROWS {
        let cands: Vec<Vec<u32>> = row.shape.iter().map(|t| boundary(*t)).collect();
        let size: usize = cands.iter().map(|c| c.len()).product();
        // full product {0,1,max-1,max}^k; in the quick tier, for shapes with more than 16 tuples, only
        // for the first opcode of the shape — the others get every boundary value in every position
        // against an all-zero and an all-max background
        if thorough || size <= 16 || !full_done.contains(&row.shape) {
            full_done.push(row.shape);
            for a in product(&cands) {
                ctor_case(out, row.byte, &a, "ctor-boundary");
            }
        } else {
            for (k, c) in cands.iter().enumerate() {
                for bg in [0usize, 3] {
                    for v in c {
                        let mut a: Vec<u32> = cands.iter().map(|c| c[bg]).collect();
                        a[k] = *v;
                        ctor_case(out, row.byte, &a, "ctor-boundary-walk");
                    }
                }
            }
        }
        // out-of-range in one position (max+1, and the largest value of the parameter type)
        for (k, t) in row.shape.iter().enumerate() {
            let over = 1u64 << t.width();
            let tmax = (1u64 << t.param_bits()) - 1;
            for bad in [over, tmax, over | 1] {
                if bad > tmax || bad < over {
                    continue;
                }
                let mut a: Vec<u32> = row.shape.iter().map(|t| rng.below(1u64 << t.width()) as u32).collect();
                a[k] = bad as u32;
                ctor_case(out, row.byte, &a, "ctor-out-of-range");
            }
        }
        // random in-range tuples and random tuples within the parameter types
        for _ in 0..args.scale(4, 40) {
            let a: Vec<u32> = row.shape.iter().map(|t| rng.below(1u64 << t.width()) as u32).collect();
            ctor_case(out, row.byte, &a, "ctor-random");
            let a: Vec<u32> = row.shape.iter().map(|t| rng.below(1u64 << t.param_bits()) as u32).collect();
            ctor_case(out, row.byte, &a, "ctor-random-wide");
        }
    }
    // 2. single-bit walks over the 24 payload bits of every opcode (+ all pairs in thorough)
    let mut walked: Vec<&[Ty]> = vec![];
    for row in ROWS {
        let base = (row.byte as u32) << 24;
        word_case(out, &mut ctx, base, "bits-none");
        word_case(out, &mut ctx, base | 0x00FF_FFFF, "bits-all");
        let inverted = thorough || !walked.contains(&row.shape);
        walked.push(row.shape);
        for i in 0..24 {
            word_case(out, &mut ctx, base | (1 << i), "bit-walk");
            // complement walks: quick tier only for the first opcode of every shape
            if inverted {
                word_case(out, &mut ctx, base | (0x00FF_FFFF & !(1u32 << i)), "bit-walk-inverted");
            }
        }
        let pairs = if thorough { 24 } else { 0 };
        for i in 0..pairs {
            for j in 0..i {
                word_case(out, &mut ctx, base | (1 << i) | (1 << j), "bit-pairs");
            }
        }
    }
    // 3. every top byte, defined or not, x reserved-bit patterns
    for b in 0..=255u32 {
        let pats: [u32; 12] = [0, 1, 0x3F, 0x40, 0xFC0, 0xFFF, 0x1000, 0x3_F000, 0x3_FFFF, 0x4_0000, 0xFC_0000, 0xFF_FFFF];
        for (k, p) in pats.into_iter().enumerate() {
            // quick tier: every other pattern for defined bytes is enough next to the bit walks
            if !thorough && k % 2 == 1 && k != 11 {
                continue;
            }
            word_case(out, &mut ctx, (b << 24) | p, if row_of(b as u8).is_some() { "topbyte-defined" } else { "topbyte-undefined" });
        }
        let r = rng.below(1 << 24) as u32;
        word_case(out, &mut ctx, (b << 24) | r, if row_of(b as u8).is_some() { "topbyte-defined" } else { "topbyte-undefined" });
    }
    // 4. random words: uniform, and with a defined opcode and arguments only (reserved bits zero or one flipped)
    for _ in 0..args.scale(1000, 20000) {
        word_case(out, &mut ctx, rng.next() as u32, "random-uniform");
    }
    for _ in 0..args.scale(1500, 30000) {
        let row = rng.pick(ROWS);
        let mut w = ((row.byte as u32) << 24) | (rng.below(1 << 24) as u32 & !reserved_mask(row.shape));
        if rng.chance(1, 4) {
            w ^= 1 << rng.below(24);
        }
        word_case(out, &mut ctx, w, "random-defined");
    }
}

fn run_oracle_only(args: &Args, out: &mut Out) {
    // larger implementation-only search: more random tuples, then the full sweep
    let mut rng = Rng::new(args.seed);
    let mut ctx = Ctx::new();
    for row in ROWS {
        let cands: Vec<Vec<u32>> = row.shape.iter().map(|t| boundary(*t)).collect();
        for a in product(&cands) {
            ctor_case(out, row.byte, &a, "ctor-boundary");
        }
        for _ in 0..args.scale(200, 200) {
            let a: Vec<u32> = row.shape.iter().map(|t| rng.below(1u64 << t.param_bits()) as u32).collect();
            ctor_case(out, row.byte, &a, "ctor-random-wide");
            let a: Vec<u32> = row.shape.iter().map(|t| rng.below(1u64 << t.width()) as u32).collect();
            ctor_case(out, row.byte, &a, "ctor-random");
        }
    }
    for _ in 0..args.scale(20000, 20000) {
        word_case(out, &mut ctx, rng.next() as u32, "random-uniform");
    }
}

fn sweep(out: &mut Out) {
    let threads = std::thread::available_parallelism().map(|n| n.get() as u32).unwrap_or(8).clamp(1, 64);
    let t0 = std::time::Instant::now();
    let (ok, fails) = exhaustive_sweep(threads);
    out.oracle_evaluations += 1u64 << 32;
    let expect: u64 = ROWS.iter().map(|r| 1u64 << used_bits(r.shape)).sum();
    out.notes.push(format!(
        "exhaustive native sweep of all 2^32 words ({} threads, {:.1}s): {} words decode, the specification counts {}",
        threads,
        t0.elapsed().as_secs_f64(),
        ok,
        expect
    ));
    out.count("sweep-2^32");
    for (class, what, w) in fails {
        out.oracle_fail(&class, &what, json!({"kind": "word", "w": w}));
    }
    if ok != expect {
        out.oracle_fail("valid-word-count", &format!("{ok} of 2^32 words decode, the specification counts {expect}"), json!({"kind": "word", "w": 0}));
    }
}

fn main() {
    quiet_panics();
    let args = Args::parse();
    let mut out = Out::new();
    ORACLE_ONLY.store(args.oracle_only, std::sync::atomic::Ordering::Relaxed);
    let header = "From Coq Require Import Uint63.\nFrom FV Require Import Base.Bytes Gen.OpTable Run.Asm.\nOpen Scope N_scope.";
    match args.prop.as_str() {
        "C08" => {
            if args.oracle_only && args.replay.is_none() {
                run_oracle_only(&args, &mut out);
                sweep(&mut out);
            } else {
                run_c08(&args, &mut out);
                if args.thorough() && args.replay.is_none() {
                    sweep(&mut out);
                }
            }
            out.write(&args, header, "asm_case", "bad_asm");
        }
        p => {
            eprintln!("asm: unknown property {p}");
            std::process::exit(2);
        }
    }
}
